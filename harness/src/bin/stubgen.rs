//! C26 — generated adapter stubs compile for every valid schema (trustfall_stubgen).
//!
//! Requests
//! * `(mangle snake|variant|escape <hex name>)` → hex of `to_lower_snake_case` /
//!   `upper_case_variant_name` / `escaped_rust_name` (the real private functions through the
//!   `verif` hooks); `panic` when the function panics (empty name for `variant`).
//! * `(stub-check <schema>)` → outcome of `generate_rust_stub(schema_text, tmpdir)`:
//!   `ok` | `(conflict vertex A B)` | `(conflict field T A B)` (the two `ensure_no_*_conflicts`
//!   panics) | `panic:pretty-print` | `panic:unsupported-type` | `panic:<other>` | `refused:<err>`.
//! * `(stub-compile <schema>)` → `compiles` | `compile-error` | `not-generated:<stub-check answer>`:
//!   the stub is written into a scratch crate outside /repo and /verif and built with
//!   `cargo test --no-run --offline` against /repo/trustfall. The Lean driver answers this request
//!   with what the *model* predicts (`compiles` exactly when its checks pass and every generated
//!   item name is a usable, collision-free identifier) — rustc itself is not modelled.
//!
//! `<schema>` = `(schema (root (entry Name Type (param Type default|-)…)…)
//!                       (type|interface Name (implements I…) (prop n Type)|(edge n Type (param Type default|-)…) …)…)`
use std::collections::{BTreeMap, BTreeSet};
use std::sync::Mutex;
use std::path::{Path, PathBuf};
use std::process::Command;

use trustfall_stubgen::generate_rust_stub;
use trustfall_stubgen::verif_util as hooks;

use tfharness::framework::*;
use tfharness::rng::Rng;
use tfharness::sexp::{Sexp, hex, unhex};

pub struct C26;

// ---------------------------------------------------------------------------------------------
// schema description ⇄ s-expression ⇄ SDL
// ---------------------------------------------------------------------------------------------

#[derive(Clone, Debug)]
struct Param {
    name: String,
    ty: String,
    default: Option<String>,
}

#[derive(Clone, Debug)]
enum Field {
    Prop { name: String, ty: String },
    Edge { name: String, ty: String, params: Vec<Param> },
}

impl Field {
    fn name(&self) -> &str {
        match self {
            Field::Prop { name, .. } | Field::Edge { name, .. } => name,
        }
    }
}

#[derive(Clone, Debug)]
struct TypeDef {
    name: String,
    is_interface: bool,
    implements: Vec<String>,
    fields: Vec<Field>,
}

#[derive(Clone, Debug)]
struct Entry {
    name: String,
    ty: String,
    params: Vec<Param>,
}

#[derive(Clone, Debug)]
struct SchemaDesc {
    root: Vec<Entry>,
    types: Vec<TypeDef>,
}

const PRELUDE: &str = "schema {
    query: RootSchemaQuery
}
directive @filter(op: String!, value: [String!]) repeatable on FIELD | INLINE_FRAGMENT
directive @tag(name: String) repeatable on FIELD
directive @output(name: String) repeatable on FIELD
directive @optional on FIELD
directive @recurse(depth: Int!) on FIELD
directive @fold on FIELD
directive @transform(op: String!) repeatable on FIELD
";

fn render_params(params: &[Param]) -> String {
    if params.is_empty() {
        return String::new();
    }
    let ps: Vec<String> = params
        .iter()
        .map(|p| match &p.default {
            Some(d) => format!("{}: {} = {}", p.name, p.ty, d),
            None => format!("{}: {}", p.name, p.ty),
        })
        .collect();
    format!("({})", ps.join(", "))
}

fn render_sdl(s: &SchemaDesc) -> String {
    let mut out = String::from(PRELUDE);
    out.push_str("\ntype RootSchemaQuery {\n");
    for e in &s.root {
        out.push_str(&format!("    {}{}: {}\n", e.name, render_params(&e.params), e.ty));
    }
    out.push_str("}\n");
    for t in &s.types {
        out.push('\n');
        out.push_str(if t.is_interface { "interface " } else { "type " });
        out.push_str(&t.name);
        if !t.implements.is_empty() {
            out.push_str(" implements ");
            out.push_str(&t.implements.join(" & "));
        }
        out.push_str(" {\n");
        for f in &t.fields {
            match f {
                Field::Prop { name, ty } => out.push_str(&format!("    {name}: {ty}\n")),
                Field::Edge { name, ty, params } => {
                    out.push_str(&format!("    {}{}: {}\n", name, render_params(params), ty))
                }
            }
        }
        out.push_str("}\n");
    }
    out
}

fn params_to_sexp(params: &[Param]) -> Vec<Sexp> {
    params
        .iter()
        .map(|p| {
            Sexp::list(vec![
                Sexp::atom(&p.name),
                Sexp::atom(&p.ty),
                Sexp::atom(p.default.clone().unwrap_or_else(|| "-".into())),
            ])
        })
        .collect()
}

fn schema_to_sexp(s: &SchemaDesc) -> Sexp {
    let mut items = vec![];
    let mut root = vec![];
    for e in &s.root {
        let mut v = vec![Sexp::atom(&e.name), Sexp::atom(&e.ty)];
        v.extend(params_to_sexp(&e.params));
        root.push(Sexp::call("entry", v));
    }
    items.push(Sexp::call("root", root));
    for t in &s.types {
        let mut v = vec![
            Sexp::atom(if t.is_interface { "interface" } else { "type" }),
            Sexp::atom(&t.name),
            Sexp::call("implements", t.implements.iter().map(Sexp::atom).collect()),
        ];
        for f in &t.fields {
            match f {
                Field::Prop { name, ty } => v.push(Sexp::call("prop", vec![Sexp::atom(name), Sexp::atom(ty)])),
                Field::Edge { name, ty, params } => {
                    let mut e = vec![Sexp::atom(name), Sexp::atom(ty)];
                    e.extend(params_to_sexp(params));
                    v.push(Sexp::call("edge", e));
                }
            }
        }
        items.push(Sexp::list(v));
    }
    Sexp::call("schema", items)
}

fn sexp_to_params(ps: &[Sexp]) -> Option<Vec<Param>> {
    let mut params = vec![];
    for p in ps {
        let pl = p.as_list()?;
        let d = pl.get(2)?.as_atom()?;
        params.push(Param {
            name: pl.first()?.as_atom()?.to_string(),
            ty: pl.get(1)?.as_atom()?.to_string(),
            default: if d == "-" { None } else { Some(d.to_string()) },
        });
    }
    Some(params)
}

fn sexp_to_schema(s: &Sexp) -> Option<SchemaDesc> {
    let (h, items) = s.as_call()?;
    if h != "schema" {
        return None;
    }
    let (rh, entries) = items.first()?.as_call()?;
    if rh != "root" {
        return None;
    }
    let mut root = vec![];
    for e in entries {
        let (eh, args) = e.as_call()?;
        if eh != "entry" {
            return None;
        }
        root.push(Entry {
            name: args.first()?.as_atom()?.to_string(),
            ty: args.get(1)?.as_atom()?.to_string(),
            params: sexp_to_params(&args[2..])?,
        });
    }
    let mut types = vec![];
    for it in &items[1..] {
        let l = it.as_list()?;
        let kind = l.first()?.as_atom()?;
        let name = l.get(1)?.as_atom()?.to_string();
        let (ih, impls) = l.get(2)?.as_call()?;
        if ih != "implements" {
            return None;
        }
        let implements = impls.iter().map(|x| x.as_atom().map(str::to_string)).collect::<Option<Vec<_>>>()?;
        let mut fields = vec![];
        for f in &l[3..] {
            let (fh, args) = f.as_call()?;
            match fh {
                "prop" => fields.push(Field::Prop {
                    name: args.first()?.as_atom()?.to_string(),
                    ty: args.get(1)?.as_atom()?.to_string(),
                }),
                "edge" => fields.push(Field::Edge {
                    name: args.first()?.as_atom()?.to_string(),
                    ty: args.get(1)?.as_atom()?.to_string(),
                    params: sexp_to_params(&args[2..])?,
                }),
                _ => return None,
            }
        }
        types.push(TypeDef { name, is_interface: kind == "interface", implements, fields });
    }
    Some(SchemaDesc { root, types })
}

// ---------------------------------------------------------------------------------------------
// running the real generator
// ---------------------------------------------------------------------------------------------

/// The tree the generated stubs are compiled against: /repo, or the private patched copy `./mutcheck`
/// runs the check on.
fn repo_root() -> String {
    std::env::var("VERIF_REPO_ROOT").unwrap_or_else(|_| ["/", "repo"].concat())
}

fn scratch_root() -> PathBuf {
    PathBuf::from(format!("/tmp/verif-stub-{}", std::process::id()))
}

fn target_dir() -> PathBuf {
    PathBuf::from(format!("/tmp/verif-stub-target-{}", std::process::id()))
}

fn fnv(s: &str) -> u64 {
    let mut h: u64 = 0xcbf29ce484222325;
    for b in s.bytes() {
        h ^= b as u64;
        h = h.wrapping_mul(0x100000001b3);
    }
    h
}

/// Between the quotes of a `'…'`-quoted name in a panic message.
fn quoted(msg: &str) -> Vec<String> {
    msg.split('\'').skip(1).step_by(2).map(str::to_string).collect()
}

/// `generate_rust_stub` on the SDL rendered from the description; canonical outcome text.
fn run_generator(sdl: &str, dir: &Path) -> String {
    let src = dir.join("src");
    match guarded(|| generate_rust_stub(sdl, &src)) {
        Ok(Ok(())) => "ok".to_string(),
        Ok(Err(e)) => format!("refused:{}", format!("{e:#}").replace(char::is_whitespace, "_")),
        Err(info) => {
            if info.contains("cannot generate adapter for a schema containing both") {
                let q = quoted(&info);
                if info.contains("as field names on vertex") && q.len() >= 3 {
                    format!("(conflict field {} {} {})", q[2], q[0], q[1])
                } else if info.contains("as entrypoints") && q.len() >= 2 {
                    format!("(conflict entrypoint {} {})", q[0], q[1])
                } else if q.len() >= 2 {
                    format!("(conflict vertex {} {})", q[0], q[1])
                } else {
                    format!("panic:{}", panic_key(&info))
                }
            } else if info.contains("not valid Rust") || info.contains("/prettyplease-") {
                // both are raised inside `RustFile::pretty_print_item` while the files are written
                "panic:pretty-print".to_string()
            } else if info.contains("is not yet supported when autogenerating stubs") {
                "panic:unsupported-type".to_string()
            } else {
                format!("panic:{}", panic_key(&info))
            }
        }
    }
}

/// The parameter bindings the generator emitted: every `let <ident>: <type> = parameters.get(…)…;`
/// statement of edges.rs (edges of vertex types) and adapter_impl.rs (entry points), with all
/// whitespace removed, sorted, joined by `;;`. `-` when there is none.
fn emitted_parameter_statements(adapter_dir: &Path) -> String {
    let mut found: Vec<String> = vec![];
    for file in ["edges.rs", "adapter_impl.rs"] {
        let text = std::fs::read_to_string(adapter_dir.join(file)).unwrap_or_default();
        // layout only: whitespace, the braces prettyplease puts around multi-line closure bodies,
        // and the trailing comma it adds when it breaks a call over several lines
        let flat: String = text.chars().filter(|c| !c.is_whitespace() && *c != '{' && *c != '}').collect();
        let flat = flat.replace(",)", ")");
        let mut rest = flat.as_str();
        while let Some(eq) = rest.find("=parameters.get(") {
            // walk back to the `let` that starts this statement
            let Some(start) = rest[..eq].rfind("let") else { break };
            let Some(end) = rest[eq..].find(';') else { break };
            found.push(rest[start..eq + end].to_string());
            rest = &rest[eq + end + 1..];
        }
    }
    found.sort();
    if found.is_empty() { "-".to_string() } else { found.join(";;") }
}

fn first_rustc_error(stderr: &str) -> String {
    for line in stderr.lines() {
        let l = line.trim_start();
        if l.starts_with("error") && !l.starts_with("error: could not compile") {
            let words: Vec<&str> = l.split_whitespace().take(12).collect();
            return words.join("_");
        }
    }
    "unknown".to_string()
}

/// Build the generated stub inside a scratch crate (shared target dir), like the repo's own
/// `assert_generated_code_compiles`, but offline and with the repo's lockfile.
fn compile_stub(desc: &SchemaDesc) -> String {
    let sdl = render_sdl(desc);
    let dir = scratch_root().join(format!("case-{:016x}", fnv(&sdl)));
    let _ = std::fs::remove_dir_all(&dir);
    std::fs::create_dir_all(dir.join("src")).expect("scratch dir");
    let outcome = run_generator(&sdl, &dir);
    let answer = if outcome != "ok" {
        format!("not-generated:{outcome}")
    } else {
        let repo = repo_root();
        let cargo_toml = format!(
            "
[package]
name = \"tests\"
publish = false
version = \"0.1.0\"
edition = \"2021\"
rust-version = \"1.70\"

[dependencies]
trustfall = {{ path = '{repo}/trustfall' }}

[workspace]
"
        );
        std::fs::write(dir.join("Cargo.toml"), cargo_toml).expect("Cargo.toml");
        std::fs::write(dir.join("src").join("lib.rs"), "mod adapter;\n").expect("lib.rs");
        std::fs::copy(format!("{repo}/Cargo.lock"), dir.join("Cargo.lock")).expect("Cargo.lock");
        let output = Command::new("cargo")
            .current_dir(&dir)
            .env("CARGO_TARGET_DIR", target_dir())
            .env("CARGO_NET_OFFLINE", "true")
            // no debug info: the oracle only needs to know whether the crate builds
            .env("CARGO_PROFILE_DEV_DEBUG", "0")
            .env("CARGO_PROFILE_TEST_DEBUG", "0")
            .env("CARGO_INCREMENTAL", "0")
            .env_remove("RUSTFLAGS")
            .arg("test")
            .arg("--no-run")
            .arg("--offline")
            .output()
            .expect("failed to run cargo");
        if output.status.success() {
            "compiles".to_string()
        } else {
            let stderr = String::from_utf8_lossy(&output.stderr);
            if let Ok(p) = std::env::var("VERIF_STUB_KEEP_LOG") {
                let _ = std::fs::write(p, stderr.as_bytes());
            }
            remember_detail(&sdl, first_rustc_error(&stderr));
            "compile-error".to_string()
        }
    };
    let _ = std::fs::remove_dir_all(&dir);
    answer
}

/// rustc's first error per compiled SDL text (diagnostics only: tags and oracle details).
static DETAILS: Mutex<BTreeMap<u64, String>> = Mutex::new(BTreeMap::new());

fn remember_detail(sdl: &str, detail: String) {
    DETAILS.lock().unwrap().insert(fnv(sdl), detail);
}

fn detail_for(desc: &SchemaDesc) -> String {
    DETAILS.lock().unwrap().get(&fnv(&render_sdl(desc))).cloned().unwrap_or_default()
}

fn cleanup_scratch() {
    let _ = std::fs::remove_dir_all(scratch_root());
    let _ = std::fs::remove_dir_all(target_dir());
}

// ---------------------------------------------------------------------------------------------
// reference naming (independent re-statement used by the oracles only, never by `eval`)
// ---------------------------------------------------------------------------------------------

/// What the generated code needs `to_lower_snake_case` to be: an underscore before a capital that
/// follows a non-capital, non-underscore character.
fn ref_snake(n: &str) -> String {
    let mut out = String::new();
    let mut last = '_';
    for c in n.chars() {
        if c.is_ascii_uppercase() {
            if last != '_' && !last.is_ascii_uppercase() {
                out.push('_');
            }
            out.push(c.to_ascii_lowercase());
        } else {
            out.push(c);
        }
        last = c;
    }
    out
}

/// trustfall_derive's naming of the `as_<variant>()` methods (an underscore before every capital
/// that does not follow an underscore).
fn derive_snake(n: &str) -> String {
    let mut out = String::new();
    let mut last = '_';
    for c in n.chars() {
        if c.is_ascii_uppercase() {
            if last != '_' {
                out.push('_');
            }
            out.push(c.to_ascii_lowercase());
        } else {
            out.push(c);
        }
        last = c;
    }
    out
}

/// Strict and reserved keywords (Rust reference) and `_`: what cannot be an item name.
const NOT_AN_IDENT: &[&str] = &[
    "_", "abstract", "as", "async", "await", "become", "box", "break", "const", "continue", "crate", "do", "dyn",
    "else", "enum", "extern", "false", "final", "fn", "for", "if", "impl", "in", "let", "loop", "macro", "match",
    "mod", "move", "mut", "override", "priv", "pub", "ref", "return", "Self", "self", "static", "struct", "super",
    "trait", "true", "try", "type", "typeof", "unsafe", "unsized", "use", "virtual", "where", "while", "yield",
];

/// The keywords `escaped_rust_name` documents that it escapes.
const ESCAPED: &[&str] = &[
    "as", "break", "const", "continue", "crate", "else", "enum", "extern", "false", "fn", "for", "if", "impl",
    "in", "let", "loop", "match", "mod", "move", "mut", "pub", "ref", "return", "self", "Self", "static",
    "struct", "super", "trait", "true", "type", "unsafe", "use", "where", "while", "async", "await", "dyn",
    "try", "macro_rules", "union", "abstract", "become", "box", "do", "final", "macro", "override", "priv",
    "typeof", "unsized", "virtual", "yield", "gen", "_",
];

fn ref_escape(n: String) -> String {
    if ESCAPED.contains(&n.as_str()) { n + "_" } else { n }
}

fn ref_variant(n: &str) -> String {
    let mut c = n.chars();
    let first = c.next().map(|f| f.to_ascii_uppercase()).unwrap_or('?');
    ref_escape(format!("{first}{}", c.as_str()))
}

fn ref_item(n: &str) -> String {
    ref_escape(ref_snake(n))
}

impl TypeDef {
    fn edges(&self) -> impl Iterator<Item = (&String, &Vec<Param>)> {
        self.fields.iter().filter_map(|f| match f {
            Field::Edge { name, params, .. } => Some((name, params)),
            _ => None,
        })
    }
    fn has_edges(&self) -> bool {
        self.edges().next().is_some()
    }
}

fn has_dup(v: &[String]) -> bool {
    let mut seen = BTreeSet::new();
    v.iter().any(|x| !seen.insert(x.clone()))
}

/// Does the schema contain names that the generated code would map to one item name in a namespace
/// the checks are responsible for (per vertex type: module / function name, `Vertex` variant,
/// conversion method; fields of one vertex type; entry points)?
fn expected_conflict(d: &SchemaDesc) -> bool {
    let types: Vec<String> = d.types.iter().map(|t| ref_item(&t.name)).collect();
    let variants: Vec<String> = d.types.iter().map(|t| ref_variant(&t.name)).collect();
    let conversions: Vec<String> = variants.iter().map(|v| derive_snake(v)).collect();
    let entries: Vec<String> = d.root.iter().map(|e| ref_item(&e.name)).collect();
    if has_dup(&types) || has_dup(&variants) || has_dup(&conversions) || has_dup(&entries) {
        return true;
    }
    d.types.iter().any(|t| {
        let fields: Vec<String> = t.fields.iter().map(|f| ref_item(f.name())).collect();
        has_dup(&fields)
    })
}

fn all_params(d: &SchemaDesc) -> Vec<(&Param, bool, bool, bool)> {
    // (param, belongs to an edge, is first, is last)
    let mut out = vec![];
    for e in &d.root {
        let n = e.params.len();
        for (i, p) in e.params.iter().enumerate() {
            out.push((p, false, i == 0, i + 1 == n));
        }
    }
    for t in &d.types {
        for (_, ps) in t.edges() {
            let n = ps.len();
            for (i, p) in ps.iter().enumerate() {
                out.push((p, true, i == 0, i + 1 == n));
            }
        }
    }
    out
}

/// Why the generator panicked, in terms of the schema's names (the class a known finding is keyed by).
fn panic_cause(d: &SchemaDesc, answer: &str) -> String {
    if answer.ends_with("panic:unsupported-type") {
        let base = |ty: &str| ty.replace(['[', ']', '!'], "");
        return if all_params(d).iter().any(|(p, ..)| base(&p.ty) == "ID") {
            "unsupported-type:param-type-ID".into()
        } else {
            "unsupported-type:unexplained".into()
        };
    }
    if answer.ends_with("panic:pretty-print") {
        if all_params(d).iter().any(|(p, ..)| NOT_AN_IDENT.contains(&p.name.as_str()) && p.name != "_") {
            return "pretty-print:param-keyword".into();
        }
        let mut items: Vec<String> = d.root.iter().map(|e| ref_item(&e.name)).collect();
        for t in &d.types {
            items.push(ref_variant(&t.name));
            if t.has_edges() {
                items.push(ref_item(&t.name));
                items.extend(t.edges().map(|(n, _)| ref_item(n)));
            }
        }
        return if items.iter().any(|i| NOT_AN_IDENT.contains(&i.as_str())) {
            "pretty-print:item-reserved-keyword".into()
        } else {
            "pretty-print:unexplained".into()
        };
    }
    format!("unexplained:{answer}")
}

/// Why an accepted schema's stub does not compile, in terms of the schema's names.
fn compile_cause(d: &SchemaDesc) -> String {
    let clash = |params: &[Param], is_edge: bool| {
        let ids: Vec<String> = params.iter().map(|p| ref_escape(p.name.clone())).collect();
        let n = ids.len();
        has_dup(&ids)
            || ids.iter().enumerate().any(|(i, id)| {
                (is_edge && id == "contexts")
                    || id == "_resolve_info"
                    || id == "resolve_info"
                    || (id == "parameters" && i + 1 < n)
            })
    };
    if d.root.iter().any(|e| clash(&e.params, false))
        || d.types.iter().any(|t| t.edges().any(|(_, ps)| clash(ps, true)))
    {
        return "param-binding".into();
    }
    let variants: Vec<String> = d.types.iter().map(|t| ref_variant(&t.name)).collect();
    if has_dup(&variants) {
        return "duplicate-variant".into();
    }
    let entry_fns: Vec<String> = d.root.iter().map(|e| ref_item(&e.name)).collect();
    if has_dup(&entry_fns) {
        return "duplicate-entrypoint-fn".into();
    }
    let conv: Vec<String> = variants.iter().map(|v| derive_snake(v)).collect();
    if has_dup(&conv) {
        return "duplicate-conversion".into();
    }
    if d.types.iter().any(|t| t.has_edges() && ref_snake(&ref_variant(&t.name)) != derive_snake(&ref_variant(&t.name))) {
        return "conversion-name-mismatch".into();
    }
    if d.types.iter().any(|t| t.has_edges() && ref_item(&t.name) == "trustfall")
        || d.types.iter().any(|t| t.edges().any(|(n, _)| ref_item(n) == "resolve_neighbors_with"))
    {
        return "import-collision".into();
    }
    format!("unexplained:{}", detail_for(d))
}

// ---------------------------------------------------------------------------------------------
// name corpus
// ---------------------------------------------------------------------------------------------

/// Every strict / reserved / weak keyword of the Rust reference, plus `gen`.
const KEYWORDS: &[&str] = &[
    "as", "break", "const", "continue", "crate", "else", "enum", "extern", "false", "fn", "for", "if", "impl",
    "in", "let", "loop", "match", "mod", "move", "mut", "pub", "ref", "return", "self", "Self", "static",
    "struct", "super", "trait", "true", "type", "unsafe", "use", "where", "while", "async", "await", "dyn",
    "try", "macro_rules", "union", "abstract", "become", "box", "do", "final", "macro", "override", "priv",
    "typeof", "unsized", "virtual", "yield", "gen", "safe", "raw", "auto", "default",
];

fn name_corpus(tier: Tier, rng: &mut Rng) -> Vec<String> {
    let mut v: Vec<String> = vec![];
    let base = [
        "a", "A", "_", "x_", "x__", "_x", "a1", "A1", "a_1", "fooBar", "FooBar", "foo_bar", "Foo_Bar", "foo__bar",
        "FOO_BAR", "FOOBar", "fooBAR", "FooBAR", "fOO", "FOO", "Foo", "foo", "FOo", "F_oo", "userID", "UserID",
        "user_id", "HTTPRequest", "httpRequest", "Http_Request", "iPhone", "IPhone", "x1Y2", "X1y2", "aB", "Ab",
        "AB", "ab", "a_B", "A_b", "_A", "_a", "_Ab", "A_", "A__", "number123Middle", "Number123Middle", "Type",
        "Type_", "type_", "Self_", "self_", "Match", "MATCH", "mAtch", "Static", "r", "r_", "contexts",
        "resolve_info", "_resolve_info", "parameters", "edge_name", "vertex", "Vertex", "Adapter", "Trustfall",
        "trustfall", "resolve_neighbors_with", "resolveNeighborsWith", "Std", "Core", "Option", "Vec", "String",
        "'static", "z9_", "Q", "q_Q_q",
    ];
    v.extend(base.iter().map(|s| s.to_string()));
    for k in KEYWORDS {
        v.push(k.to_string());
        let mut c = k.chars();
        if let Some(f) = c.next() {
            v.push(format!("{}{}", f.to_ascii_uppercase(), c.as_str()));
        }
        v.push(format!("{k}_"));
        v.push(format!("_{k}"));
        v.push(k.to_ascii_uppercase());
    }
    let n = if tier == Tier::Quick { 400 } else { 8000 };
    const ALPHA: &[u8] = b"abcXYZ_019";
    for _ in 0..n {
        let len = 1 + rng.below(7);
        let mut s = String::new();
        for i in 0..len {
            let mut c = ALPHA[rng.below(ALPHA.len())] as char;
            if i == 0 && c.is_ascii_digit() {
                c = '_';
            }
            s.push(c);
        }
        v.push(s);
    }
    let mut seen = BTreeSet::new();
    v.retain(|s| seen.insert(s.clone()));
    v
}

fn is_graphql_name(s: &str) -> bool {
    let mut c = s.chars();
    match c.next() {
        Some(f) if f == '_' || f.is_ascii_alphabetic() => c.all(|x| x == '_' || x.is_ascii_alphanumeric()),
        _ => false,
    }
}

fn consecutive_capitals(s: &str) -> bool {
    s.as_bytes().windows(2).any(|w| w[0].is_ascii_uppercase() && w[1].is_ascii_uppercase())
}

// ---------------------------------------------------------------------------------------------
// schema generators
// ---------------------------------------------------------------------------------------------

const PROP_TYPES: &[&str] = &["String", "Int!", "[Float]", "[String!]!", "Boolean", "ID!", "Float!", "[Int]", "ID"];
/// Every supported built-in scalar x {T, T!, [T], [T]!, [T!], [T!]!} (with a valid default), plus a
/// nested list. (`ID` parameters are a known generator panic, F-C26-3: risky pool only.)
const PARAM_TYPES: &[(&str, &str)] = &[
    ("Int", "3"), ("Int!", "5"), ("[Int]", "[null,1]"), ("[Int]!", "[1,null]"), ("[Int!]", "[1]"), ("[Int!]!", "[1,2]"),
    ("String", "null"), ("String!", "\"abc\""), ("[String]", "[null,\"x\"]"), ("[String]!", "[\"x\",null]"),
    ("[String!]", "[\"x\"]"), ("[String!]!", "[\"x\",\"y\"]"),
    ("Float", "1.5"), ("Float!", "1.5"), ("[Float]", "[null,1.5]"), ("[Float]!", "[1.5,null]"), ("[Float!]", "[1.5]"),
    ("[Float!]!", "[1.5,2.5]"),
    ("Boolean", "true"), ("Boolean!", "true"), ("[Boolean]", "[null,true]"), ("[Boolean]!", "[true,null]"),
    ("[Boolean!]", "[true]"), ("[Boolean!]!", "[true,false]"),
    ("[[Float!]]!", "[[1.5]]"),
];

/// Parameter names that differ only in case or underscores; every pair stays distinct after
/// `escaped_rust_name` and avoids the templates' own bindings.
const PARAM_TWINS: &[(&str, &str)] = &[
    ("maxItems", "max_items"), ("MaxItems", "maxItems"), ("type", "Type"), ("userID", "userId"), ("_x", "x_"),
    ("y__", "y_"), ("a__b", "a_b"), ("Limit", "limit"), ("match", "Match"), ("self", "Self"), ("pageSize", "page_size"),
    ("N1", "n1"),
];
/// … and pairs that collide after escaping (F-C26-7, risky pool only).
const RISKY_PARAM_TWINS: &[(&str, &str)] = &[("type", "type_"), ("match", "match_"), ("gen", "gen_"), ("_", "__x")];

fn list_with_nullable_elements(ty: &str) -> bool {
    // a scalar name directly followed by `]`: the list's elements may be null
    ty.as_bytes().windows(2).any(|w| w[0].is_ascii_alphabetic() && w[1] == b']')
}

fn schema_tags(d: &SchemaDesc) -> Vec<&'static str> {
    let mut tags = vec![];
    let lists: Vec<(&Vec<Param>, bool)> = d
        .root
        .iter()
        .map(|e| (&e.params, false))
        .chain(d.types.iter().flat_map(|t| t.edges().map(|(_, ps)| (ps, true))))
        .collect();
    if lists.iter().any(|(ps, on_vertex)| *on_vertex && ps.iter().any(|p| list_with_nullable_elements(&p.ty))) {
        tags.push("nt:param-list-nullable-elem");
    }
    let twin = |ps: &Vec<Param>| {
        let keys: Vec<String> = ps.iter().map(|p| ref_snake(&p.name).replace('_', "")).collect();
        has_dup(&keys)
    };
    if lists.iter().any(|(ps, _)| twin(ps)) {
        tags.push("nt:param-name-twins");
    }
    tags
}

/// Every parameter type of the matrix on an edge of a vertex type AND on an entry point.
fn matrix_schema() -> SchemaDesc {
    let params: Vec<Param> = PARAM_TYPES
        .iter()
        .enumerate()
        .map(|(i, (ty, d))| Param { name: format!("p{i}"), ty: ty.to_string(), default: if i % 2 == 0 { Some(d.to_string()) } else { None } })
        .collect();
    SchemaDesc {
        root: vec![Entry { name: "Book".into(), ty: "[Book!]!".into(), params: params.clone() }],
        types: vec![TypeDef {
            name: "Book".into(),
            is_interface: false,
            implements: vec![],
            fields: vec![
                Field::Prop { name: "title".into(), ty: "String".into() },
                Field::Edge { name: "books".into(), ty: "[Book!]".into(), params },
            ],
        }],
    }
}

/// Every pair of twin parameter names on one edge of a vertex type AND on one entry point.
fn twins_schema() -> SchemaDesc {
    let mut params: Vec<Param> = vec![];
    for (i, (a, b)) in PARAM_TWINS.iter().enumerate() {
        for n in [a, b] {
            if !params.iter().any(|p| p.name == **n) {
                let (ty, _) = PARAM_TYPES[(i * 5 + params.len()) % PARAM_TYPES.len()];
                params.push(Param { name: n.to_string(), ty: ty.to_string(), default: None });
            }
        }
    }
    SchemaDesc {
        root: vec![Entry { name: "Book".into(), ty: "[Book!]!".into(), params: params.clone() }],
        types: vec![TypeDef {
            name: "Book".into(),
            is_interface: false,
            implements: vec![],
            fields: vec![
                Field::Prop { name: "title".into(), ty: "String".into() },
                Field::Edge { name: "related".into(), ty: "[Book!]".into(), params },
            ],
        }],
    }
}


/// Names that keep clear of every *known* generator defect (known_findings.json): no keyword
/// relatives, no two consecutive capitals, nothing colliding with the templates' own bindings or imports.
const SAFE_TYPE_NAMES: &[&str] = &[
    "Story", "Comment", "user", "web_page", "Item2", "JobPosting", "Ab", "node_", "Repo_Owner", "x", "Q9", "_Hidden",
];
const SAFE_FIELD_NAMES: &[&str] = &[
    "id", "byUser", "by_username", "ownText", "Score", "url", "link_", "_private", "parent2", "topLevel", "Kids",
    "x", "aB", "submitted_", "commit9", "n_1",
];
const SAFE_PARAM_NAMES: &[&str] = &["min", "max", "userName", "Limit", "page_size", "q", "_skip", "n1", "vertex", "edge_name"];

const RISKY_TYPE_NAMES: &[&str] = &[
    "Story", "story", "STORY", "FooBar", "foo_bar", "fooBar", "Foo_Bar", "Type", "Type_", "type_", "Self", "self_",
    "Match", "Mod", "Do", "Final", "Yield", "fOO", "FOO", "UserID", "user_id", "_", "X_", "Trustfall", "Box", "Priv",
    "Item", "Node", "Become", "Gen", "Union",
];
const RISKY_FIELD_NAMES: &[&str] = &[
    "id", "Id", "ID", "byUser", "by_user", "ByUser", "type", "type_", "Type", "match", "self", "Self", "super",
    "crate", "async", "try", "union", "do", "final", "yield", "box", "priv", "macro", "abstract", "gen", "_",
    "resolve_neighbors_with", "name", "url", "fn", "mod", "move", "loop", "become", "typeof",
];
const RISKY_PARAM_NAMES: &[&str] = &[
    "min", "max", "match", "self", "type", "contexts", "resolve_info", "_resolve_info", "parameters", "_", "do",
    "Self", "crate", "super", "try", "union", "gen", "x", "true", "false", "yield",
];
const RISKY_PARAM_TYPES: &[(&str, &str)] = &[("Int!", "5"), ("String", "null"), ("ID", "null"), ("[ID!]", "null"), ("Boolean!", "true")];

fn wrap_edge_type(rng: &mut Rng, target: &str) -> String {
    match rng.below(5) {
        0 => target.to_string(),
        1 => format!("{target}!"),
        2 => format!("[{target}!]"),
        3 => format!("[{target}]!"),
        _ => format!("[{target}!]!"),
    }
}

fn gen_params(rng: &mut Rng, names: &[&str], types: &[(&str, &str)], twins: &[(&str, &str)]) -> Vec<Param> {
    let n = [0, 0, 1, 1, 2, 3][rng.below(6)];
    let mut used = BTreeSet::new();
    let mut out = vec![];
    let mut push = |rng: &mut Rng, name: &str, out: &mut Vec<Param>| {
        if !used.insert(name.to_string()) {
            return;
        }
        let (ty, d) = *rng.pick(types);
        out.push(Param { name: name.to_string(), ty: ty.to_string(), default: if rng.chance(1, 2) { Some(d.to_string()) } else { None } });
    };
    for _ in 0..n {
        let name = names[rng.below(names.len())];
        push(rng, name, &mut out);
    }
    if !twins.is_empty() && rng.chance(1, 3) {
        let (a, b) = *rng.pick(twins);
        push(rng, a, &mut out);
        push(rng, b, &mut out);
    }
    out
}

struct Pools<'a> {
    types: &'a [&'a str],
    fields: &'a [&'a str],
    params: &'a [&'a str],
    param_types: &'a [(&'a str, &'a str)],
    param_twins: &'a [(&'a str, &'a str)],
}

/// A valid schema over the given name pools: 2-5 vertex types, optionally an interface with
/// implementers (inherited fields redeclared), properties of built-in scalar types, edges and entry
/// points with parameters.
fn gen_schema(rng: &mut Rng, pools: &Pools<'_>) -> SchemaDesc {
    let n = 2 + rng.below(4);
    let mut pool: Vec<&str> = pools.types.to_vec();
    for i in (1..pool.len()).rev() {
        pool.swap(i, rng.below(i + 1));
    }
    let names: Vec<&str> = pool.into_iter().take(n).collect();
    let n = names.len();
    let has_iface = rng.chance(2, 3);
    let mut types: Vec<TypeDef> = vec![];
    for (i, name) in names.iter().enumerate() {
        let is_interface = has_iface && i == 0;
        let implements = if has_iface && i > 0 && rng.chance(1, 2) { vec![names[0].to_string()] } else { vec![] };
        let mut fields: Vec<Field> = vec![];
        if !implements.is_empty() {
            fields.extend(types[0].fields.iter().cloned());
        }
        let mut fpool: Vec<&str> = pools.fields.to_vec();
        for k in (1..fpool.len()).rev() {
            fpool.swap(k, rng.below(k + 1));
        }
        let mut n_props = rng.below(4);
        let n_edges = rng.below(3);
        if fields.is_empty() && n_props + n_edges == 0 {
            n_props = 1;
        }
        let avail: Vec<&str> = fpool.into_iter().filter(|f| !fields.iter().any(|g| g.name() == *f)).collect();
        let mut it = avail.into_iter();
        for _ in 0..n_props {
            if let Some(f) = it.next() {
                fields.push(Field::Prop { name: f.to_string(), ty: rng.pick(PROP_TYPES).to_string() });
            }
        }
        for _ in 0..n_edges {
            if let Some(f) = it.next() {
                let target = names[rng.below(n)];
                fields.push(Field::Edge {
                    name: f.to_string(),
                    ty: wrap_edge_type(rng, target),
                    params: gen_params(rng, pools.params, pools.param_types, pools.param_twins),
                });
            }
        }
        types.push(TypeDef { name: name.to_string(), is_interface, implements, fields });
    }
    // entry points: one per type under the type's own name (as schemas usually do), plus a few extra
    let mut root = vec![];
    for t in &types {
        root.push(Entry {
            name: t.name.clone(),
            ty: format!("[{}!]!", t.name),
            params: gen_params(rng, pools.params, pools.param_types, pools.param_twins),
        });
    }
    let extra = rng.below(3);
    let mut epool: Vec<&str> = pools.fields.to_vec();
    for k in (1..epool.len()).rev() {
        epool.swap(k, rng.below(k + 1));
    }
    for f in epool.into_iter().filter(|f| !types.iter().any(|t| t.name == *f)).take(extra) {
        let target = names[rng.below(n)];
        root.push(Entry {
            name: f.to_string(),
            ty: wrap_edge_type(rng, target),
            params: gen_params(rng, pools.params, pools.param_types, pools.param_twins),
        });
    }
    SchemaDesc { root, types }
}

/// One name in each position a generated identifier is derived from.
fn position_probes(k: &str) -> Vec<(SchemaDesc, &'static str)> {
    let a = |fields: Vec<Field>| TypeDef { name: "A".into(), is_interface: false, implements: vec![], fields };
    let x = || Field::Prop { name: "x".into(), ty: "Int".into() };
    let root_a = || Entry { name: "A".into(), ty: "[A!]!".into(), params: vec![] };
    let p = |n: &str| Param { name: n.to_string(), ty: "Int".into(), default: None };
    let mut cap = k.to_string();
    if let Some(f) = cap.get(0..1) {
        cap = format!("{}{}", f.to_ascii_uppercase(), &k[1..]);
    }
    let mut out = vec![
        (
            SchemaDesc {
                root: vec![root_a()],
                types: vec![a(vec![x(), Field::Edge { name: "e".into(), ty: "[A!]".into(), params: vec![p(k)] }])],
            },
            "pos:edge-param",
        ),
        (
            SchemaDesc {
                root: vec![root_a()],
                types: vec![a(vec![x(), Field::Edge { name: k.into(), ty: "[A!]".into(), params: vec![] }])],
            },
            "pos:edge",
        ),
        (
            SchemaDesc {
                root: vec![root_a(), Entry { name: k.into(), ty: "A".into(), params: vec![p(k)] }],
                types: vec![a(vec![x()])],
            },
            "pos:entry+first-param",
        ),
        (
            SchemaDesc {
                root: vec![Entry { name: "A".into(), ty: "[A!]!".into(), params: vec![p("a"), p(k)] }],
                types: vec![a(vec![x()])],
            },
            "pos:entry-second-param",
        ),
        (
            SchemaDesc {
                root: vec![root_a()],
                types: vec![a(vec![x(), Field::Prop { name: k.into(), ty: "String".into() }])],
            },
            "pos:property",
        ),
    ];
    if k != "A" && cap != "A" {
        out.push((
            SchemaDesc {
                root: vec![root_a()],
                types: vec![
                    TypeDef {
                        name: cap.clone(),
                        is_interface: false,
                        implements: vec![],
                        fields: vec![x(), Field::Edge { name: "e".into(), ty: "[A!]".into(), params: vec![] }],
                    },
                    a(vec![x()]),
                ],
            },
            "pos:type-with-edges",
        ));
        out.push((
            SchemaDesc {
                root: vec![root_a()],
                types: vec![
                    TypeDef { name: k.into(), is_interface: false, implements: vec![], fields: vec![x()] },
                    a(vec![x()]),
                ],
            },
            "pos:type-without-edges",
        ));
    }
    out
}

// ---------------------------------------------------------------------------------------------
// the property
// ---------------------------------------------------------------------------------------------

fn hex_name(s: &str) -> Sexp {
    Sexp::atom(hex(s.as_bytes()))
}

impl Prop for C26 {
    fn id(&self) -> &'static str {
        "C26"
    }
    fn rule(&self) -> &'static str {
        "three streams. (1) mangle: every name of a corpus (camelCase, snake_case, SCREAMING, leading/trailing/double underscores, digits, single letters, every Rust keyword incl. reserved and weak ones with capitalised/suffixed/prefixed relatives, names differing only in case or underscores, names of the templates' own bindings and imports, seeded random names over [abcXYZ_019]) through to_lower_snake_case, upper_case_variant_name, escaped_rust_name; non-trivial: the function changes the name. (2) stub-check: outcome of generate_rust_stub (ok / conflict refusal / panic) on (a) every keyword-ish name placed in every position a generated identifier is derived from (edge parameter, edge, entry point + first parameter, second entry parameter, property, type with edges, type without edges) and (b) seeded valid schemas over a safe pool, a pool of colliding/keyword type names, and a pool with colliding/keyword names everywhere incl. ID-typed parameters; non-trivial: the outcome is not ok. (2c) stub-params: the text of every emitted parameter binding (`let <escaped ident>: <Rust type> = parameters.get(name).expect(..).<conversion>`, layout removed) for the same schemas plus two special ones - the full parameter type matrix (Int/String/Float/Boolean x {T, T!, [T], [T]!, [T!], [T!]!} + a nested list) and every twin pair of parameter names (camelCase/snake_case, case twins, keyword/Capitalised, leading/trailing/double underscores), each on an edge of a vertex type AND on an entry point; tags nt:param-list-nullable-elem (a list parameter with nullable elements on a vertex-type edge), nt:param-name-twins (two parameters of one edge equal up to case/underscores). (3) stub-compile: the two special schemas and the generated stub is built with `cargo test --no-run --offline` in a scratch crate against /repo/trustfall; seeded schemas from the safe pool plus (corpus) one witness per known defect; every case is non-trivial."
    }
    fn generate(&self, tier: Tier, rng: &mut Rng) -> Vec<Case> {
        let mut out = vec![];
        // (1) mangling
        for n in name_corpus(tier, rng) {
            if !is_graphql_name(&n) && n != "'static" {
                continue;
            }
            for f in ["snake", "variant", "escape"] {
                let changed = match f {
                    "snake" => ref_snake(&n) != n,
                    "variant" => !n.starts_with(|c: char| !c.is_ascii_lowercase()),
                    _ => ESCAPED.contains(&n.as_str()) || n == "'static",
                };
                let tag = format!("mangle:{f}");
                let mut tags = vec![tag.as_str()];
                if changed {
                    tags.push("nt:name-changed");
                }
                out.push(Case::new(Sexp::call("mangle", vec![Sexp::atom(f), hex_name(&n)]), &tags));
            }
        }
        // (2a) every keyword-ish name in every position
        let mut probes: Vec<String> = KEYWORDS.iter().map(|s| s.to_string()).collect();
        probes.extend(["_", "contexts", "resolve_info", "parameters", "r", "Type_", "dyn_"].map(String::from));
        for k in &probes {
            for (desc, pos) in position_probes(k) {
                out.push(Case::new(Sexp::call("stub-check", vec![schema_to_sexp(&desc)]), &["stub-check", "sweep", pos]));
            }
        }
        // (2b) generator outcome on seeded schemas
        let safe = Pools { types: SAFE_TYPE_NAMES, fields: SAFE_FIELD_NAMES, params: SAFE_PARAM_NAMES, param_types: PARAM_TYPES, param_twins: PARAM_TWINS };
        let risky_types = Pools { types: RISKY_TYPE_NAMES, fields: SAFE_FIELD_NAMES, params: SAFE_PARAM_NAMES, param_types: PARAM_TYPES, param_twins: PARAM_TWINS };
        let risky_all = Pools { types: RISKY_TYPE_NAMES, fields: RISKY_FIELD_NAMES, params: RISKY_PARAM_NAMES, param_types: RISKY_PARAM_TYPES, param_twins: RISKY_PARAM_TWINS };
        let n_check = if tier == Tier::Quick { 150 } else { 3000 };
        for i in 0..n_check {
            let (pools, pool) = match i % 3 {
                0 => (&safe, "pool:safe"),
                1 => (&risky_types, "pool:risky-types"),
                _ => (&risky_all, "pool:risky-all"),
            };
            let desc = gen_schema(rng, pools);
            let sx = schema_to_sexp(&desc);
            let mut tags = vec!["stub-check", pool];
            tags.extend(schema_tags(&desc));
            out.push(Case::new(Sexp::call("stub-check", vec![sx.clone()]), &tags));
            // (2c) the emitted parameter bindings (identifier, Rust type, conversion expression)
            tags[0] = "stub-params";
            if desc.root.iter().any(|e| !e.params.is_empty()) || desc.types.iter().any(|t| t.edges().any(|(_, p)| !p.is_empty())) {
                tags.push("nt:has-parameters");
            }
            out.push(Case::new(Sexp::call("stub-params", vec![sx]), &tags));
        }
        // the full parameter type matrix and every twin pair, on a vertex edge and on an entry point:
        // emitted text and real compilation
        for (desc, what) in [(matrix_schema(), "special:type-matrix"), (twins_schema(), "special:name-twins")] {
            let sx = schema_to_sexp(&desc);
            let mut tags = vec!["stub-params", what, "nt:has-parameters"];
            tags.extend(schema_tags(&desc));
            out.push(Case::new(Sexp::call("stub-params", vec![sx.clone()]), &tags));
            tags[0] = "stub-compile";
            tags.push("nt:compile-oracle");
            out.push(Case::new(Sexp::call("stub-compile", vec![sx]), &tags));
        }
        // (3) compile oracle on seeded schemas
        let n_compile = if tier == Tier::Quick { 2 } else { 40 };
        for _ in 0..n_compile {
            let desc = gen_schema(rng, &safe);
            let mut tags = vec!["stub-compile", "pool:safe", "nt:compile-oracle"];
            tags.extend(schema_tags(&desc));
            out.push(Case::new(Sexp::call("stub-compile", vec![schema_to_sexp(&desc)]), &tags));
        }
        out
    }
    fn eval(&self, request: &Sexp) -> Option<String> {
        let (h, args) = request.as_call()?;
        match (h, args) {
            ("mangle", [f, name]) => {
                let n = String::from_utf8(unhex(name.as_atom()?)?).ok()?;
                let r = match f.as_atom()? {
                    "snake" => guarded(|| hooks::to_lower_snake_case(&n)),
                    "variant" => guarded(|| hooks::upper_case_variant_name(&n)),
                    "escape" => guarded(|| hooks::escaped_rust_name(n.clone())),
                    _ => return None,
                };
                Some(match r {
                    Ok(s) => hex(s.as_bytes()),
                    Err(_) => "panic".to_string(),
                })
            }
            ("stub-check", [s]) => {
                let desc = sexp_to_schema(s)?;
                let sdl = render_sdl(&desc);
                let dir = scratch_root().join(format!("check-{:016x}", fnv(&sdl)));
                let _ = std::fs::remove_dir_all(&dir);
                std::fs::create_dir_all(&dir).ok()?;
                let outcome = run_generator(&sdl, &dir);
                let _ = std::fs::remove_dir_all(&dir);
                Some(outcome)
            }
            ("stub-compile", [s]) => {
                let desc = sexp_to_schema(s)?;
                Some(compile_stub(&desc))
            }
            ("stub-params", [s]) => {
                let desc = sexp_to_schema(s)?;
                let sdl = render_sdl(&desc);
                let dir = scratch_root().join(format!("params-{:016x}", fnv(&sdl)));
                let _ = std::fs::remove_dir_all(&dir);
                std::fs::create_dir_all(&dir).ok()?;
                let outcome = run_generator(&sdl, &dir);
                let answer = if outcome == "ok" {
                    emitted_parameter_statements(&dir.join("src").join("adapter"))
                } else {
                    format!("not-generated:{outcome}")
                };
                let _ = std::fs::remove_dir_all(&dir);
                Some(answer)
            }
            _ => None,
        }
    }
    fn post_tags(&self, e: &Evaluated) -> Vec<String> {
        let Some((h, args)) = e.request.as_call() else { return vec![] };
        if h == "mangle" {
            return vec![];
        }
        if h == "stub-params" {
            let n = if e.answer == "-" || e.answer.starts_with("not-generated") { 0 } else { e.answer.split(";;").count() };
            return vec![format!("bindings:{}", n.min(9))];
        }
        let class = if e.answer.starts_with("(conflict vertex") {
            "conflict-vertex".to_string()
        } else if e.answer.starts_with("(conflict field") {
            "conflict-field".to_string()
        } else {
            e.answer.chars().take(60).collect()
        };
        let mut tags = vec![format!("outcome:{class}")];
        if h == "stub-check" && e.answer != "ok" {
            tags.push("nt:generator-refuses-or-panics".into());
        }
        if e.answer == "compile-error" {
            if let Some(d) = args.first().and_then(sexp_to_schema) {
                tags.push(format!("rustc:{}", detail_for(&d).chars().take(40).collect::<String>()));
            }
        }
        tags
    }
    fn oracle(&self, evaluated: &[Evaluated]) -> Vec<OracleFailure> {
        let mut fails = vec![];
        for e in evaluated {
            let Some((h, args)) = e.request.as_call() else { continue };
            let mut fail = |key: String, detail: String| {
                fails.push(OracleFailure { key, detail, requests: vec![e.line.clone()] });
            };
            match h {
                // the generated edge resolvers call `as_<to_lower_snake_case(variant)>()`, a method the
                // derive macro names by its own rule: the two must agree (they can only on names
                // without two consecutive capitals); the output must be a lower-case identifier
                "mangle" => {
                    let (Some(f), Some(n)) = (args.first().and_then(Sexp::as_atom), args.get(1).and_then(Sexp::as_atom)) else { continue };
                    let (Some(n), Some(out)) = (unhex(n).and_then(|b| String::from_utf8(b).ok()), unhex(&e.answer).and_then(|b| String::from_utf8(b).ok())) else {
                        if e.answer == "panic" && is_graphql_name(&String::from_utf8(unhex(n).unwrap_or_default()).unwrap_or_default()) {
                            fail(format!("mangle-panics:{f}"), e.line.clone());
                        }
                        continue;
                    };
                    if !is_graphql_name(&n) {
                        continue;
                    }
                    match f {
                        "snake" => {
                            if out.chars().any(|c| c.is_ascii_uppercase()) || !is_graphql_name(&out) {
                                fail("snake-not-a-lowercase-identifier".into(), format!("{n} -> {out}"));
                            } else if !consecutive_capitals(&n) && out != derive_snake(&n) {
                                fail("snake-disagrees-with-derive-naming".into(), format!("{n} -> {out}, derive macro: {}", derive_snake(&n)));
                            }
                        }
                        "variant" => {
                            if !is_graphql_name(&out) || out.starts_with(|c: char| c.is_ascii_lowercase()) {
                                fail("variant-not-capitalised".into(), format!("{n} -> {out}"));
                            }
                        }
                        _ => {
                            if ESCAPED.contains(&out.as_str()) {
                                fail("escape-leaves-documented-keyword".into(), format!("{n} -> {out}"));
                            }
                        }
                    }
                }
                // every generated schema is valid and uses built-in scalars only: the generator must
                // produce a stub, or refuse exactly the schemas whose names collide
                "stub-check" | "stub-compile" => {
                    let Some(desc) = args.first().and_then(sexp_to_schema) else { continue };
                    let gen_answer = e.answer.strip_prefix("not-generated:").unwrap_or(&e.answer);
                    if gen_answer.starts_with("panic") {
                        fail(format!("generator-panic:{}", panic_cause(&desc, gen_answer)), e.panic_info.clone().unwrap_or_default());
                    } else if gen_answer.starts_with("refused:") || e.answer == "bad-op" {
                        fail("generated-schema-rejected".into(), e.answer.clone());
                    } else if gen_answer.starts_with("(conflict") {
                        if !expected_conflict(&desc) {
                            fail("spurious-conflict".into(), e.answer.clone());
                        }
                    } else if expected_conflict(&desc) {
                        fail("collision-not-refused".into(), format!("names collide after mangling but the generator answered {}", e.answer));
                    } else if e.answer == "compile-error" {
                        fail(format!("stub-does-not-compile:{}", compile_cause(&desc)), detail_for(&desc));
                    }
                }
                _ => {}
            }
        }
        cleanup_scratch();
        fails
    }
    fn extra_stats(&self, evaluated: &[Evaluated]) -> serde_json::Value {
        let count = |p: &str| evaluated.iter().filter(|e| e.line.starts_with(p)).count();
        serde_json::json!({
            "mangle_requests": count("(mangle"),
            "stub_check_schemas": count("(stub-check"),
            "stub_compile_schemas": count("(stub-compile"),
            "stub_params_schemas": count("(stub-params"),
            "compiled_with_list_param_nullable_elements_on_vertex_edge": evaluated.iter().filter(|e| e.line.starts_with("(stub-compile") && e.tags.iter().any(|t| t == "nt:param-list-nullable-elem")).count(),
            "compiled_with_parameter_name_twins": evaluated.iter().filter(|e| e.line.starts_with("(stub-compile") && e.tags.iter().any(|t| t == "nt:param-name-twins")).count(),
            "stubs_compiled_ok": evaluated.iter().filter(|e| e.answer == "compiles").count(),
            "stubs_with_compile_error": evaluated.iter().filter(|e| e.answer == "compile-error").count(),
        })
    }
}

fn main() {
    main_for(vec![Box::new(C26)]);
}
