//! Group `toir`: C11 — compiled queries are structurally well-formed.
//!
//! Requests (all self-contained; the GraphQL text is re-rendered from the tree):
//!   (compile  <schema> <tree>)        impl: the real frontend's IR in the `(ir …)` syntax | (err frontend …)
//!                                     model: `toIR tree` rendered the same way  (translation validation of
//!                                     the Lean frontend model, query by query)
//!   (accepts  <schema> <tree>)        impl: 1/0 = the real frontend accepts the query; model: `toIR` is `ok`
//!   (spec-wf  <schema> <tree> <ir>)   impl: the constant 1 (after checking that <ir> IS the real IR of the
//!                                     tree, else `(ir-mismatch)`); model: the decidable `WF` on <ir>.  A
//!                                     mismatch is a violation of the property (request names starting with
//!                                     `spec-` are classified as such by ./check).
//!   (indexed  <schema> <tree> <ir>)   impl: `IndexedQuery::try_from(ir).is_ok()`; model: `indexedOk`
//!   (outs     <schema> <tree> <ir>)   impl: `IndexedQuery.outputs`; model: `outputsOf` (`get_output_type`)
#[path = "../engine/mod.rs"]
#[allow(dead_code)]
mod engine;

use std::cell::RefCell;
use std::collections::{BTreeMap, BTreeSet};

use trustfall_core::frontend;
use trustfall_core::ir::{IRQuery, IndexedQuery};

use crate::engine::ir_sexp::{ir_to_sexp, outputs_to_sexp};
use crate::engine::query_gen::{Arg, Dir, FDir, Field, Kind, Node, Op, Query, QueryKnobs, gen_query};
use crate::engine::run::{frontend_error_names, load_schema};
use crate::engine::schema_gen::{SchemaKnobs, gen_schema};
use tfharness::framework::*;
use tfharness::rng::Rng;
use tfharness::sexp::Sexp;
use tfharness::values::sexp_to_value;

// ------------------------------------------------------------------------------------------------
// the query tree back from its protocol text

const ALL_OPS: [Op; 20] = [
    Op::IsNull,
    Op::IsNotNull,
    Op::Eq,
    Op::Neq,
    Op::Lt,
    Op::Le,
    Op::Gt,
    Op::Ge,
    Op::Contains,
    Op::NotContains,
    Op::OneOf,
    Op::NotOneOf,
    Op::HasPrefix,
    Op::NotHasPrefix,
    Op::HasSuffix,
    Op::NotHasSuffix,
    Op::HasSubstring,
    Op::NotHasSubstring,
    Op::Regex,
    Op::NotRegex,
];

fn parse_op(s: &Sexp) -> Option<Op> {
    let name = s.as_atom()?;
    ALL_OPS.iter().copied().find(|o| o.proto() == name)
}

fn parse_arg(s: &Sexp) -> Option<Arg> {
    if s.as_atom() == Some("-") {
        return Some(Arg::None);
    }
    match s.as_call()? {
        ("var", [v]) => Some(Arg::Var(v.as_atom()?.to_string())),
        ("tag", [t]) => Some(Arg::Tag(t.as_atom()?.to_string())),
        _ => None,
    }
}

fn parse_params(s: &Sexp) -> Option<Vec<(String, trustfall_core::ir::FieldValue)>> {
    let ("params", ps) = s.as_call()? else { return None };
    ps.iter()
        .map(|p| {
            let [n, v] = p.as_list()? else { return None };
            Some((n.as_atom()?.to_string(), sexp_to_value(v)?))
        })
        .collect()
}

fn parse_kind(s: &Sexp) -> Option<Kind> {
    match s.as_atom() {
        Some("plain") => return Some(Kind::Plain),
        Some("optional") => return Some(Kind::Optional),
        Some(_) => return None,
        None => {}
    }
    match s.as_call()? {
        ("recurse", [d]) => Some(Kind::Recurse(d.as_atom()?.parse().ok()?)),
        ("fold", fds) => Some(Kind::Fold(
            fds.iter()
                .map(|d| match d.as_call()? {
                    ("count-output", [o]) => Some(FDir::CountOutput(o.as_atom()?.to_string())),
                    ("count-tag", [t]) => Some(FDir::CountTag(t.as_atom()?.to_string())),
                    ("count-filter", [op, a]) => Some(FDir::CountFilter(parse_op(op)?, parse_arg(a)?)),
                    _ => None,
                })
                .collect::<Option<Vec<_>>>()?,
        )),
        _ => None,
    }
}

fn parse_node(s: &Sexp) -> Option<Node> {
    let ("node", items) = s.as_call()? else { return None };
    let (c, fields) = items.split_first()?;
    let coerce_to = match c.as_atom()? {
        "-" => None,
        t => Some(t.to_string()),
    };
    let fields = fields
        .iter()
        .map(|f| match f.as_call()? {
            ("prop", items) => {
                let (n, dirs) = items.split_first()?;
                let dirs = dirs
                    .iter()
                    .map(|d| match d.as_call()? {
                        ("filter", [op, a]) => Some(Dir::Filter(parse_op(op)?, parse_arg(a)?)),
                        ("tag", [t]) => Some(Dir::Tag(t.as_atom()?.to_string())),
                        ("output", [o]) => Some(Dir::Output(o.as_atom()?.to_string())),
                        _ => None,
                    })
                    .collect::<Option<Vec<_>>>()?;
                Some(Field::Prop { name: n.as_atom()?.to_string(), dirs })
            }
            ("edge", [n, ps, k, child]) => Some(Field::Edge {
                name: n.as_atom()?.to_string(),
                params: parse_params(ps)?,
                kind: parse_kind(k)?,
                node: parse_node(child)?,
            }),
            _ => None,
        })
        .collect::<Option<Vec<_>>>()?;
    Some(Node { coerce_to, fields })
}

fn parse_tree(s: &Sexp) -> Option<Query> {
    let ("q", [root, ps, node]) = s.as_call()? else { return None };
    Some(Query { root: root.as_atom()?.to_string(), root_params: parse_params(ps)?, node: parse_node(node)? })
}

// ------------------------------------------------------------------------------------------------
// implementation side

/// `frontend::parse_to_ir` on the text of the tree: the raw `IRQuery` (not yet indexed).
fn real_ir(schema: &Sexp, tree: &Sexp) -> Option<Result<IRQuery, Vec<String>>> {
    let schema = load_schema(schema)?;
    let q = parse_tree(tree)?;
    if q.to_sexp() != *tree {
        return None;
    }
    Some(frontend::parse_to_ir(&schema.real, q.to_graphql()).map_err(|e| frontend_error_names(&e)))
}

fn err_answer(names: &[String]) -> String {
    format!("(err frontend {})", names.join(" "))
}

/// The real IR of `(cmd <schema> <tree> <ir>)`, provided `<ir>` is its rendering.
fn checked_ir(args: &[Sexp]) -> Option<Result<IRQuery, String>> {
    let [schema, tree, ir] = args else { return None };
    Some(match real_ir(schema, tree)? {
        Err(names) => Err(err_answer(&names)),
        Ok(real) => {
            if ir_to_sexp(&real) == *ir {
                Ok(real)
            } else {
                Err("(ir-mismatch)".to_string())
            }
        }
    })
}

fn eval_request(request: &Sexp) -> Option<String> {
    let (h, args) = request.as_call()?;
    match h {
        "compile" => {
            let [schema, tree] = args else { return None };
            Some(match real_ir(schema, tree)? {
                Ok(ir) => ir_to_sexp(&ir).to_string(),
                Err(names) => err_answer(&names),
            })
        }
        "accepts" => {
            let [schema, tree] = args else { return None };
            Some(if real_ir(schema, tree)?.is_ok() { "1" } else { "0" }.to_string())
        }
        "spec-wf" => Some(match checked_ir(args)? {
            Ok(_) => "1".to_string(),
            Err(a) => a,
        }),
        "indexed" => Some(match checked_ir(args)? {
            Ok(ir) => if IndexedQuery::try_from(ir).is_ok() { "1" } else { "0" }.to_string(),
            Err(a) => a,
        }),
        "outs" => Some(match checked_ir(args)? {
            Ok(ir) => match IndexedQuery::try_from(ir) {
                Ok(iq) => outputs_to_sexp(&iq).to_string(),
                Err(_) => "(not-indexable)".to_string(),
            },
            Err(a) => a,
        }),
        _ => None,
    }
}

// ------------------------------------------------------------------------------------------------

#[derive(Default)]
struct Stats {
    schemas: usize,
    generated: usize,
    accepted: usize,
    rejected: BTreeMap<String, usize>,
    features: BTreeMap<String, usize>,
}

#[derive(Default)]
pub struct C11 {
    stats: RefCell<Stats>,
}

const NT_FEATURES: [&str; 15] = [
    "fold",
    "nested-fold",
    "fold-in-opt",
    "opt",
    "recurse",
    "recurse-implicit-coercion",
    "coerce",
    "tag-earlier",
    "tag-import",
    "tag-import-nested",
    "count-tag",
    "count-tag-import",
    "dup-import",
    "var-reused",
    "var-reused-count-and-prop",
];

impl Prop for C11 {
    fn id(&self) -> &'static str {
        "C11"
    }
    fn rule(&self) -> &'static str {
        "per seed: generated schemas (the engine group's schema generator: interfaces incl. diamonds, objects, inherited property pool, edges to any/own/ancestor types with parameters, list and single-valued roots) x 30 type-directed query trees each (the engine group's query generator, alternating its default and its wide settings: depth <= 4, plain/optional/fold/recurse edges, coercions, every filter operator with variable and tag operands incl. tags imported into nested folds, repeated imports of one tag, fold-count tags/outputs/filters, repeated property selections, explicit and defaulted edge parameters, deliberately bad @recurse). For every tree the real frontend ACCEPTS: (compile schema tree) [real IR vs toIR tree, text-equal], (spec-wf schema tree ir) [the decidable WF evaluated by the Lean driver on the real IR; implementation answer is the constant 1], (indexed ...) [IndexedQuery::try_from vs indexedOk], (outs ...) [IndexedQuery.outputs vs outputsOf]. For every tree it REJECTS: (accepts schema tree) [model must reject too]. A case is non-trivial (nt:<feature>) when the tree has a fold, nested fold, optional, recursion, coercion, a tag used from another vertex, an imported tag (also nested / duplicated / fold-count), or a variable used twice. Oracle on the implementation: panics, and IndexedQuery::try_from rejecting a freshly compiled query (the unwrap in frontend::parse)."
    }
    fn generate(&self, tier: Tier, rng: &mut Rng) -> Vec<Case> {
        let n_schemas = if tier == Tier::Quick { 50 } else { 800 };
        let n_queries = 30;
        let mut out = vec![];
        let mut stats = Stats::default();
        let default_knobs = QueryKnobs::default();
        let wide_knobs = QueryKnobs::wide();
        // every third tree: fold-count filters are frequent and share their variables with property
        // filters (added after seeded change C12-5: the narrowing of a variable's type by a fold-count use)
        let cross_knobs = QueryKnobs { p_cross_hint_reuse: (2, 3), p_count_filter: (2, 3), p_filter: (3, 4), ..QueryKnobs::wide() };
        for _ in 0..n_schemas {
            let schema = match guarded(|| gen_schema(rng, &SchemaKnobs::default())) {
                Ok(s) => s,
                Err(info) => {
                    eprintln!("schema generator panicked: {info}");
                    std::process::exit(3);
                }
            };
            stats.schemas += 1;
            let schema_sexp = schema.to_sexp();
            let real = schema.to_real();
            for k in 0..n_queries {
                let knobs = if k % 3 == 2 { &cross_knobs } else if k % 2 == 0 { &default_knobs } else { &wide_knobs };
                let gq = gen_query(rng, &schema, knobs);
                stats.generated += 1;
                let tree = gq.query.to_sexp();
                let mut tags: Vec<String> = gq.features.iter().cloned().collect();
                let compiled = guarded(|| frontend::parse_to_ir(&real, &gq.text));
                match compiled {
                    Ok(Ok(ir)) => {
                        stats.accepted += 1;
                        for f in &gq.features {
                            *stats.features.entry(f.clone()).or_default() += 1;
                        }
                        for f in NT_FEATURES {
                            if gq.features.contains(f) {
                                tags.push(format!("nt:{f}"));
                            }
                        }
                        let ir = ir_to_sexp(&ir);
                        out.push(Case { request: Sexp::call("compile", vec![schema_sexp.clone(), tree.clone()]), tags: with(&tags, "req:compile") });
                        for cmd in ["spec-wf", "indexed", "outs"] {
                            out.push(Case {
                                request: Sexp::call(cmd, vec![schema_sexp.clone(), tree.clone(), ir.clone()]),
                                tags: with(&tags, &format!("req:{cmd}")),
                            });
                        }
                    }
                    Ok(Err(e)) => {
                        *stats.rejected.entry(frontend_error_names(&e).join("+")).or_default() += 1;
                        tags.push("nt:rejected".into());
                        out.push(Case { request: Sexp::call("accepts", vec![schema_sexp.clone(), tree]), tags: with(&tags, "req:accepts") });
                    }
                    Err(_) => {
                        // a frontend panic is C10's business; the request still records it
                        *stats.rejected.entry("PANIC".into()).or_default() += 1;
                        out.push(Case { request: Sexp::call("accepts", vec![schema_sexp.clone(), tree]), tags: with(&tags, "req:accepts") });
                    }
                }
            }
        }
        *self.stats.borrow_mut() = stats;
        out
    }
    fn eval(&self, request: &Sexp) -> Option<String> {
        eval_request(request)
    }
    fn oracle(&self, evaluated: &[Evaluated]) -> Vec<OracleFailure> {
        let mut fails = vec![];
        let mut seen = BTreeSet::new();
        for e in evaluated {
            if let Some(info) = &e.panic_info {
                let key = panic_key(info);
                if seen.insert((key.clone(), e.line.clone())) {
                    fails.push(OracleFailure { key, detail: info.clone(), requests: vec![e.line.clone()] });
                }
                continue;
            }
            let Some((h, _)) = e.request.as_call() else { continue };
            if h == "indexed" && e.answer == "0" {
                fails.push(OracleFailure {
                    key: "indexed-query-rejects-compiled-ir".into(),
                    detail: "IndexedQuery::try_from fails on the IR the frontend just built (frontend::parse unwraps it)".into(),
                    requests: vec![e.line.clone()],
                });
            }
        }
        fails
    }
    fn post_tags(&self, e: &Evaluated) -> Vec<String> {
        if e.answer.starts_with("(err") {
            vec!["answer:err".into()]
        } else if e.answer == "(ir-mismatch)" {
            vec!["answer:ir-mismatch".into()]
        } else {
            vec![]
        }
    }
    fn extra_stats(&self, _evaluated: &[Evaluated]) -> serde_json::Value {
        let s = self.stats.borrow();
        serde_json::json!({
            "schemas": s.schemas,
            "generated_queries": s.generated,
            "accepted_queries": s.accepted,
            "frontend_rejected": s.rejected,
            "features_in_accepted_queries": s.features,
        })
    }
}

fn with(tags: &[String], extra: &str) -> Vec<String> {
    let mut t = tags.to_vec();
    t.push(extra.to_string());
    t
}

fn main() {
    main_for(vec![Box::new(C11::default())]);
}
