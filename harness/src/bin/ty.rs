//! Group `ty`: C17 (type lattice laws) and C16 (serialisation round-trips).
//!
//! A type travels as `(T <hex base> n0 … nk)`: nullability flags (1 = nullable) from the outermost
//! level to the base; both sides build it with `new_named_type` + `new_list_type`, so a request with
//! more than 30 list levels panics during construction on both sides.
use std::collections::{BTreeMap, BTreeSet};
use std::sync::Arc;

use trustfall_core::ir::verif_types;
use trustfall_core::ir::{FieldValue, TransparentValue, Type};

use tfharness::framework::*;
use tfharness::rng::Rng;
use tfharness::sexp::{Sexp, hex, unhex};
use tfharness::values::*;

// ------------------------------------------------------------------------------------------------
// protocol helpers
// ------------------------------------------------------------------------------------------------

/// Structural description of a type: base name + nullability flags, outermost first.
#[derive(Clone, Debug, PartialEq, Eq, PartialOrd, Ord)]
struct TyDesc {
    base: String,
    flags: Vec<bool>,
}

impl TyDesc {
    fn depth(&self) -> usize {
        self.flags.len() - 1
    }
    fn to_sexp(&self) -> Sexp {
        let mut v = vec![Sexp::atom("T"), Sexp::atom(hex(self.base.as_bytes()))];
        v.extend(self.flags.iter().map(|n| Sexp::atom(if *n { "1" } else { "0" })));
        Sexp::List(v)
    }
    fn from_sexp(s: &Sexp) -> Option<TyDesc> {
        let (h, args) = s.as_call()?;
        if h != "T" || args.len() < 2 {
            return None;
        }
        let base = String::from_utf8(unhex(args[0].as_atom()?)?).ok()?;
        let mut flags = vec![];
        for a in &args[1..] {
            flags.push(match a.as_atom()? {
                "1" => true,
                "0" => false,
                _ => return None,
            });
        }
        Some(TyDesc { base, flags })
    }
    /// Build the real `Type` through the public constructors (panics beyond 30 list levels).
    fn build(&self) -> Type {
        let mut t = Type::new_named_type(&self.base, *self.flags.last().unwrap());
        for n in self.flags[..self.flags.len() - 1].iter().rev() {
            t = Type::new_list_type(t, *n);
        }
        t
    }
    fn of(t: &Type) -> TyDesc {
        let mut flags = vec![t.nullable()];
        let mut cur = t.clone();
        while let Some(inner) = cur.as_list() {
            flags.push(inner.nullable());
            cur = inner;
        }
        TyDesc { base: t.base_type().to_string(), flags }
    }
    /// The GraphQL text, computed by the harness (not by the implementation).
    fn text(&self) -> String {
        fn go(base: &str, flags: &[bool]) -> String {
            let bang = if flags[0] { "" } else { "!" };
            if flags.len() == 1 { format!("{base}{bang}") } else { format!("[{}]{bang}", go(base, &flags[1..])) }
        }
        go(&self.base, &self.flags)
    }
}

fn sexp_to_ty(s: &Sexp) -> Option<Type> {
    Some(TyDesc::from_sexp(s)?.build())
}

fn render_ty(t: &Type) -> String {
    TyDesc::of(t).to_sexp().to_string()
}

fn render_opt_ty(t: &Option<Type>) -> String {
    match t {
        None => "none".to_string(),
        Some(t) => render_ty(t),
    }
}

fn bit(b: bool) -> String {
    if b { "1" } else { "0" }.to_string()
}

fn hex_atom(s: &str) -> Sexp {
    Sexp::atom(hex(s.as_bytes()))
}

// ------------------------------------------------------------------------------------------------
// generators
// ------------------------------------------------------------------------------------------------

const BASES: [&str; 5] = ["Int", "String", "Float", "Boolean", "Vertex"];

/// Every nullability combination for 0..=max_depth list levels.
fn all_shapes(max_depth: usize) -> Vec<Vec<bool>> {
    let mut out = vec![];
    for d in 0..=max_depth {
        for bits in 0..(1u32 << (d + 1)) {
            out.push((0..=d).map(|i| bits >> i & 1 == 1).collect());
        }
    }
    out
}

fn all_types(max_depth: usize) -> Vec<TyDesc> {
    let mut out = vec![];
    for b in BASES {
        for flags in all_shapes(max_depth) {
            out.push(TyDesc { base: b.to_string(), flags });
        }
    }
    out
}

/// Sparse stream near the maximum list depth: depths 28, 29, 30.
fn deep_types(rng: &mut Rng, per_depth: usize) -> Vec<TyDesc> {
    let mut out = vec![];
    for base in ["Int", "String"] {
        for d in [28usize, 29, 30] {
            out.push(TyDesc { base: base.to_string(), flags: vec![true; d + 1] });
            out.push(TyDesc { base: base.to_string(), flags: vec![false; d + 1] });
            for _ in 0..per_depth {
                out.push(TyDesc { base: base.to_string(), flags: (0..=d).map(|_| rng.chance(1, 2)).collect() });
            }
        }
    }
    out
}

/// A value that conforms to `t` (nulls only where allowed).
fn conforming(rng: &mut Rng, t: &TyDesc, level: usize) -> FieldValue {
    if t.flags[level] && rng.chance(1, 4) {
        return FieldValue::Null;
    }
    if level + 1 < t.flags.len() {
        // keep deep types linear in size: one element per level below the third
        let n = if level >= 3 { 1 } else { rng.below(4) };
        FieldValue::List((0..n).map(|_| conforming(rng, t, level + 1)).collect::<Vec<_>>().into())
    } else {
        match t.base.as_str() {
            "Int" => random_int(rng),
            "Float" => rng.pick(&boundary_floats()).clone(),
            "String" => rng.pick(&boundary_strings()).clone(),
            "Boolean" => FieldValue::Boolean(rng.chance(1, 2)),
            _ => random_scalar(rng),
        }
    }
}

/// Replace one random position of `v` by something of another kind (null, other scalar, enum, list).
fn mutate(rng: &mut Rng, v: &FieldValue) -> FieldValue {
    if let FieldValue::List(items) = v {
        if !items.is_empty() && rng.chance(3, 4) {
            let i = rng.below(items.len());
            let mut items: Vec<FieldValue> = items.iter().cloned().collect();
            items[i] = mutate(rng, &items[i]);
            return FieldValue::List(items.into());
        }
    }
    match rng.below(5) {
        0 => FieldValue::Null,
        1 => FieldValue::Enum(Arc::from("a")),
        2 => FieldValue::List(vec![v.clone()].into()),
        3 => FieldValue::List(vec![].into()),
        _ => random_scalar(rng),
    }
}

fn l(v: Vec<FieldValue>) -> FieldValue {
    FieldValue::List(v.into())
}

fn fixed_values() -> Vec<FieldValue> {
    let e = || FieldValue::Enum(Arc::from("a"));
    let i = |x: i64| FieldValue::Int64(x);
    vec![
        FieldValue::Null,
        FieldValue::Boolean(false),
        FieldValue::Boolean(true),
        i(-1),
        i(i64::MIN),
        FieldValue::Uint64(u64::MAX),
        FieldValue::Uint64(0),
        FieldValue::Float64(0.5),
        FieldValue::Float64(-0.0),
        FieldValue::from("a"),
        FieldValue::from(""),
        e(),
        l(vec![]),
        l(vec![FieldValue::Null]),
        l(vec![i(1), FieldValue::Uint64(2)]),
        l(vec![i(1), FieldValue::Null]),
        l(vec![FieldValue::from("a"), FieldValue::from("b")]),
        l(vec![FieldValue::Float64(1.0)]),
        l(vec![FieldValue::Boolean(true), FieldValue::Null]),
        l(vec![l(vec![i(1)]), l(vec![FieldValue::Null])]),
        l(vec![l(vec![])]),
        l(vec![l(vec![]), FieldValue::Null]),
        l(vec![l(vec![l(vec![i(1)])])]),
        l(vec![l(vec![l(vec![FieldValue::Null])]), FieldValue::Null]),
        // enum leaves before/after the short-circuit points of `all` (regression streams of F-14:
        // the enum arm of is_valid_value was `unimplemented!`; it is `false` now)
        l(vec![e()]),
        l(vec![i(1), e()]),
        l(vec![FieldValue::Null, e()]),
        l(vec![FieldValue::from("a"), e()]),
        l(vec![l(vec![e()])]),
        l(vec![l(vec![i(1), FieldValue::from("x")]), e()]),
        l(vec![i(1), FieldValue::from("x"), e()]),
    ]
}

fn has_enum(v: &FieldValue) -> bool {
    match v {
        FieldValue::Enum(_) => true,
        FieldValue::List(items) => items.iter().any(has_enum),
        _ => false,
    }
}

fn value_depth(v: &FieldValue) -> usize {
    match v {
        FieldValue::List(items) => 1 + items.iter().map(value_depth).max().unwrap_or(0),
        _ => 0,
    }
}

fn malformed_texts() -> Vec<String> {
    let mut v: Vec<String> = [
        "", "!", "[]", "[", "]", "[a", "a]", "[a]]", "[[a]", "Int!!", " Int", "[Int ]", "[!]", "[]!", "!!", "[[]]",
        "[Int!]!x", "é", "[日本!]", "[Int]]!", "[[Int]!", "Int]", "[Int", "]Int[", "[Int]![", "Int![]", "![Int]",
        "[\u{10FFFF}]", "a b", "[a b]!", "[[Int!]!]!", "[Int!]!!", "[]]", "[[]",
    ]
    .iter()
    .map(|s| s.to_string())
    .collect();
    // the depth boundary through the text route: 30 levels parse, 31 levels panic in `from_type`
    for d in [29usize, 30, 31, 32] {
        v.push(format!("{}String{}", "[".repeat(d), "]".repeat(d)));
        v.push(format!("{}String!{}", "[".repeat(d), "]!".repeat(d)));
    }
    v.push(format!("{}String{}", "[".repeat(31), "]".repeat(30))); // unbalanced: rejected before from_type
    v
}

/// Random edits of a valid text.
fn mutate_text(rng: &mut Rng, s: &str) -> String {
    let mut chars: Vec<char> = s.chars().collect();
    let extra = ['[', ']', '!', 'x', ' '];
    match rng.below(3) {
        0 if !chars.is_empty() => {
            let i = rng.below(chars.len());
            chars.remove(i);
        }
        1 => {
            let i = rng.below(chars.len() + 1);
            chars.insert(i, *rng.pick(&extra));
        }
        _ if !chars.is_empty() => {
            let i = rng.below(chars.len());
            chars[i] = *rng.pick(&extra);
        }
        _ => chars.push('!'),
    }
    chars.into_iter().collect()
}

/// Collects oracle failures, at most three per key.
#[derive(Default)]
struct FailSink {
    list: std::cell::RefCell<Vec<OracleFailure>>,
    seen: std::cell::RefCell<BTreeMap<String, usize>>,
}

impl FailSink {
    fn fail(&self, key: &str, detail: String, requests: Vec<String>) {
        let mut seen = self.seen.borrow_mut();
        let c = seen.entry(key.to_string()).or_default();
        *c += 1;
        if *c <= 3 {
            self.list.borrow_mut().push(OracleFailure { key: key.to_string(), detail, requests });
        }
    }
    fn len(&self) -> usize {
        self.list.borrow().len()
    }
    fn take(&self) -> Vec<OracleFailure> {
        std::mem::take(&mut *self.list.borrow_mut())
    }
}

// ------------------------------------------------------------------------------------------------
// C17
// ------------------------------------------------------------------------------------------------

pub struct C17;

impl Prop for C17 {
    fn id(&self) -> &'static str {
        "C17"
    }
    fn rule(&self) -> &'static str {
        "Types: every nullability combination over the base names Int, String, Float, Boolean, Vertex for 0..3 list levels (quick; 0..4 thorough), plus a sparse stream at 28, 29 and 30 list levels and the panic boundary (31 levels through new_list_type and through parse/from_type of a 31-deep text). Requests: all ORDERED PAIRS of the exhaustive types as (ty-intersect a b), (ty-sub parent child), (ty-eqnull a b) — a pair is non-trivial (nt:same-base-depth) when both types have the same base name and list depth, so that the per-level nullability logic rather than the early mismatch exit decides; per type (ty-mk), (ty-info), (ty-display), (ty-aslist), (ty-withnull t 0|1), (ty-orderable) — non-trivial (nt:list) for list types; (ty-parse text) for every displayed text, a pool of malformed/odd texts and random one-character edits — non-trivial (nt:parse-structured) when the text contains a bracket or bang; (ty-valid t v) for every type against a value pool (fixed boundary values, enum leaves placed before/after short-circuit points, seeded random values to nesting depth 3, values generated to conform to sampled types and one-position mutations of them) — non-trivial (nt:valid-recursion) when both the type and the value are lists, or (nt:valid-accepted) when the answer is 1. ORACLE (on the implementation's own answers, over ALL pairs and ALL triples of every type mentioned in a request): intersect commutative / idempotent / associative / subtype of both inputs / greatest among common subtypes / none iff base or depth differ; is_scalar_only_subtype reflexive / antisymmetric / transitive; validity monotone along the subtype relation and intersection-valid iff valid for both, never panicking on any value (enum leaves included) and never accepting a value with an enum leaf; equal_ignoring_nullability reflexive / symmetric / transitive / iff same base and depth / iff an intersection exists."
    }
    fn generate(&self, tier: Tier, rng: &mut Rng) -> Vec<Case> {
        let max_depth = if tier == Tier::Quick { 3 } else { 4 };
        let types = all_types(max_depth);
        let deep = deep_types(rng, if tier == Tier::Quick { 2 } else { 6 });
        let mut out = vec![];
        let call = |h: &str, args: Vec<Sexp>| Sexp::call(h, args);

        // per-type requests
        for (t, stream) in types.iter().map(|t| (t, "exh")).chain(deep.iter().map(|t| (t, "deep"))) {
            let depth_tag = format!("depth{}", t.depth());
            let mut tags = vec![stream, depth_tag.as_str()];
            if t.depth() > 0 {
                tags.push("nt:list");
            }
            let s = t.to_sexp();
            for h in ["ty-mk", "ty-info", "ty-display", "ty-aslist", "ty-orderable"] {
                out.push(Case::new(call(h, vec![s.clone()]), &tags));
            }
            for n in ["0", "1"] {
                out.push(Case::new(call("ty-withnull", vec![s.clone(), Sexp::atom(n)]), &tags));
            }
            let text = t.text();
            out.push(Case::new(call("ty-parse", vec![hex_atom(&text)]), &[stream, "parse-valid", "nt:parse-structured"]));
            if stream == "exh" || rng.chance(1, 3) {
                let m = mutate_text(rng, &text);
                let mut tags = vec![stream, "parse-mutated"];
                if m.contains(['[', ']', '!']) {
                    tags.push("nt:parse-structured");
                }
                out.push(Case::new(call("ty-parse", vec![hex_atom(&m)]), &tags));
            }
        }
        for m in malformed_texts() {
            let mut tags = vec!["parse-pool"];
            if m.contains(['[', ']', '!']) {
                tags.push("nt:parse-structured");
            }
            out.push(Case::new(call("ty-parse", vec![hex_atom(&m)]), &tags));
        }
        // panic boundary through the constructors
        for base in ["Int", "Vertex"] {
            for d in [31usize, 32, 40] {
                let t = TyDesc { base: base.to_string(), flags: (0..=d).map(|i| i % 3 == 0).collect() };
                out.push(Case::new(call("ty-mk", vec![t.to_sexp()]), &["boundary", "nt:list", "too-deep"]));
                out.push(Case::new(call("ty-display", vec![t.to_sexp()]), &["boundary", "nt:list", "too-deep"]));
                out.push(Case::new(
                    call("ty-intersect", vec![t.to_sexp(), t.to_sexp()]),
                    &["boundary", "nt:same-base-depth", "too-deep"],
                ));
            }
        }

        // all ordered pairs
        let pair = |a: &TyDesc, b: &TyDesc, stream: &str, out: &mut Vec<Case>| {
            let mut tags = vec![stream.to_string()];
            if a.base == b.base && a.depth() == b.depth() {
                tags.push("nt:same-base-depth".into());
            } else if a.base == b.base {
                tags.push("same-base".into());
            } else if a.depth() == b.depth() {
                tags.push("same-depth".into());
            }
            let tags: Vec<&str> = tags.iter().map(|s| s.as_str()).collect();
            for h in ["ty-intersect", "ty-sub", "ty-eqnull"] {
                out.push(Case::new(Sexp::call(h, vec![a.to_sexp(), b.to_sexp()]), &tags));
            }
        };
        for a in &types {
            for b in &types {
                pair(a, b, "exh", &mut out);
            }
        }
        for a in &deep {
            for b in &deep {
                pair(a, b, "deep", &mut out);
            }
            // deep against shallow (depth mismatch) and against its own nullability flips
            pair(a, &types[rng.below(types.len())], "deep", &mut out);
            let mut flipped = a.clone();
            let i = rng.below(flipped.flags.len());
            flipped.flags[i] = !flipped.flags[i];
            pair(a, &flipped, "deep", &mut out);
            pair(&flipped, a, "deep", &mut out);
        }

        // validity
        let mut values = fixed_values();
        let n_random = if tier == Tier::Quick { 20 } else { 120 };
        for _ in 0..n_random {
            values.push(random_value(rng, max_depth));
        }
        let step = if tier == Tier::Quick { 4 } else { 2 };
        for t in types.iter().step_by(step).chain(deep.iter().step_by(3)) {
            let v = conforming(rng, t, 0);
            values.push(mutate(rng, &v));
            values.push(v);
        }
        let mut seen = BTreeSet::new();
        values.retain(|v| seen.insert(render_value(v)));
        for t in types.iter().chain(deep.iter()) {
            for v in &values {
                let mut tags = vec![format!("valid-{}", kind_name(v))];
                if t.depth() > 0 && matches!(v, FieldValue::List(_)) {
                    tags.push("nt:valid-recursion".into());
                }
                if has_enum(v) {
                    tags.push("enum-leaf".into());
                }
                let tags: Vec<&str> = tags.iter().map(|s| s.as_str()).collect();
                out.push(Case::new(Sexp::call("ty-valid", vec![t.to_sexp(), value_to_sexp(v)]), &tags));
            }
        }
        out
    }

    fn eval(&self, request: &Sexp) -> Option<String> {
        let (h, args) = request.as_call()?;
        match (h, args) {
            ("ty-mk", [a]) => Some(render_ty(&sexp_to_ty(a)?)),
            ("ty-info", [a]) => {
                let t = sexp_to_ty(a)?;
                Some(format!("n={} l={} b={}", bit(t.nullable()), bit(t.is_list()), hex(t.base_type().as_bytes())))
            }
            ("ty-intersect", [a, b]) => {
                let (da, db) = (TyDesc::from_sexp(a)?, TyDesc::from_sexp(b)?);
                let (a, b) = (da.build(), db.build());
                Some(render_opt_ty(&a.intersect(&b)))
            }
            ("ty-sub", [a, b]) => {
                let (da, db) = (TyDesc::from_sexp(a)?, TyDesc::from_sexp(b)?);
                let (a, b) = (da.build(), db.build());
                Some(bit(verif_types::is_scalar_only_subtype(&a, &b)))
            }
            ("ty-eqnull", [a, b]) => {
                let (da, db) = (TyDesc::from_sexp(a)?, TyDesc::from_sexp(b)?);
                let (a, b) = (da.build(), db.build());
                Some(bit(verif_types::equal_ignoring_nullability(&a, &b)))
            }
            ("ty-valid", [a, v]) => {
                let v = sexp_to_value(v)?;
                let t = sexp_to_ty(a)?;
                Some(bit(t.is_valid_value(&v)))
            }
            ("ty-display", [a]) => Some(hex(sexp_to_ty(a)?.to_string().as_bytes())),
            ("ty-parse", [x]) => {
                let text = String::from_utf8(unhex(x.as_atom()?)?).ok()?;
                // the public route …
                let public = Type::parse(&text).ok();
                // … and the two steps separately (dependency parser, then the `from_type` hook)
                let hooked = async_graphql_parser::types::Type::new(&text).map(|g| verif_types::from_type(&g));
                if public != hooked {
                    return Some(format!("route-mismatch public={} hook={}", render_opt_ty(&public), render_opt_ty(&hooked)));
                }
                Some(match public {
                    None => "err".to_string(),
                    Some(t) => render_ty(&t),
                })
            }
            ("ty-aslist", [a]) => Some(render_opt_ty(&sexp_to_ty(a)?.as_list())),
            ("ty-withnull", [a, n]) => {
                let n = n.as_atom()? == "1";
                Some(render_ty(&sexp_to_ty(a)?.with_nullability(n)))
            }
            ("ty-orderable", [a]) => Some(bit(verif_types::is_orderable(&sexp_to_ty(a)?))),
            _ => None,
        }
    }

    fn post_tags(&self, e: &Evaluated) -> Vec<String> {
        let mut t = vec![];
        if let Some((h, _)) = e.request.as_call() {
            let class = if e.answer.starts_with("(T") {
                "some"
            } else if matches!(e.answer.as_str(), "0" | "1" | "none" | "err" | "panic" | "ok") {
                e.answer.as_str()
            } else {
                "text"
            };
            t.push(format!("{h}={class}"));
            if h == "ty-valid" && e.answer == "1" {
                t.push("nt:valid-accepted".into());
            }
        }
        t
    }

    fn oracle(&self, evaluated: &[Evaluated]) -> Vec<OracleFailure> {
        c17_oracle(evaluated).0
    }

    fn extra_stats(&self, evaluated: &[Evaluated]) -> serde_json::Value {
        c17_oracle(evaluated).1
    }
}

/// The laws, evaluated directly on the implementation over every type / value mentioned in the run.
fn c17_oracle(evaluated: &[Evaluated]) -> (Vec<OracleFailure>, serde_json::Value) {
    let mut descs: BTreeSet<TyDesc> = BTreeSet::new();
    let mut vals: BTreeMap<String, FieldValue> = BTreeMap::new();
    for e in evaluated {
        if let Some((h, args)) = e.request.as_call() {
            for a in args {
                if let Some(d) = TyDesc::from_sexp(a) {
                    if d.depth() <= 30 {
                        descs.insert(d);
                    }
                }
            }
            if h == "ty-valid" && args.len() == 2 {
                if let Some(v) = sexp_to_value(&args[1]) {
                    vals.insert(args[1].to_string(), v);
                }
            }
        }
    }
    let descs: Vec<TyDesc> = descs.into_iter().collect();
    let vals: Vec<FieldValue> = vals.into_values().collect();
    let n = descs.len();
    let sink = FailSink::default();
    let fail = |key: &str, detail: String, requests: Vec<String>| sink.fail(key, detail, requests);
    let req2 = |h: &str, a: &TyDesc, b: &TyDesc| Sexp::call(h, vec![a.to_sexp(), b.to_sexp()]).to_string();
    let reqv = |t: &TyDesc, v: &FieldValue| Sexp::call("ty-valid", vec![t.to_sexp(), value_to_sexp(v)]).to_string();

    let built = guarded(|| descs.iter().map(|d| d.build()).collect::<Vec<Type>>());
    let types = match built {
        Ok(t) => t,
        Err(info) => {
            fail(&panic_key(&info), info, vec![]);
            return (sink.take(), serde_json::json!({}));
        }
    };
    let index: BTreeMap<TyDesc, usize> = descs.iter().cloned().enumerate().map(|(i, d)| (d, i)).collect();

    // matrices (each entry guarded: a panic is itself a failure of "the operation is total here")
    #[derive(Clone, Copy, PartialEq)]
    enum Inter {
        NoneR,
        Idx(usize),
        Outside,
        Panic,
    }
    let mut inter = vec![vec![Inter::NoneR; n]; n];
    let mut sub = vec![vec![false; n]; n];
    let mut eqn = vec![vec![false; n]; n];
    let mut outside: Vec<(usize, usize, TyDesc)> = vec![];
    for i in 0..n {
        for j in 0..n {
            match guarded(|| {
                (
                    types[i].intersect(&types[j]),
                    verif_types::is_scalar_only_subtype(&types[i], &types[j]),
                    verif_types::equal_ignoring_nullability(&types[i], &types[j]),
                )
            }) {
                Ok((r, s, e)) => {
                    sub[i][j] = s;
                    eqn[i][j] = e;
                    inter[i][j] = match r {
                        None => Inter::NoneR,
                        Some(t) => {
                            let d = TyDesc::of(&t);
                            match index.get(&d) {
                                Some(k) => Inter::Idx(*k),
                                None => {
                                    outside.push((i, j, d));
                                    Inter::Outside
                                }
                            }
                        }
                    };
                }
                Err(info) => {
                    inter[i][j] = Inter::Panic;
                    fail(
                        "pair-op-panics",
                        info,
                        vec![req2("ty-intersect", &descs[i], &descs[j]), req2("ty-sub", &descs[i], &descs[j]), req2("ty-eqnull", &descs[i], &descs[j])],
                    );
                }
            }
        }
    }
    let mut pairs_checked = 0u64;
    let mut triples_checked = 0u64;
    for i in 0..n {
        let a = &descs[i];
        if inter[i][i] != Inter::Idx(i) {
            fail("intersect-not-idempotent", a.text(), vec![req2("ty-intersect", a, a)]);
        }
        if !sub[i][i] {
            fail("sub-not-reflexive", a.text(), vec![req2("ty-sub", a, a)]);
        }
        if !eqn[i][i] {
            fail("eqnull-not-reflexive", a.text(), vec![req2("ty-eqnull", a, a)]);
        }
        for j in 0..n {
            let b = &descs[j];
            pairs_checked += 1;
            let d = || format!("{} {}", a.text(), b.text());
            if inter[i][j] != inter[j][i] && !(inter[i][j] == Inter::Outside || inter[j][i] == Inter::Outside) {
                fail("intersect-not-commutative", d(), vec![req2("ty-intersect", a, b), req2("ty-intersect", b, a)]);
            }
            if let Inter::Idx(c) = inter[i][j] {
                if !(sub[i][c] && sub[j][c]) {
                    fail(
                        "intersect-not-subtype-of-both",
                        d(),
                        vec![req2("ty-intersect", a, b), req2("ty-sub", a, &descs[c]), req2("ty-sub", b, &descs[c])],
                    );
                }
            }
            let mismatch = a.base != b.base || a.depth() != b.depth();
            if (inter[i][j] == Inter::NoneR) != mismatch {
                fail("intersect-none-iff-mismatch", d(), vec![req2("ty-intersect", a, b)]);
            }
            if eqn[i][j] == mismatch {
                fail("eqnull-iff-same-base-depth", d(), vec![req2("ty-eqnull", a, b)]);
            }
            if eqn[i][j] != eqn[j][i] {
                fail("eqnull-not-symmetric", d(), vec![req2("ty-eqnull", a, b), req2("ty-eqnull", b, a)]);
            }
            if eqn[i][j] == (inter[i][j] == Inter::NoneR) {
                fail("intersect-exists-iff-eqnull", d(), vec![req2("ty-intersect", a, b), req2("ty-eqnull", a, b)]);
            }
            if sub[i][j] && sub[j][i] && i != j {
                fail("sub-not-antisymmetric", d(), vec![req2("ty-sub", a, b), req2("ty-sub", b, a)]);
            }
        }
    }
    // results outside the enumerated set (sparse deep stream): check the two-sided laws directly
    for (i, j, d) in &outside {
        let c = d.build();
        if !(verif_types::is_scalar_only_subtype(&types[*i], &c) && verif_types::is_scalar_only_subtype(&types[*j], &c)) {
            fail("intersect-not-subtype-of-both", d.text(), vec![req2("ty-intersect", &descs[*i], &descs[*j])]);
        }
        if types[*j].intersect(&types[*i]) != Some(c) {
            fail("intersect-not-commutative", d.text(), vec![req2("ty-intersect", &descs[*i], &descs[*j]), req2("ty-intersect", &descs[*j], &descs[*i])]);
        }
    }

    'triples: for i in 0..n {
        for j in 0..n {
            // only same-family triples can exercise the ternary laws non-trivially, but check all
            for k in 0..n {
                triples_checked += 1;
                let (a, b, c) = (&descs[i], &descs[j], &descs[k]);
                if sub[i][j] && sub[j][k] && !sub[i][k] {
                    fail("sub-not-transitive", format!("{} {} {}", a.text(), b.text(), c.text()), vec![req2("ty-sub", a, b), req2("ty-sub", b, c), req2("ty-sub", a, c)]);
                }
                if eqn[i][j] && eqn[j][k] && !eqn[i][k] {
                    fail("eqnull-not-transitive", format!("{} {} {}", a.text(), b.text(), c.text()), vec![req2("ty-eqnull", a, b), req2("ty-eqnull", b, c), req2("ty-eqnull", a, c)]);
                }
                // greatest: k is a common subtype of i and j ⇒ i∩j exists and k is a subtype of it
                if sub[i][k] && sub[j][k] {
                    let ok = match inter[i][j] {
                        Inter::Idx(m) => sub[m][k],
                        Inter::Outside => true, // handled above by direct evaluation
                        _ => false,
                    };
                    if !ok {
                        fail(
                            "intersect-not-greatest",
                            format!("{} {} common subtype {}", a.text(), b.text(), c.text()),
                            vec![req2("ty-intersect", a, b), req2("ty-sub", a, c), req2("ty-sub", b, c)],
                        );
                    }
                }
                // associativity
                let left = match inter[i][j] {
                    Inter::Idx(m) => inter[m][k],
                    other => other,
                };
                let right = match inter[j][k] {
                    Inter::Idx(m) => inter[i][m],
                    other => other,
                };
                if left != right && left != Inter::Outside && right != Inter::Outside {
                    fail(
                        "intersect-not-associative",
                        format!("{} {} {}", a.text(), b.text(), c.text()),
                        vec![req2("ty-intersect", a, b), req2("ty-intersect", b, c)],
                    );
                }
                if sink.len() > 40 {
                    break 'triples;
                }
            }
        }
    }

    // validity
    #[derive(Clone, Copy, PartialEq)]
    enum V {
        No,
        Yes,
        Panic,
    }
    let m = vals.len();
    let mut valid = vec![vec![V::No; m]; n];
    for i in 0..n {
        for (x, v) in vals.iter().enumerate() {
            valid[i][x] = match guarded(|| types[i].is_valid_value(v)) {
                Ok(true) => V::Yes,
                Ok(false) => V::No,
                Err(info) => {
                    // is_valid_value is total: no value (enum leaves included) may make it panic
                    fail("valid-panics", info, vec![reqv(&descs[i], v)]);
                    V::Panic
                }
            };
            if valid[i][x] == V::Yes && has_enum(v) {
                fail(
                    "valid-accepts-enum-leaf",
                    format!("type {} value {}", descs[i].text(), render_value(v)),
                    vec![reqv(&descs[i], v)],
                );
            }
        }
    }
    let mut mono_checked = 0u64;
    for i in 0..n {
        for j in 0..n {
            if sub[i][j] {
                for x in 0..m {
                    mono_checked += 1;
                    if valid[j][x] == V::Yes && valid[i][x] != V::Yes {
                        fail(
                            "valid-not-monotone",
                            format!("subtype {} supertype {} value {}", descs[j].text(), descs[i].text(), render_value(&vals[x])),
                            vec![req2("ty-sub", &descs[i], &descs[j]), reqv(&descs[j], &vals[x]), reqv(&descs[i], &vals[x])],
                        );
                    }
                }
            }
            if let Inter::Idx(c) = inter[i][j] {
                for x in 0..m {
                    let both = valid[i][x] == V::Yes && valid[j][x] == V::Yes;
                    if (valid[c][x] == V::Yes) != both {
                        fail(
                            "valid-intersection-iff-both",
                            format!("{} {} value {}", descs[i].text(), descs[j].text(), render_value(&vals[x])),
                            vec![req2("ty-intersect", &descs[i], &descs[j]), reqv(&descs[i], &vals[x]), reqv(&descs[j], &vals[x]), reqv(&descs[c], &vals[x])],
                        );
                    }
                }
            }
        }
    }
    let max_value_depth = vals.iter().map(value_depth).max().unwrap_or(0);
    let stats = serde_json::json!({
        "types": n, "values": m, "pairs_checked": pairs_checked, "triples_checked": triples_checked,
        "monotonicity_instances_checked": mono_checked, "max_type_depth": descs.iter().map(|d| d.depth()).max().unwrap_or(0),
        "max_value_nesting": max_value_depth, "intersections_outside_enumerated_set": outside.len(),
    });
    (sink.take(), stats)
}

// ------------------------------------------------------------------------------------------------
// C16
// ------------------------------------------------------------------------------------------------

pub struct C16;

const IR_DIR: &str = "/repo/trustfall_core/test_data/tests/valid_queries";

/// F-28 witness (fixed by enabling serde_json's `float_roundtrip`): prints as
/// `1.947700395895162e-169`, which serde_json without that feature parsed back one ulp below.
const F28_WITNESS_BITS: u64 = 0x1ce7_8591_aab1_887a;

fn random_finite(rng: &mut Rng) -> f64 {
    loop {
        let f = f64::from_bits(rng.next_u64());
        if f.is_finite() {
            return f;
        }
    }
}

/// Replace every float leaf by one drawn from `pick`.
fn refloat(v: &FieldValue, pick: &mut dyn FnMut() -> f64) -> FieldValue {
    match v {
        FieldValue::Float64(_) => FieldValue::Float64(pick()),
        FieldValue::List(items) => FieldValue::List(items.iter().map(|x| refloat(x, pick)).collect::<Vec<_>>().into()),
        other => other.clone(),
    }
}

fn has_float(v: &FieldValue) -> bool {
    match v {
        FieldValue::Float64(_) => true,
        FieldValue::List(items) => items.iter().any(has_float),
        _ => false,
    }
}

fn render_masked(v: &FieldValue) -> String {
    fn go(v: &FieldValue) -> Sexp {
        match v {
            FieldValue::Float64(_) => Sexp::call("f", vec![Sexp::atom("_")]),
            FieldValue::List(items) => Sexp::call("l", items.iter().map(go).collect()),
            other => value_to_sexp(other),
        }
    }
    go(v).to_string()
}

/// Same tree, same variants (integers compared by `==` across representations), floats ignored.
fn same_but_floats(a: &FieldValue, b: &FieldValue) -> bool {
    match (a, b) {
        (FieldValue::Float64(_), FieldValue::Float64(_)) => true,
        (FieldValue::List(x), FieldValue::List(y)) => x.len() == y.len() && x.iter().zip(y.iter()).all(|(p, q)| same_but_floats(p, q)),
        (FieldValue::List(_), _) | (_, FieldValue::List(_)) | (FieldValue::Float64(_), _) | (_, FieldValue::Float64(_)) => false,
        (p, q) => p == q,
    }
}

fn enums_to_strings(v: &FieldValue) -> FieldValue {
    match v {
        FieldValue::Enum(s) => FieldValue::String(s.clone()),
        FieldValue::List(items) => FieldValue::List(items.iter().map(enums_to_strings).collect::<Vec<_>>().into()),
        other => other.clone(),
    }
}

fn tv_roundtrip(v: &FieldValue) -> Result<FieldValue, String> {
    let t: TransparentValue = v.clone().into();
    let text = serde_json::to_string(&t).map_err(|e| e.to_string())?;
    let back: TransparentValue = serde_json::from_str(&text).map_err(|e| e.to_string())?;
    Ok(back.into())
}

fn fv_json(v: &FieldValue) -> Result<FieldValue, String> {
    let text = serde_json::to_string(v).map_err(|e| e.to_string())?;
    serde_json::from_str(&text).map_err(|e| e.to_string())
}

fn fv_ron(v: &FieldValue) -> Result<FieldValue, String> {
    let text = ron::to_string(v).map_err(|e| e.to_string())?;
    ron::from_str(&text).map_err(|e| e.to_string())
}

/// The three text routes of a type: Display/parse, serde_json, ron.
fn ty_routes(t: &Type) -> [(&'static str, Result<Type, String>); 3] {
    let display = Type::parse(&t.to_string()).map_err(|e| e.to_string());
    let json = serde_json::to_string(t).map_err(|e| e.to_string()).and_then(|s| serde_json::from_str::<Type>(&s).map_err(|e| e.to_string()));
    let ron = ron::to_string(t).map_err(|e| e.to_string()).and_then(|s| ron::from_str::<Type>(&s).map_err(|e| e.to_string()));
    [("display", display), ("json", json), ("ron", ron)]
}

fn valid_name(b: &str) -> bool {
    !b.starts_with('[') && !b.ends_with('!')
}

fn ir_roundtrip(file: &str) -> String {
    use trustfall_core::ir::IRQuery;
    use trustfall_core::test_types::TestIRQueryResult;
    let path = format!("{IR_DIR}/{file}");
    let Ok(text) = std::fs::read_to_string(&path) else { return "unreadable".into() };
    let parsed: TestIRQueryResult = match ron::from_str(&text) {
        Ok(p) => p,
        Err(e) => return format!("input-unparsable:{}", e.to_string().replace(' ', "_")),
    };
    let Ok(test) = parsed else { return "input-is-error".into() };
    let ir = test.ir_query;
    let via_ron = ron::to_string(&ir).map_err(|e| e.to_string()).and_then(|s| ron::from_str::<IRQuery>(&s).map_err(|e| e.to_string()));
    let via_json = serde_json::to_string(&ir).map_err(|e| e.to_string()).and_then(|s| serde_json::from_str::<IRQuery>(&s).map_err(|e| e.to_string()));
    let mut problems = vec![];
    match via_ron {
        Ok(back) if back == ir => {}
        Ok(_) => problems.push("ron-not-equal".to_string()),
        Err(e) => problems.push(format!("ron-error:{}", e.replace(' ', "_"))),
    }
    match via_json {
        Ok(back) if back == ir => {}
        Ok(_) => problems.push("json-not-equal".to_string()),
        Err(e) => problems.push(format!("json-error:{}", e.replace(' ', "_"))),
    }
    // the indexed form (what `frontend::parse` hands out) derives the same impls; it must survive too
    // (seeded change C16-2: a validating `try_from` on deserialisation that refuses fold-count outputs)
    match trustfall_core::ir::IndexedQuery::try_from(ir.clone()) {
        Err(e) => problems.push(format!("index-error:{}", format!("{e:?}").replace(' ', "_"))),
        Ok(indexed) => {
            use trustfall_core::ir::IndexedQuery;
            let routes: [(&str, Result<IndexedQuery, String>); 3] = [
                ("ron", ron::to_string(&indexed).map_err(|e| e.to_string()).and_then(|s| ron::from_str::<IndexedQuery>(&s).map_err(|e| e.to_string()))),
                ("ron-pretty", ron::ser::to_string_pretty(&indexed, ron::ser::PrettyConfig::default()).map_err(|e| e.to_string()).and_then(|s| ron::from_str::<IndexedQuery>(&s).map_err(|e| e.to_string()))),
                ("json", serde_json::to_string(&indexed).map_err(|e| e.to_string()).and_then(|s| serde_json::from_str::<IndexedQuery>(&s).map_err(|e| e.to_string()))),
            ];
            for (fmt, r) in routes {
                match r {
                    Ok(back) if back == indexed => {}
                    Ok(_) => problems.push(format!("indexed-{fmt}-not-equal")),
                    Err(e) => problems.push(format!("indexed-{fmt}-error:{}", e.replace(' ', "_"))),
                }
            }
        }
    }
    // the arguments map travels with the compiled query in the test files: FieldValue (tagged)
    for (k, v) in &test.arguments {
        for (fmt, r) in [("json", fv_json(v)), ("ron", fv_ron(v))] {
            match r {
                Ok(back) if &back == v && render_value(&back) == render_value(v) => {}
                _ => problems.push(format!("argument-{fmt}-not-equal:{k}")),
            }
        }
    }
    if problems.is_empty() { "ok".into() } else { problems.join(",") }
}

impl Prop for C16 {
    fn id(&self) -> &'static str {
        "C16"
    }
    fn rule(&self) -> &'static str {
        "Types: (ty-roundtrip t) for every nullability combination over base names Int, String, Float, Boolean, Vertex plus names that need escaping in JSON/RON (quote, backslash, non-ASCII, empty) for 0..3 list levels (0..4 thorough), a sparse stream at 28-30 levels, 31 levels (panic), and a few names for which the text is ambiguous (starting with `[` / ending with `!`: tagged ambiguous-name, correspondence only, exempt from the oracle); the implementation's answer combines Display→Type::parse, serde_json and ron (they must agree). Values: (tv-roundtrip v) = FieldValue → TransparentValue → serde_json text → TransparentValue → FieldValue, and (fv-serde v) = tagged FieldValue through serde_json and through ron, over every scalar boundary partition (both integer representations incl. 2^63 boundaries, boundary floats incl. ±0, subnormals, f64::MAX, 2^63, strings needing escapes), enum leaves, nested lists, and seeded random values to nesting depth 4 whose floats are boundary floats or uniformly random finite bit patterns; a dedicated stream carries the historical F-28 witness (0x1ce78591aab1887a) and further random finite floats at three nestings — all float leaves must come back bit-exact (answers render the exact float key; nothing is masked or filtered). A value case is non-trivial (nt:…) when it contains a list, a float, an unsigned integer or an enum — i.e. anything but a bare signed integer/string/bool/null. Compiled queries: (ir-roundtrip file) for every /repo/trustfall_core/test_data/tests/valid_queries/*.ir.ron: IRQuery → RON and → JSON → back, and its IndexedQuery (IndexedQuery::try_from) → RON, pretty RON and JSON → back, compared with ==; this stream is IMPLEMENTATION-ONLY EXPLORATION of the derived serde impls (the model's answer is the constant `ok`). ORACLE: round-trip result == original, and for the tagged routes the identical variant."
    }
    fn generate(&self, tier: Tier, rng: &mut Rng) -> Vec<Case> {
        let max_depth = if tier == Tier::Quick { 3 } else { 4 };
        let mut out = vec![];
        // ---- types
        let mut bases: Vec<&str> = BASES.to_vec();
        bases.extend(["a\"b", "a\\b", "é", "日本", "", "_x1", "a b", "a]", "a[b"]);
        for b in &bases {
            for flags in all_shapes(max_depth) {
                let t = TyDesc { base: b.to_string(), flags };
                let d = format!("depth{}", t.depth());
                let mut tags = vec!["ty", d.as_str()];
                if t.depth() > 0 {
                    tags.push("nt:list-type");
                }
                out.push(Case::new(Sexp::call("ty-roundtrip", vec![t.to_sexp()]), &tags));
            }
        }
        for t in deep_types(rng, if tier == Tier::Quick { 3 } else { 10 }) {
            out.push(Case::new(Sexp::call("ty-roundtrip", vec![t.to_sexp()]), &["ty", "deep", "nt:list-type"]));
        }
        for d in [31usize, 35] {
            let t = TyDesc { base: "Int".into(), flags: vec![true; d + 1] };
            out.push(Case::new(Sexp::call("ty-roundtrip", vec![t.to_sexp()]), &["ty", "too-deep"]));
        }
        for b in ["[Int]", "Int!", "[", "!", "[a", "a!", "[[Int!]]!"] {
            for flags in all_shapes(1) {
                let t = TyDesc { base: b.to_string(), flags };
                out.push(Case::new(Sexp::call("ty-roundtrip", vec![t.to_sexp()]), &["ty", "ambiguous-name"]));
            }
        }
        // ---- values
        let mut pool: Vec<f64> = boundary_floats()
            .iter()
            .filter_map(|v| if let FieldValue::Float64(f) = v { Some(*f) } else { None })
            .collect();
        pool.extend([1e15, 1e16, 1e21, 1e-7, 123456.789, -2.5e-3, 4.9e-324, 9007199254740993.0, 18446744073709551616.0, 0.1, 0.2, 0.30000000000000004]);
        // any finite float: boundary pool or uniformly random bits (F-28 is fixed: every finite f64
        // must survive JSON exactly, so nothing is filtered)
        let exact_float = |rng: &mut Rng| -> f64 {
            if rng.chance(1, 2) { pool[rng.below(pool.len())] } else { random_finite(rng) }
        };
        let mut values = scalar_pool();
        values.extend(fixed_values());
        values.push(FieldValue::Uint64(1 << 63));
        values.push(FieldValue::Uint64((1 << 63) - 1));
        values.push(FieldValue::from("quote\" backslash\\ newline\n nul\u{0} tab\t"));
        values.push(FieldValue::from("\u{7f}\u{80}\u{2028}\u{feff}"));
        values.push(FieldValue::Enum(Arc::from("")));
        values.push(l(vec![FieldValue::Uint64(5), FieldValue::Enum(Arc::from("a")), l(vec![])]));
        for f in pool.clone() {
            values.push(FieldValue::Float64(f));
            values.push(l(vec![FieldValue::Float64(f), FieldValue::Null]));
        }
        let n_random = if tier == Tier::Quick { 300 } else { 3000 };
        for _ in 0..n_random {
            let v = random_value(rng, max_depth + 1);
            let mut r2 = rng.fork();
            values.push(refloat(&v, &mut || exact_float(&mut r2)));
        }
        for _ in 0..n_random / 3 {
            values.push(FieldValue::Float64(exact_float(rng)));
        }
        let mut seen = BTreeSet::new();
        values.retain(|v| seen.insert(render_value(v)));
        for v in &values {
            let mut tags = vec![format!("value-{}", kind_name(v))];
            if has_enum(v) {
                tags.push("nt:enum".into());
            }
            if has_float(v) {
                tags.push("nt:float".into());
            }
            if matches!(v, FieldValue::List(_)) {
                tags.push("nt:list".into());
            }
            if matches!(v, FieldValue::Uint64(_)) {
                tags.push("nt:uint".into());
            }
            let tags: Vec<&str> = tags.iter().map(|s| s.as_str()).collect();
            out.push(Case::new(Sexp::call("tv-roundtrip", vec![value_to_sexp(v)]), &tags));
            out.push(Case::new(Sexp::call("fv-serde", vec![value_to_sexp(v)]), &tags));
        }
        // ---- dedicated float stream (regression guard for F-28): the historical witness and random
        // finite floats, exact answers, at several nestings
        let mut hard = vec![f64::from_bits(F28_WITNESS_BITS)];
        let n_hard = if tier == Tier::Quick { 200 } else { 2000 };
        while hard.len() < n_hard {
            hard.push(random_finite(rng));
        }
        for (i, f) in hard.iter().enumerate() {
            let v = match i % 3 {
                0 => FieldValue::Float64(*f),
                1 => l(vec![FieldValue::Int64(1), FieldValue::Float64(*f)]),
                _ => l(vec![l(vec![FieldValue::Float64(*f), FieldValue::Null]), FieldValue::from("a")]),
            };
            out.push(Case::new(Sexp::call("tv-roundtrip", vec![value_to_sexp(&v)]), &["float-random-bits", "nt:float"]));
            out.push(Case::new(Sexp::call("fv-serde", vec![value_to_sexp(&v)]), &["float-random-bits", "nt:float"]));
        }
        // ---- compiled queries (implementation-only exploration)
        let mut files: Vec<String> = std::fs::read_dir(IR_DIR)
            .map(|d| d.filter_map(|e| e.ok()).map(|e| e.file_name().to_string_lossy().to_string()).filter(|n| n.ends_with(".ir.ron")).collect())
            .unwrap_or_default();
        files.sort();
        for f in files {
            out.push(Case::new(Sexp::call("ir-roundtrip", vec![hex_atom(&f)]), &["ir", "nt:compiled-query", "exploration"]));
        }
        out
    }

    fn eval(&self, request: &Sexp) -> Option<String> {
        let (h, args) = request.as_call()?;
        match (h, args) {
            ("ty-roundtrip", [a]) => {
                let t = sexp_to_ty(a)?;
                let routes = ty_routes(&t);
                let render = |r: &Result<Type, String>| match r {
                    Ok(t) => render_ty(t),
                    Err(_) => "err".to_string(),
                };
                let first = render(&routes[0].1);
                if routes.iter().all(|(_, r)| render(r) == first) {
                    Some(first)
                } else {
                    Some(routes.iter().map(|(n, r)| format!("{n}={}", render(r))).collect::<Vec<_>>().join(" "))
                }
            }
            ("tv-roundtrip", [v]) | ("tv-roundtrip-lossy", [v]) => {
                let v = sexp_to_value(v)?;
                let masked = h.ends_with("-lossy");
                Some(match tv_roundtrip(&v) {
                    Ok(back) => if masked { render_masked(&back) } else { render_value(&back) },
                    Err(_) => "err".to_string(),
                })
            }
            ("fv-serde", [v]) | ("fv-serde-lossy", [v]) => {
                let v = sexp_to_value(v)?;
                let masked = h.ends_with("-lossy");
                let render = |r: &Result<FieldValue, String>| match r {
                    Ok(b) => if masked { render_masked(b) } else { render_value(b) },
                    Err(_) => "err".to_string(),
                };
                let (j, r) = (fv_json(&v), fv_ron(&v));
                if render(&j) == render(&r) { Some(render(&j)) } else { Some(format!("json={} ron={}", render(&j), render(&r))) }
            }
            ("ir-roundtrip", [x]) => {
                let file = String::from_utf8(unhex(x.as_atom()?)?).ok()?;
                if file.contains('/') {
                    return None;
                }
                Some(ir_roundtrip(&file))
            }
            _ => None,
        }
    }

    fn post_tags(&self, e: &Evaluated) -> Vec<String> {
        let mut t = vec![];
        if let Some((h, _)) = e.request.as_call() {
            let class = match e.answer.as_str() {
                "ok" | "err" | "panic" => e.answer.as_str(),
                a if a == e.request.as_list().and_then(|l| l.get(1)).map(|x| x.to_string()).unwrap_or_default() => "identical",
                _ => "changed",
            };
            t.push(format!("{h}={class}"));
        }
        t
    }

    fn oracle(&self, evaluated: &[Evaluated]) -> Vec<OracleFailure> {
        let sink = FailSink::default();
        for e in evaluated {
            let Some((h, args)) = e.request.as_call() else { continue };
            let line = e.line.clone();
            match (h, args) {
                ("ty-roundtrip", [a]) => {
                    let Some(d) = TyDesc::from_sexp(a) else { continue };
                    if d.depth() > 30 || !valid_name(&d.base) {
                        continue; // construction panics / text is ambiguous: outside the property's domain
                    }
                    match guarded(|| {
                        let t = d.build();
                        ty_routes(&t).into_iter().map(|(n, r)| (n, r.map(|u| u == t))).collect::<Vec<_>>()
                    }) {
                        Ok(rs) => {
                            for (n, r) in rs {
                                if r != Ok(true) {
                                    sink.fail(&format!("ty-roundtrip-not-equal:{n}"), format!("{} {:?}", d.text(), r), vec![line.clone()]);
                                }
                            }
                        }
                        Err(info) => sink.fail(&panic_key(&info), info, vec![line.clone()]),
                    }
                }
                ("tv-roundtrip", [v]) | ("tv-roundtrip-lossy", [v]) => {
                    let Some(v) = sexp_to_value(v) else { continue };
                    match guarded(|| tv_roundtrip(&v)) {
                        Ok(Ok(back)) => {
                            if back != v {
                                let cause = if has_enum(&v) && back == enums_to_strings(&v) {
                                    "enum"
                                } else if same_but_floats(&back, &v) {
                                    "float-json"
                                } else {
                                    "other"
                                };
                                sink.fail(&format!("tv-roundtrip-not-equal:{cause}"), format!("{} came back as {}", render_value(&v), render_value(&back)), vec![line.clone()]);
                            }
                        }
                        Ok(Err(msg)) => sink.fail("tv-roundtrip-error", msg, vec![line.clone()]),
                        Err(info) => sink.fail(&panic_key(&info), info, vec![line.clone()]),
                    }
                }
                ("fv-serde", [v]) | ("fv-serde-lossy", [v]) => {
                    let Some(v) = sexp_to_value(v) else { continue };
                    for (fmt, f) in [("json", fv_json as fn(&FieldValue) -> Result<FieldValue, String>), ("ron", fv_ron)] {
                        match guarded(|| f(&v)) {
                            Ok(Ok(back)) => {
                                if back != v || render_value(&back) != render_value(&v) {
                                    let cause = if back == v {
                                        "variant"
                                    } else if same_but_floats(&back, &v) {
                                        "float-json"
                                    } else {
                                        "other"
                                    };
                                    let cause = if fmt == "ron" && cause == "float-json" { "float-ron" } else { cause };
                                    sink.fail(&format!("fv-{fmt}-not-equal:{cause}"), format!("{} came back as {}", render_value(&v), render_value(&back)), vec![line.clone()]);
                                }
                            }
                            Ok(Err(msg)) => sink.fail(&format!("fv-{fmt}-error"), msg, vec![line.clone()]),
                            Err(info) => sink.fail(&panic_key(&info), info, vec![line.clone()]),
                        }
                    }
                }
                ("ir-roundtrip", [_]) => {
                    if e.answer != "ok" {
                        let key = e.answer.split([',', ':']).next().unwrap_or("failed").to_string();
                        sink.fail(&format!("ir-roundtrip-{key}"), e.answer.clone(), vec![line.clone()]);
                    }
                }
                _ => {}
            }
        }
        sink.take()
    }

    fn extra_stats(&self, evaluated: &[Evaluated]) -> serde_json::Value {
        let count = |p: &str| evaluated.iter().filter(|e| e.line.starts_with(p)).count();
        serde_json::json!({
            "type_roundtrips": count("(ty-roundtrip"),
            "untagged_value_roundtrips": count("(tv-roundtrip"),
            "tagged_value_roundtrips_each_json_and_ron": count("(fv-serde"),
            "compiled_queries_roundtripped_each_ron_and_json": count("(ir-roundtrip"),
            "float_random_bits_stream": evaluated.iter().filter(|e| e.tags.iter().any(|t| t == "float-random-bits")).count(),
        })
    }
}

fn main() {
    main_for(vec![Box::new(C17), Box::new(C16)]);
}
