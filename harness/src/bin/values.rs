//! C08 — `FieldValue` equality / ordering: correspondence requests and law oracle.
use std::cmp::Ordering;

use trustfall_core::ir::FieldValue;

use tfharness::framework::*;
use tfharness::rng::Rng;
use tfharness::sexp::Sexp;
use tfharness::values::*;

pub struct C08;

fn ord_name(o: Option<Ordering>) -> &'static str {
    match o {
        Some(Ordering::Less) => "lt",
        Some(Ordering::Equal) => "eq",
        Some(Ordering::Greater) => "gt",
        None => "none",
    }
}

pub fn value_set(tier: Tier, rng: &mut Rng) -> Vec<FieldValue> {
    let mut vals = scalar_pool();
    // nested lists incl. mixed integer representations and prefixes of each other
    let l = |v: Vec<FieldValue>| FieldValue::List(v.into());
    vals.push(l(vec![]));
    vals.push(l(vec![FieldValue::Null]));
    vals.push(l(vec![FieldValue::Int64(1)]));
    vals.push(l(vec![FieldValue::Uint64(1)]));
    vals.push(l(vec![FieldValue::Int64(1), FieldValue::Uint64(2)]));
    vals.push(l(vec![FieldValue::Uint64(1), FieldValue::Int64(2)]));
    vals.push(l(vec![FieldValue::Uint64(1), FieldValue::Int64(3)]));
    vals.push(l(vec![FieldValue::Int64(-1), FieldValue::Uint64(u64::MAX)]));
    vals.push(l(vec![l(vec![]), l(vec![FieldValue::Int64(1)])]));
    vals.push(l(vec![l(vec![FieldValue::Uint64(1)])]));
    vals.push(l(vec![l(vec![FieldValue::Int64(1)])]));
    vals.push(l(vec![FieldValue::from("a"), FieldValue::Null]));
    let extra = if tier == Tier::Quick { 12 } else { 120 };
    for _ in 0..extra {
        vals.push(random_value(rng, 3));
    }
    vals
}

impl Prop for C08 {
    fn id(&self) -> &'static str {
        "C08"
    }
    fn rule(&self) -> &'static str {
        "all ordered pairs over a value set (every scalar boundary partition in both integer representations, finite floats incl. ±0 and subnormals, strings, booleans, enums, nested lists with mixed integer variants, plus seeded random values to nesting depth 3); each pair is sent as (cmp a b) and (eq a b). A pair is non-trivial when the two values are of the same kind class (null / integer / float / string / bool / enum / list), i.e. the payload comparison rather than the discriminant decides. Laws (reflexivity, symmetry, transitivity of ==; antisymmetry and transitivity of the order; order agrees with ==; numeric order on integers) are evaluated on the implementation's answers over all triples."
    }
    fn generate(&self, tier: Tier, rng: &mut Rng) -> Vec<Case> {
        let vals = value_set(tier, rng);
        let mut out = vec![];
        for a in &vals {
            for b in &vals {
                let same = class(a) == class(b);
                let tag_kind = format!("{}-{}", kind_name(a), kind_name(b));
                let mut tags = vec![tag_kind.as_str()];
                if same {
                    tags.push("nt:same-class");
                }
                let (sa, sb) = (value_to_sexp_exact(a), value_to_sexp_exact(b));
                out.push(Case::new(Sexp::call("cmp", vec![sa.clone(), sb.clone()]), &tags));
                out.push(Case::new(Sexp::call("eq", vec![sa, sb]), &tags));
            }
        }
        out
    }
    fn eval(&self, request: &Sexp) -> Option<String> {
        let (h, args) = request.as_call()?;
        match (h, args) {
            ("cmp", [a, b]) => {
                let (a, b) = (sexp_to_value(a)?, sexp_to_value(b)?);
                Some(ord_name(a.partial_cmp(&b)).to_string())
            }
            ("eq", [a, b]) => {
                let (a, b) = (sexp_to_value(a)?, sexp_to_value(b)?);
                Some(if a == b { "1" } else { "0" }.to_string())
            }
            ("echo", [a]) => Some(render_value(&sexp_to_value(a)?)),
            _ => None,
        }
    }
    fn oracle(&self, evaluated: &[Evaluated]) -> Vec<OracleFailure> {
        // Recover the distinct values mentioned in the requests, then check the laws directly on
        // the implementation (all triples).
        let mut vals: Vec<FieldValue> = vec![];
        let mut seen = std::collections::BTreeSet::new();
        for e in evaluated {
            if let Some((_, args)) = e.request.as_call() {
                for a in args {
                    if seen.insert(a.to_string()) {
                        if let Some(v) = sexp_to_value(a) {
                            vals.push(v);
                        }
                    }
                }
            }
        }
        let mut fails = vec![];
        let mut fail = |key: &str, detail: String, vs: &[&FieldValue]| {
            let mut reqs = vec![];
            for a in vs {
                for b in vs {
                    reqs.push(Sexp::call("cmp", vec![value_to_sexp_exact(a), value_to_sexp_exact(b)]).to_string());
                    reqs.push(Sexp::call("eq", vec![value_to_sexp_exact(a), value_to_sexp_exact(b)]).to_string());
                }
            }
            fails.push(OracleFailure { key: key.to_string(), detail, requests: reqs });
        };
        let n = vals.len();
        let r = guarded(|| {
            let eq: Vec<Vec<bool>> = vals.iter().map(|a| vals.iter().map(|b| a == b).collect()).collect();
            let cmp: Vec<Vec<Option<Ordering>>> =
                vals.iter().map(|a| vals.iter().map(|b| a.partial_cmp(b)).collect()).collect();
            (eq, cmp)
        });
        let (eq, cmp) = match r {
            Ok(x) => x,
            Err(info) => {
                fails.push(OracleFailure { key: panic_key(&info), detail: info, requests: vec![] });
                return fails;
            }
        };
        for i in 0..n {
            if !eq[i][i] {
                fail("eq-not-reflexive", render_value(&vals[i]), &[&vals[i]]);
            }
            for j in 0..n {
                let (a, b) = (&vals[i], &vals[j]);
                if eq[i][j] != eq[j][i] {
                    fail("eq-not-symmetric", format!("{} {}", render_value(a), render_value(b)), &[a, b]);
                }
                match (cmp[i][j], cmp[j][i]) {
                    (Some(x), Some(y)) if x == y.reverse() => {}
                    _ => fail("cmp-not-antisymmetric-or-partial", format!("{} {}", render_value(a), render_value(b)), &[a, b]),
                }
                if (cmp[i][j] == Some(Ordering::Equal)) != eq[i][j] {
                    fail("cmp-eq-disagree", format!("{} {}", render_value(a), render_value(b)), &[a, b]);
                }
                if let (Some(x), Some(y)) = (num(a), num(b)) {
                    if cmp[i][j] != Some(x.cmp(&y)) || eq[i][j] != (x == y) {
                        fail("int-order-not-numeric", format!("{} {}", render_value(a), render_value(b)), &[a, b]);
                    }
                }
            }
        }
        let le = |i: usize, j: usize| matches!(cmp[i][j], Some(Ordering::Less | Ordering::Equal));
        'outer: for i in 0..n {
            for j in 0..n {
                for k in 0..n {
                    if eq[i][j] && eq[j][k] && !eq[i][k] {
                        fail("eq-not-transitive", String::new(), &[&vals[i], &vals[j], &vals[k]]);
                        break 'outer;
                    }
                    if le(i, j) && le(j, k) && !le(i, k) {
                        fail("le-not-transitive", String::new(), &[&vals[i], &vals[j], &vals[k]]);
                        break 'outer;
                    }
                }
            }
        }
        fails
    }
    fn extra_stats(&self, evaluated: &[Evaluated]) -> serde_json::Value {
        let mut seen = std::collections::BTreeSet::new();
        for e in evaluated {
            if let Some((_, args)) = e.request.as_call() {
                for a in args {
                    seen.insert(a.to_string());
                }
            }
        }
        let n = seen.len();
        serde_json::json!({"values": n, "pairs_checked": n * n, "triples_checked": n * n * n})
    }
}

fn class(v: &FieldValue) -> u8 {
    match v {
        FieldValue::Null => 0,
        FieldValue::Int64(_) | FieldValue::Uint64(_) => 1,
        FieldValue::Float64(_) => 3,
        FieldValue::String(_) => 4,
        FieldValue::Boolean(_) => 5,
        FieldValue::Enum(_) => 6,
        _ => 7,
    }
}

fn num(v: &FieldValue) -> Option<i128> {
    match v {
        FieldValue::Int64(i) => Some(*i as i128),
        FieldValue::Uint64(u) => Some(*u as i128),
        _ => None,
    }
}

fn main() {
    main_for(vec![Box::new(C08)]);
}
