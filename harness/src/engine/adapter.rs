//! The table-driven adapter (answers exactly what a `(data …)` request lists) and a logging wrapper.
use std::cell::RefCell;
use std::collections::BTreeMap;
use std::rc::Rc;
use std::sync::Arc;

use trustfall_core::interpreter::{
    Adapter, AsVertex, ContextIterator, ContextOutcomeIterator, ResolveEdgeInfo, ResolveInfo, VertexIterator,
};
use trustfall_core::ir::{EdgeParameters, FieldValue};

use super::data_gen::DataTable;
use super::params_sexp;
use super::schema_gen::GenSchema;

/// A vertex handle: the dataset-wide vertex id.
#[derive(Debug, Clone, Copy, PartialEq, Eq, PartialOrd, Ord, Hash, serde::Serialize, serde::Deserialize)]
pub struct Vtx(pub u32);

/// Vertex types that expose a stable numeric id (needed by the logging wrapper).
pub trait HasVid {
    fn vid(&self) -> u32;
}

impl HasVid for Vtx {
    fn vid(&self) -> u32 {
        self.0
    }
}

pub fn params_text(parameters: &EdgeParameters) -> String {
    params_sexp(parameters.iter().map(|(k, v)| (k.as_ref(), v))).to_string()
}

struct Tables {
    data: DataTable,
    /// type → all its supertypes, itself included
    supers: BTreeMap<String, Vec<String>>,
}

/// Adapter over the tables of one request. Strictly lazy: every method returns iterator adaptors over
/// its input, nothing is pulled before the caller pulls.
#[derive(Clone)]
pub struct TableAdapter {
    t: Rc<Tables>,
}

impl TableAdapter {
    /// `schema` is consulted only for the subtype relation (coercions).
    pub fn new(schema: &GenSchema, data: DataTable) -> TableAdapter {
        let supers = schema
            .types
            .iter()
            .map(|t| {
                let mut v = vec![t.name.clone()];
                v.extend(t.supers.iter().cloned());
                (t.name.clone(), v)
            })
            .collect();
        TableAdapter { t: Rc::new(Tables { data, supers }) }
    }

    pub fn concrete_type(&self, v: u32) -> Option<&str> {
        self.t.data.vertices.get(&v).map(|x| x.0.as_str())
    }
}

fn neighbors_iter(t: Rc<Tables>, key: (u32, String, String)) -> VertexIterator<'static, Vtx> {
    let n = t.data.adj.get(&key).map(|v| v.len()).unwrap_or(0);
    Box::new((0..n).map(move |i| Vtx(t.data.adj[&key][i])))
}

impl Adapter<'static> for TableAdapter {
    type Vertex = Vtx;

    fn resolve_starting_vertices(
        &self,
        edge_name: &Arc<str>,
        parameters: &EdgeParameters,
        _resolve_info: &ResolveInfo,
    ) -> VertexIterator<'static, Self::Vertex> {
        let t = self.t.clone();
        let key = (edge_name.to_string(), params_text(parameters));
        let n = t.data.starts.get(&key).map(|v| v.len()).unwrap_or(0);
        Box::new((0..n).map(move |i| Vtx(t.data.starts[&key][i])))
    }

    fn resolve_property<V: AsVertex<Self::Vertex> + 'static>(
        &self,
        contexts: ContextIterator<'static, V>,
        _type_name: &Arc<str>,
        property_name: &Arc<str>,
        _resolve_info: &ResolveInfo,
    ) -> ContextOutcomeIterator<'static, V, FieldValue> {
        let t = self.t.clone();
        let prop = property_name.to_string();
        Box::new(contexts.map(move |ctx| {
            let value = match ctx.active_vertex::<Vtx>() {
                None => FieldValue::Null,
                Some(v) => match t.data.vertices.get(&v.0) {
                    None => FieldValue::Null,
                    Some((ty, props)) => {
                        if prop == "__typename" {
                            FieldValue::from(ty.as_str())
                        } else {
                            props.get(&prop).cloned().unwrap_or(FieldValue::Null)
                        }
                    }
                },
            };
            (ctx, value)
        }))
    }

    fn resolve_neighbors<V: AsVertex<Self::Vertex> + 'static>(
        &self,
        contexts: ContextIterator<'static, V>,
        _type_name: &Arc<str>,
        edge_name: &Arc<str>,
        parameters: &EdgeParameters,
        _resolve_info: &ResolveEdgeInfo,
    ) -> ContextOutcomeIterator<'static, V, VertexIterator<'static, Self::Vertex>> {
        let t = self.t.clone();
        let edge = edge_name.to_string();
        let ptext = params_text(parameters);
        Box::new(contexts.map(move |ctx| {
            let nbrs: VertexIterator<'static, Vtx> = match ctx.active_vertex::<Vtx>() {
                None => Box::new(std::iter::empty()),
                Some(v) => neighbors_iter(t.clone(), (v.0, edge.clone(), ptext.clone())),
            };
            (ctx, nbrs)
        }))
    }

    fn resolve_coercion<V: AsVertex<Self::Vertex> + 'static>(
        &self,
        contexts: ContextIterator<'static, V>,
        _type_name: &Arc<str>,
        coerce_to_type: &Arc<str>,
        _resolve_info: &ResolveInfo,
    ) -> ContextOutcomeIterator<'static, V, bool> {
        let t = self.t.clone();
        let target = coerce_to_type.to_string();
        Box::new(contexts.map(move |ctx| {
            let ok = match ctx.active_vertex::<Vtx>() {
                None => false,
                Some(v) => t
                    .data
                    .vertices
                    .get(&v.0)
                    .and_then(|(ty, _)| t.supers.get(ty))
                    .is_some_and(|sup| sup.iter().any(|s| *s == target)),
            };
            (ctx, ok)
        }))
    }
}

// ------------------------------------------------------------------------------------------------
// Logging wrapper

#[derive(Debug, Clone, Copy, PartialEq, Eq, PartialOrd, Ord)]
pub enum CallKind {
    Start,
    Property,
    Neighbors,
    Coercion,
}

impl CallKind {
    pub fn name(self) -> &'static str {
        match self {
            CallKind::Start => "start",
            CallKind::Property => "prop",
            CallKind::Neighbors => "nbrs",
            CallKind::Coercion => "coerce",
        }
    }
}

/// Signature of one adapter call.
#[derive(Debug, Clone, PartialEq)]
pub struct CallSig {
    /// index of the call in call order (0, 1, …)
    pub call_id: usize,
    pub kind: CallKind,
    /// `type_name` argument (`None` for starting vertices)
    pub type_name: Option<String>,
    /// property / edge name (for coercions: the `type_name` again)
    pub name: String,
    /// edge parameters (empty for property / coercion calls)
    pub params: BTreeMap<String, FieldValue>,
    pub coerce_to: Option<String>,
}

/// Everything observable at the adapter boundary, in global order.
#[derive(Debug, Clone, PartialEq)]
pub enum Event {
    /// the engine called a resolver
    Call(CallSig),
    /// a context was pulled through call `call_id`; `active` = id of its active vertex
    Pull { call_id: usize, active: Option<u32> },
    /// the engine pulled one vertex out of a neighbour / starting iterator produced by `call_id`
    /// (`from` = the active vertex the neighbour iterator belongs to; `None` for starting vertices)
    Neighbor { call_id: usize, from: Option<u32>, to: u32 },
}

/// The `resolve_info` argument of a call.
pub enum Info<'a> {
    Vertex(&'a ResolveInfo),
    Edge(&'a ResolveEdgeInfo),
}

/// Hooks other properties can install to check things *inside* the calls.
#[derive(Default)]
#[allow(clippy::type_complexity)]
pub struct Hooks {
    /// at call time (with the hint object of the call)
    pub on_call: Option<Box<dyn Fn(&CallSig, Info<'_>)>>,
    /// for every context pulled through a call (active vertex id)
    pub on_context: Option<Box<dyn Fn(&CallSig, Option<u32>)>>,
}

pub type EventLog = Rc<RefCell<Vec<Event>>>;

pub struct LoggingAdapter<A> {
    pub inner: A,
    pub log: EventLog,
    pub hooks: Rc<Hooks>,
}

impl<A> LoggingAdapter<A> {
    pub fn new(inner: A) -> Self {
        LoggingAdapter { inner, log: Rc::new(RefCell::new(vec![])), hooks: Rc::new(Hooks::default()) }
    }
    pub fn with_hooks(inner: A, hooks: Hooks) -> Self {
        LoggingAdapter { inner, log: Rc::new(RefCell::new(vec![])), hooks: Rc::new(hooks) }
    }
    fn begin(&self, kind: CallKind, type_name: Option<&str>, name: &str, params: Option<&EdgeParameters>, coerce_to: Option<&str>, info: Info<'_>) -> Rc<CallSig> {
        let mut log = self.log.borrow_mut();
        let call_id = log.iter().filter(|e| matches!(e, Event::Call(_))).count();
        let sig = CallSig {
            call_id,
            kind,
            type_name: type_name.map(str::to_string),
            name: name.to_string(),
            params: params.map(|p| p.iter().map(|(k, v)| (k.to_string(), v.clone())).collect()).unwrap_or_default(),
            coerce_to: coerce_to.map(str::to_string),
        };
        log.push(Event::Call(sig.clone()));
        drop(log);
        if let Some(h) = &self.hooks.on_call {
            h(&sig, info);
        }
        Rc::new(sig)
    }
    /// The calls only, in call order.
    pub fn calls(&self) -> Vec<CallSig> {
        self.log.borrow().iter().filter_map(|e| if let Event::Call(c) = e { Some(c.clone()) } else { None }).collect()
    }
}

fn observe<V, A>(
    contexts: ContextIterator<'static, V>,
    sig: Rc<CallSig>,
    log: EventLog,
    hooks: Rc<Hooks>,
) -> ContextIterator<'static, V>
where
    A: Adapter<'static>,
    A::Vertex: HasVid,
    V: AsVertex<A::Vertex> + 'static,
{
    Box::new(contexts.inspect(move |ctx| {
        let active = ctx.active_vertex::<A::Vertex>().map(|v| v.vid());
        log.borrow_mut().push(Event::Pull { call_id: sig.call_id, active });
        if let Some(h) = &hooks.on_context {
            h(&sig, active);
        }
    }))
}

impl<A> Adapter<'static> for LoggingAdapter<A>
where
    A: Adapter<'static> + 'static,
    A::Vertex: HasVid + 'static,
{
    type Vertex = A::Vertex;

    fn resolve_starting_vertices(
        &self,
        edge_name: &Arc<str>,
        parameters: &EdgeParameters,
        resolve_info: &ResolveInfo,
    ) -> VertexIterator<'static, Self::Vertex> {
        let sig = self.begin(CallKind::Start, None, edge_name, Some(parameters), None, Info::Vertex(resolve_info));
        let log = self.log.clone();
        Box::new(self.inner.resolve_starting_vertices(edge_name, parameters, resolve_info).inspect(move |v| {
            log.borrow_mut().push(Event::Neighbor { call_id: sig.call_id, from: None, to: v.vid() });
        }))
    }

    fn resolve_property<V: AsVertex<Self::Vertex> + 'static>(
        &self,
        contexts: ContextIterator<'static, V>,
        type_name: &Arc<str>,
        property_name: &Arc<str>,
        resolve_info: &ResolveInfo,
    ) -> ContextOutcomeIterator<'static, V, FieldValue> {
        let sig = self.begin(CallKind::Property, Some(type_name), property_name, None, None, Info::Vertex(resolve_info));
        let contexts = observe::<V, A>(contexts, sig, self.log.clone(), self.hooks.clone());
        self.inner.resolve_property(contexts, type_name, property_name, resolve_info)
    }

    fn resolve_neighbors<V: AsVertex<Self::Vertex> + 'static>(
        &self,
        contexts: ContextIterator<'static, V>,
        type_name: &Arc<str>,
        edge_name: &Arc<str>,
        parameters: &EdgeParameters,
        resolve_info: &ResolveEdgeInfo,
    ) -> ContextOutcomeIterator<'static, V, VertexIterator<'static, Self::Vertex>> {
        let sig = self.begin(CallKind::Neighbors, Some(type_name), edge_name, Some(parameters), None, Info::Edge(resolve_info));
        let contexts = observe::<V, A>(contexts, sig.clone(), self.log.clone(), self.hooks.clone());
        let log = self.log.clone();
        Box::new(self.inner.resolve_neighbors(contexts, type_name, edge_name, parameters, resolve_info).map(move |(ctx, nbrs)| {
            let from = ctx.active_vertex::<A::Vertex>().map(|v| v.vid());
            let log = log.clone();
            let call_id = sig.call_id;
            let nbrs: VertexIterator<'static, A::Vertex> = Box::new(nbrs.inspect(move |v| {
                log.borrow_mut().push(Event::Neighbor { call_id, from, to: v.vid() });
            }));
            (ctx, nbrs)
        }))
    }

    fn resolve_coercion<V: AsVertex<Self::Vertex> + 'static>(
        &self,
        contexts: ContextIterator<'static, V>,
        type_name: &Arc<str>,
        coerce_to_type: &Arc<str>,
        resolve_info: &ResolveInfo,
    ) -> ContextOutcomeIterator<'static, V, bool> {
        let sig = self.begin(CallKind::Coercion, Some(type_name), type_name, None, Some(coerce_to_type), Info::Vertex(resolve_info));
        let contexts = observe::<V, A>(contexts, sig, self.log.clone(), self.hooks.clone());
        self.inner.resolve_coercion(contexts, type_name, coerce_to_type, resolve_info)
    }
}
