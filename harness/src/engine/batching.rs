//! Read-ahead / re-batching adapter wrapper shared by the engine-group binaries (built for C02, used by
//! C15 as well): the repo's `VariableBatchingAdapter` / `VariableChunkIterator`
//! (`trustfall_core/fuzz/fuzz_targets/adapter_batching/mod.rs`, = the test module of `execution.rs`)
//! re-implemented over the public API and generalised.  Per adapter call one schedule entry decides
//! which side is re-batched (the inner adapter's *output*, as in the repo; its *input* contexts; both)
//! and in which chunk sizes (the repo's 2-bit digits of a `u64`, or an explicit size list followed by
//! "everything that is left").  A chunk is pulled eagerly *before* its first element is handed on, the
//! first chunk already while the `resolve_*` call is running.  Order preserving by construction.
use std::cell::{Cell, RefCell};
use std::collections::VecDeque;
use std::rc::Rc;
use std::sync::Arc;

use trustfall_core::interpreter::{
    Adapter, AsVertex, ContextIterator, ContextOutcomeIterator, ResolveEdgeInfo, ResolveInfo, VertexIterator,
};
use trustfall_core::ir::{EdgeParameters, FieldValue};

use tfharness::rng::Rng;
use tfharness::sexp::Sexp;

// ------------------------------------------------------------------------------------------------
// schedules

/// Chunk sizes of one wrapped iterator.
#[derive(Debug, Clone, PartialEq)]
pub enum Sizes {
    /// `VariableChunkIterator::next_chunk_size`: 2-bit digits of the word, least significant first, `+ 1`
    Word(u64),
    /// explicit sizes (0 = an empty chunk), then everything that is left
    List(Vec<usize>),
    /// like `Word`, but nothing is pulled while the resolver call is running: the first chunk is
    /// pulled on the first demand (read-ahead of a demand-driven adapter; `List(vec![0])` is the
    /// corresponding "everything on first demand")
    LazyWord(u64),
}

#[derive(Debug, Clone, Copy, PartialEq)]
pub enum Mode {
    /// re-batch the inner adapter's output (what the repo's wrapper does)
    Out,
    /// re-batch (pre-fetch) the input contexts before the inner adapter sees them
    In,
    Both,
}

#[derive(Debug, Clone, PartialEq)]
pub struct Entry {
    pub mode: Mode,
    pub sizes: Sizes,
}

/// One schedule: the entries are consumed one per adapter call, in call order; afterwards `0`
/// (`unwrap_or(0)` of the repo's wrapper) or, when `cyclic`, the entries again.
#[derive(Debug, Clone, PartialEq)]
pub struct Sched {
    pub entries: Vec<Entry>,
    pub cyclic: bool,
}

impl Entry {
    pub fn word(w: u64) -> Entry {
        Entry { mode: Mode::Out, sizes: Sizes::Word(w) }
    }
    pub fn to_sexp(&self) -> Sexp {
        let m = match self.mode {
            Mode::Out => "o",
            Mode::In => "i",
            Mode::Both => "b",
        };
        match (&self.mode, &self.sizes) {
            (Mode::Out, Sizes::Word(w)) => Sexp::atom(w.to_string()),
            (_, Sizes::Word(w)) => Sexp::list(vec![Sexp::atom(m), Sexp::atom(w.to_string())]),
            (_, Sizes::LazyWord(w)) => Sexp::list(vec![Sexp::atom(m), Sexp::atom("lazy"), Sexp::atom(w.to_string())]),
            (_, Sizes::List(v)) => {
                let mut l = vec![Sexp::atom(m), Sexp::atom("k")];
                l.extend(v.iter().map(|n| Sexp::atom(n.to_string())));
                Sexp::list(l)
            }
        }
    }
    pub fn from_sexp(s: &Sexp) -> Option<Entry> {
        if let Some(a) = s.as_atom() {
            return Some(Entry::word(a.parse().ok()?));
        }
        let (m, rest) = s.as_call()?;
        let mode = match m {
            "o" => Mode::Out,
            "i" => Mode::In,
            "b" => Mode::Both,
            _ => return None,
        };
        let sizes = match rest {
            [l, w] if l.as_atom() == Some("lazy") => Sizes::LazyWord(w.as_atom()?.parse().ok()?),
            [w] if w.as_atom() != Some("k") => Sizes::Word(w.as_atom()?.parse().ok()?),
            [k, ns @ ..] if k.as_atom() == Some("k") => {
                Sizes::List(ns.iter().map(|n| n.as_atom()?.parse().ok()).collect::<Option<Vec<usize>>>()?)
            }
            _ => return None,
        };
        Some(Entry { mode, sizes })
    }
}

impl Sched {
    pub fn to_sexp(&self) -> Sexp {
        Sexp::call(if self.cyclic { "cyc" } else { "sched" }, self.entries.iter().map(Entry::to_sexp).collect())
    }
    pub fn from_sexp(s: &Sexp) -> Option<Sched> {
        let (h, rest) = s.as_call()?;
        let cyclic = match h {
            "sched" => false,
            "cyc" => true,
            _ => return None,
        };
        Some(Sched { entries: rest.iter().map(Entry::from_sexp).collect::<Option<Vec<_>>>()?, cyclic })
    }
}

pub const MAX: u64 = u64::MAX;
/// digits 0,1,2,3 repeating: chunk sizes 1,2,3,4,1,2,…
pub const ALTERNATING: u64 = 0xE4E4_E4E4_E4E4_E4E4;

pub fn all(mode: Mode) -> Entry {
    Entry { mode, sizes: Sizes::List(vec![]) }
}

/// The fixed schedules every query is run under.
pub fn std_schedules() -> Vec<Sched> {
    let cyc = |e: Entry| Sched { entries: vec![e], cyclic: true };
    let mut v = vec![
        // the wrapper's default: every call pre-fetches one element
        Sched { entries: vec![], cyclic: false },
        // the schedule of `repro_issue_205`
        Sched { entries: vec![Entry::word(0), Entry::word(0), Entry::word(MAX)], cyclic: false },
        // chunks of 4 everywhere
        cyc(Entry::word(MAX)),
        cyc(Entry { mode: Mode::Both, sizes: Sizes::Word(MAX) }),
        // 1,2,3,4,1,2,…
        cyc(Entry::word(ALTERNATING)),
        cyc(Entry { mode: Mode::In, sizes: Sizes::Word(ALTERNATING) }),
        cyc(Entry { mode: Mode::Both, sizes: Sizes::Word(ALTERNATING) }),
        // pre-fetch everything before the first output, on either side / both sides
        cyc(all(Mode::Out)),
        cyc(all(Mode::In)),
        cyc(all(Mode::Both)),
        // lazy until the first demand, then everything
        cyc(Entry { mode: Mode::Both, sizes: Sizes::List(vec![0]) }),
        // two ahead, then everything
        cyc(Entry { mode: Mode::Both, sizes: Sizes::List(vec![2]) }),
    ];
    // the #205 shape at every position: all calls minimal, the i-th pre-fetches everything
    for i in 0..12 {
        let mut entries = vec![Entry::word(0); i];
        entries.push(all(Mode::Both));
        v.push(Sched { entries, cyclic: false });
    }
    v
}

pub fn rand_entry(rng: &mut Rng) -> Entry {
    let mode = *rng.pick(&[Mode::Out, Mode::Out, Mode::In, Mode::Both, Mode::Both]);
    let sizes = match rng.below(8) {
        0 => Sizes::Word(0),
        1 => Sizes::Word(MAX),
        2 | 3 => Sizes::Word(rng.next_u64()),
        4 => Sizes::List(vec![]),
        _ => {
            let n = rng.below(5);
            Sizes::List((0..n).map(|_| rng.below(5)).collect())
        }
    };
    Entry { mode, sizes }
}

pub fn rand_schedules(seed: u64, count: usize) -> Vec<Sched> {
    let mut rng = Rng::new(seed);
    (0..count)
        .map(|_| {
            let n = rng.below(25);
            Sched { entries: (0..n).map(|_| rand_entry(&mut rng)).collect(), cyclic: rng.chance(1, 2) }
        })
        .collect()
}

/// `(scheds <spec>…)`, `spec := (std) | (rand <seed> <count>) | (sched <entry>…) | (cyc <entry>…)`.
pub fn parse_scheds(s: &Sexp) -> Option<Vec<Sched>> {
    let ("scheds", specs) = s.as_call()? else { return None };
    let mut out = vec![];
    for spec in specs {
        match spec.as_call()? {
            ("std", []) => out.extend(std_schedules()),
            ("rand", [seed, count]) => out.extend(rand_schedules(seed.as_atom()?.parse().ok()?, count.as_atom()?.parse().ok()?)),
            _ => out.push(Sched::from_sexp(spec)?),
        }
    }
    Some(out)
}

// ------------------------------------------------------------------------------------------------
// the chunk iterator and the batching adapter

pub struct Sizer {
    sizes: Sizes,
    /// bit offset (word) or index (list)
    offset: usize,
    /// no size has been asked for yet (the first one is the construction-time chunk)
    fresh: bool,
}

impl Sizer {
    pub fn next_chunk_size(&mut self) -> usize {
        let first = std::mem::replace(&mut self.fresh, false);
        match &self.sizes {
            Sizes::LazyWord(_) if first => 0,
            Sizes::Word(w) | Sizes::LazyWord(w) => {
                let next_chunk = ((w >> self.offset) & 3) + 1;
                if self.offset >= 62 {
                    self.offset = 0;
                } else {
                    self.offset += 2;
                }
                next_chunk as usize
            }
            Sizes::List(v) => {
                if self.offset < v.len() {
                    self.offset += 1;
                    v[self.offset - 1]
                } else {
                    usize::MAX
                }
            }
        }
    }
}

pub type SizeLog = Rc<RefCell<Vec<usize>>>;

/// `VariableChunkIterator`: hands its input on unchanged and in order, but pulls it in chunks.
pub struct ChunkIter<I: Iterator> {
    iter: I,
    buffer: VecDeque<I::Item>,
    sizer: Sizer,
    /// number of elements actually obtained per chunk (for the `chunk` correspondence)
    log: Option<SizeLog>,
    /// never poll `iter` again once it has returned `None` (the repo's `VariableChunkIterator` does
    /// poll again; the crate's trace reader asserts that nobody does)
    fused: bool,
    done: bool,
}

impl<I: Iterator> ChunkIter<I> {
    pub fn new(iter: I, sizes: Sizes, log: Option<SizeLog>) -> Self {
        Self::with_fusing(iter, sizes, log, false)
    }
    pub fn with_fusing(iter: I, sizes: Sizes, log: Option<SizeLog>, fused: bool) -> Self {
        let mut value =
            ChunkIter { iter, buffer: VecDeque::with_capacity(4), sizer: Sizer { sizes, offset: 0, fresh: true }, log, fused, done: false };
        // Eagerly advancing the input iterator: the first chunk is pulled while the resolver call runs.
        let chunk_size = value.sizer.next_chunk_size();
        let got = value.fill(chunk_size);
        value.note(got);
        value
    }
    fn note(&self, n: usize) {
        if let Some(l) = &self.log {
            l.borrow_mut().push(n);
        }
    }
    /// `buffer.extend(iter.by_ref().take(n))`; returns the number of elements obtained.
    fn fill(&mut self, n: usize) -> usize {
        let mut got = 0;
        while got < n {
            match self.poll() {
                Some(x) => {
                    self.buffer.push_back(x);
                    got += 1;
                }
                None => break,
            }
        }
        got
    }
    fn poll(&mut self) -> Option<I::Item> {
        if self.fused && self.done {
            return None;
        }
        let x = self.iter.next();
        if x.is_none() {
            self.done = true;
        }
        x
    }
}

impl<I: Iterator> Iterator for ChunkIter<I> {
    type Item = I::Item;

    fn next(&mut self) -> Option<Self::Item> {
        if let Some(element) = self.buffer.pop_front() {
            return Some(element);
        }
        let next = self.poll()?;
        loop {
            // an explicit size 0 is an empty chunk: take the next size
            let size = self.sizer.next_chunk_size();
            if size == 0 {
                self.note(0);
                continue;
            }
            let got = self.fill(size - 1);
            self.note(1 + got);
            break;
        }
        Some(next)
    }
}

pub struct BatchingAdapter<A> {
    inner: Rc<A>,
    sched: Sched,
    pos: Cell<usize>,
    fused: bool,
}

impl<A> BatchingAdapter<A> {
    pub fn new(inner: Rc<A>, sched: Sched) -> Self {
        BatchingAdapter { inner, sched, pos: Cell::new(0), fused: false }
    }
    /// The same wrapper with chunk iterators that never poll an exhausted iterator again.
    pub fn fused(mut self) -> Self {
        self.fused = true;
        self
    }
    /// `batch_sequences.pop_front().unwrap_or(0)`
    pub fn pop(&self) -> Entry {
        let i = self.pos.get();
        self.pos.set(i + 1);
        let n = self.sched.entries.len();
        if i < n {
            self.sched.entries[i].clone()
        } else if self.sched.cyclic && n > 0 {
            self.sched.entries[i % n].clone()
        } else {
            Entry::word(0)
        }
    }
}

pub fn rebatch<T: 'static>(it: Box<dyn Iterator<Item = T>>, on: bool, sizes: &Sizes, fused: bool) -> Box<dyn Iterator<Item = T>> {
    if on { Box::new(ChunkIter::with_fusing(it, sizes.clone(), None, fused)) } else { it }
}

impl<A: Adapter<'static> + 'static> Adapter<'static> for BatchingAdapter<A>
where
    A::Vertex: 'static,
{
    type Vertex = A::Vertex;

    fn resolve_starting_vertices(
        &self,
        edge_name: &Arc<str>,
        parameters: &EdgeParameters,
        resolve_info: &ResolveInfo,
    ) -> VertexIterator<'static, Self::Vertex> {
        let e = self.pop();
        let inner = self.inner.resolve_starting_vertices(edge_name, parameters, resolve_info);
        rebatch(inner, e.mode != Mode::In, &e.sizes, self.fused)
    }

    fn resolve_property<V: AsVertex<Self::Vertex> + 'static>(
        &self,
        contexts: ContextIterator<'static, V>,
        type_name: &Arc<str>,
        property_name: &Arc<str>,
        resolve_info: &ResolveInfo,
    ) -> ContextOutcomeIterator<'static, V, FieldValue> {
        let e = self.pop();
        let contexts = rebatch(contexts, e.mode != Mode::Out, &e.sizes, self.fused);
        let inner = self.inner.resolve_property(contexts, type_name, property_name, resolve_info);
        rebatch(inner, e.mode != Mode::In, &e.sizes, self.fused)
    }

    fn resolve_neighbors<V: AsVertex<Self::Vertex> + 'static>(
        &self,
        contexts: ContextIterator<'static, V>,
        type_name: &Arc<str>,
        edge_name: &Arc<str>,
        parameters: &EdgeParameters,
        resolve_info: &ResolveEdgeInfo,
    ) -> ContextOutcomeIterator<'static, V, VertexIterator<'static, Self::Vertex>> {
        let e = self.pop();
        let contexts = rebatch(contexts, e.mode != Mode::Out, &e.sizes, self.fused);
        let inner = self.inner.resolve_neighbors(contexts, type_name, edge_name, parameters, resolve_info);
        rebatch(inner, e.mode != Mode::In, &e.sizes, self.fused)
    }

    fn resolve_coercion<V: AsVertex<Self::Vertex> + 'static>(
        &self,
        contexts: ContextIterator<'static, V>,
        type_name: &Arc<str>,
        coerce_to_type: &Arc<str>,
        resolve_info: &ResolveInfo,
    ) -> ContextOutcomeIterator<'static, V, bool> {
        let e = self.pop();
        let contexts = rebatch(contexts, e.mode != Mode::Out, &e.sizes, self.fused);
        let inner = self.inner.resolve_coercion(contexts, type_name, coerce_to_type, resolve_info);
        rebatch(inner, e.mode != Mode::In, &e.sizes, self.fused)
    }
}

