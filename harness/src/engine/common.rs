//! Helpers shared by the engine-group binaries: request parsing, the `exec` evaluation, world
//! generation with a readable failure, and the panic oracle.
use std::collections::{BTreeMap, BTreeSet};

use trustfall_core::ir::FieldValue;

use super::ir_sexp::{args_from_sexp, ir_to_sexp};
use super::run::{Answer, execute, prepare};
use super::worlds::{GenStats, World, WorldKnobs, gen_worlds};
use tfharness::framework::*;
use tfharness::rng::Rng;
use tfharness::sexp::{Sexp, unhex};

/// The pieces every `(cmd <schema> <data> <query text hex> <ir|tree> <args>)` request shares.
pub struct EngineRequest<'a> {
    pub schema: &'a Sexp,
    pub data: &'a Sexp,
    pub text: String,
    pub fourth: &'a Sexp,
    pub args: BTreeMap<String, FieldValue>,
}

pub fn parse_request<'a>(args: &'a [Sexp]) -> Option<EngineRequest<'a>> {
    let [schema, data, text, fourth, a] = args else { return None };
    let text = String::from_utf8(unhex(text.as_atom()?)?).ok()?;
    Some(EngineRequest { schema, data, text, fourth, args: args_from_sexp(a)? })
}

/// Implementation side of `exec` / `spec-exec`.
pub fn eval_exec(cmd: &str, args: &[Sexp]) -> Option<String> {
    let r = parse_request(args)?;
    let p = prepare(r.schema, r.data, &r.text)?;
    let q = match &p.query {
        Err(names) => return Some(Answer::FrontendErr(names.clone()).render()),
        Ok(q) => q.clone(),
    };
    if cmd == "exec" && ir_to_sexp(&q.ir_query) != *r.fourth {
        return Some("(ir-mismatch)".to_string());
    }
    Some(execute(std::sync::Arc::new(p.adapter()), q, &r.args).render())
}

/// Tags of one generated case: the query's feature labels.
pub fn feature_tags(features: &BTreeSet<String>) -> Vec<String> {
    features.iter().cloned().collect()
}

pub const NT_FEATURES: [&str; 9] =
    ["fold", "opt", "recurse", "coerce", "tag-local", "tag-earlier", "tag-import", "count-tag", "count-tag-import"];

/// `nt:<reason>` tags: the query has at least one of {fold, optional, recurse, tag, coercion} and
/// returned at least one row on this dataset.
pub fn nontrivial_tags(e: &Evaluated) -> Vec<String> {
    if !e.answer.starts_with("(rows (row") {
        return vec![];
    }
    let mut out = vec![];
    for f in NT_FEATURES {
        if e.tags.iter().any(|t| t == f) {
            out.push(format!("nt:{f}+rows"));
        }
    }
    out
}

/// Every implementation panic, one failure per distinct (panic class, world+query).
pub fn panic_failures(evaluated: &[Evaluated]) -> Vec<OracleFailure> {
    let mut seen = BTreeSet::new();
    let mut out = vec![];
    for e in evaluated {
        let Some(info) = &e.panic_info else { continue };
        let Some((_, args)) = e.request.as_call() else { continue };
        let key = panic_key(info);
        let world: Vec<String> =
            [0usize, 1, 2, 4].iter().filter_map(|i| args.get(*i)).map(|s| s.to_string()).collect();
        if !seen.insert((key.clone(), world)) {
            continue;
        }
        let (text, qargs) = match parse_request(args) {
            Some(r) => (r.text, super::ir_sexp::args_to_sexp(&r.args).to_string()),
            None => (String::new(), String::new()),
        };
        out.push(OracleFailure { key, detail: format!("{info} | query: {text} | args: {qargs}"), requests: vec![e.line.clone()] });
    }
    out
}

/// A panic inside the generator is an infrastructure error: say where, then stop.
pub fn generate_worlds(rng: &mut Rng, knobs: &WorldKnobs) -> (Vec<World>, GenStats) {
    match guarded(|| gen_worlds(rng, knobs)) {
        Ok(x) => x,
        Err(info) => {
            eprintln!("engine generator panicked: {info}");
            std::process::exit(3);
        }
    }
}

