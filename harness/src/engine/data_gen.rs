//! Generated datasets conforming to a `GenSchema`, their protocol text and back.
use std::collections::{BTreeMap, BTreeSet};

use trustfall_core::ir::FieldValue;

use super::schema_gen::{EdgeDef, GenSchema, instances_of};
use super::{Ty, find_call, params_sexp};
use tfharness::rng::Rng;
use tfharness::sexp::{Sexp, hex};
use tfharness::values::{boundary_floats, boundary_ints, sexp_to_value, value_to_sexp};

#[derive(Debug, Clone, PartialEq)]
pub struct VertexData {
    pub id: u32,
    pub ty: String,
    /// every property of the concrete type, in schema order, nulls explicit
    pub props: Vec<(String, FieldValue)>,
}

/// What of a query the dataset text depends on (all derived from the real IR + arguments).
#[derive(Debug, Clone, Default)]
pub struct DataView {
    pub root: Option<(String, BTreeMap<String, FieldValue>)>,
    pub edges: Vec<(String, BTreeMap<String, FieldValue>)>,
    /// strings that may be used as regex patterns: the string arguments of regex filters
    pub patterns: Vec<String>,
    /// some regex filter takes a tag operand, so every dataset string is a potential pattern
    pub all_strings_are_patterns: bool,
}

#[derive(Debug, Clone, PartialEq)]
pub struct Dataset {
    pub vertices: Vec<VertexData>,
    /// base adjacency (before parameters are applied), duplicates allowed
    pub adj: BTreeMap<(u32, String), Vec<u32>>,
    /// base starting vertices per root edge
    pub starts: BTreeMap<String, Vec<u32>>,
}

/// The small shared string pool (data and arguments draw from the same pool so that filters hit):
/// includes regex metacharacters, the empty string and non-ASCII text.
pub fn string_pool() -> Vec<&'static str> {
    vec!["", "a", "ab", "b", "A", "a.c", "abc", "a*", "é", "日本", "[", "(a|b)+", "aa", " ", "T0", "I0"]
}

/// Regex patterns used as arguments: valid ones and (last two) invalid ones.
pub fn regex_pool() -> (Vec<&'static str>, Vec<&'static str>) {
    (vec!["a", "^a", "a.c", "^$", "(a|b)+", "a*", ".", "^T", "[ab]", "é", "b$", ""], vec!["[", "(a", "a**", "\\"])
}

/// Fixed parameter semantics of generated edges: an `Int` parameter `k`: `null` → all base
/// neighbours, `k < 0` → none, otherwise the first `k`. No parameter → all.
pub fn apply_params(base: &[u32], params: &BTreeMap<String, FieldValue>) -> Vec<u32> {
    match params.get("k") {
        None | Some(FieldValue::Null) => base.to_vec(),
        Some(FieldValue::Int64(k)) if *k < 0 => vec![],
        Some(FieldValue::Int64(k)) => base.iter().copied().take(*k as usize).collect(),
        Some(FieldValue::Uint64(k)) => base.iter().copied().take((*k).min(usize::MAX as u64) as usize).collect(),
        Some(_) => base.to_vec(),
    }
}

/// A random value of type `ty` for the property (or variable over the property) named `hint`.
pub fn gen_value(rng: &mut Rng, ty: &Ty, hint: &str) -> FieldValue {
    if ty.is_nullable() && rng.chance(1, 5) {
        return FieldValue::Null;
    }
    if let Some(elem) = ty.elem() {
        let n = rng.below(4);
        return FieldValue::List((0..n).map(|_| gen_value(rng, &elem, hint)).collect::<Vec<_>>().into());
    }
    match ty.base.as_str() {
        "Int" => {
            if hint == "u" {
                // big unsigned values and the boundaries in both representations
                match rng.below(4) {
                    0 => rng.pick(&boundary_ints()).clone(),
                    1 => FieldValue::Uint64(rng.next_u64() | (1 << 63)),
                    2 => FieldValue::Uint64((i64::MAX as u64) + rng.below(3) as u64),
                    _ => FieldValue::Uint64(rng.below(4) as u64),
                }
            } else if rng.chance(1, 6) {
                rng.pick(&boundary_ints()).clone()
            } else {
                let n = rng.below(6) as i64 - 2;
                if n >= 0 && rng.chance(1, 2) { FieldValue::Uint64(n as u64) } else { FieldValue::Int64(n) }
            }
        }
        "Float" => {
            if rng.chance(1, 4) {
                rng.pick(&boundary_floats()).clone()
            } else {
                FieldValue::Float64(*rng.pick(&[0.0, -0.0, 1.0, -1.0, 0.5, 3.25, 1e300]))
            }
        }
        "String" => FieldValue::from(*rng.pick(&string_pool())),
        "Boolean" => FieldValue::Boolean(rng.chance(1, 2)),
        other => panic!("no value generator for base type {other}"),
    }
}

#[derive(Debug, Clone)]
pub struct DataKnobs {
    pub max_per_type: usize,
}

impl Default for DataKnobs {
    fn default() -> Self {
        DataKnobs { max_per_type: 6 }
    }
}

pub fn gen_dataset(rng: &mut Rng, schema: &GenSchema, knobs: &DataKnobs) -> Dataset {
    let mut vertices = vec![];
    let mut next_id = 0u32;
    for t in schema.concrete_types() {
        let n = if rng.chance(1, 16) { 0 } else { 1 + rng.below(knobs.max_per_type) };
        for _ in 0..n {
            let props = t
                .props
                .iter()
                .map(|(p, ty)| {
                    let v = if p == "id" { FieldValue::Int64(next_id as i64) } else { gen_value(rng, ty, p) };
                    (p.clone(), v)
                })
                .collect();
            vertices.push(VertexData { id: next_id, ty: t.name.clone(), props });
            next_id += 1;
        }
    }
    let inst = instances_of(schema);
    let ids_of = |target: &str| -> Vec<u32> {
        let conc = &inst[target];
        vertices.iter().filter(|v| conc.contains(&v.ty)).map(|v| v.id).collect()
    };
    let pick_nbrs = |rng: &mut Rng, e: &EdgeDef| -> Vec<u32> {
        let cands = ids_of(&e.target);
        if cands.is_empty() {
            return vec![];
        }
        if e.is_list() {
            // duplicates allowed; non-null list types may still be empty
            let n = match rng.below(8) {
                0 => 0,
                1 | 2 => 1,
                3 | 4 => 2,
                5 | 6 => 3,
                _ => 4,
            };
            (0..n).map(|_| cands[rng.below(cands.len())]).collect()
        } else if rng.chance(3, 4) {
            vec![cands[rng.below(cands.len())]]
        } else {
            vec![]
        }
    };
    let mut adj = BTreeMap::new();
    for v in &vertices {
        for e in &schema.ty(&v.ty).unwrap().edges {
            let n = pick_nbrs(rng, e);
            adj.insert((v.id, e.name.clone()), n);
        }
    }
    let mut starts = BTreeMap::new();
    for r in &schema.roots {
        let cands = ids_of(&r.target);
        let s = if r.is_list() {
            match rng.below(8) {
                0 => pick_nbrs(rng, r),
                1 => cands.iter().rev().copied().collect(),
                _ => cands,
            }
        } else {
            pick_nbrs(rng, r)
        };
        starts.insert(r.name.clone(), s);
    }
    Dataset { vertices, adj, starts }
}

fn parse_params(s: &Sexp) -> Option<BTreeMap<String, FieldValue>> {
    let (h, ps) = s.as_call()?;
    if h != "params" {
        return None;
    }
    ps.iter()
        .map(|p| {
            let l = p.as_list()?;
            let [n, v] = l else { return None };
            Some((n.as_atom()?.to_string(), sexp_to_value(v)?))
        })
        .collect()
}

impl Dataset {
    pub fn vertex(&self, id: u32) -> Option<&VertexData> {
        self.vertices.iter().find(|v| v.id == id)
    }

    /// All distinct strings that can be the subject of a string filter: string-typed property values
    /// and the concrete type names (`__typename`).
    pub fn subject_strings(&self) -> BTreeSet<String> {
        let mut out = BTreeSet::new();
        for v in &self.vertices {
            out.insert(v.ty.clone());
            for (_, val) in &v.props {
                if let FieldValue::String(s) = val {
                    out.insert(s.to_string());
                }
            }
        }
        out
    }

    /// `(data (vertices …) (adj …) (starts …) (rx …))` for one query (parameter tuples and regex
    /// patterns come from `view`).
    pub fn to_sexp(&self, schema: &GenSchema, view: &DataView) -> Sexp {
        use super::atom as a;
        let vertices = Sexp::call(
            "vertices",
            self.vertices
                .iter()
                .map(|v| {
                    let mut l = vec![a(v.id.to_string()), a(v.ty.clone())];
                    l.extend(v.props.iter().map(|(p, val)| Sexp::list(vec![a(p.clone()), value_to_sexp(val)])));
                    Sexp::list(l)
                })
                .collect(),
        );
        let ptext = |p: &BTreeMap<String, FieldValue>| params_sexp(p.iter().map(|(k, v)| (k.as_str(), v)));
        let mut seen: BTreeSet<(String, String)> = BTreeSet::new();
        let mut adj = vec![];
        for (edge, params) in &view.edges {
            let ps = ptext(params);
            if !seen.insert((edge.clone(), ps.to_string())) {
                continue;
            }
            for v in &self.vertices {
                if schema.edge(&v.ty, edge).is_none() {
                    continue;
                }
                let base = self.adj.get(&(v.id, edge.clone())).cloned().unwrap_or_default();
                let nbrs = apply_params(&base, params);
                let mut n = vec![a("nbrs")];
                n.extend(nbrs.iter().map(|x| a(x.to_string())));
                adj.push(Sexp::list(vec![a(v.id.to_string()), a(edge.clone()), ps.clone(), Sexp::list(n)]));
            }
        }
        let mut starts = vec![];
        if let Some((edge, params)) = &view.root {
            let base = self.starts.get(edge).cloned().unwrap_or_default();
            let nbrs = apply_params(&base, params);
            let mut n = vec![a("nbrs")];
            n.extend(nbrs.iter().map(|x| a(x.to_string())));
            starts.push(Sexp::list(vec![a(edge.clone()), ptext(params), Sexp::list(n)]));
        }
        // regex table
        let mut rx = vec![];
        let subjects = self.subject_strings();
        let mut patterns: BTreeSet<String> = view.patterns.iter().cloned().collect();
        if view.all_strings_are_patterns {
            patterns.extend(subjects.iter().cloned());
        }
        for p in &patterns {
            match regex::Regex::new(p) {
                Err(_) => rx.push(Sexp::list(vec![a(hex(p.as_bytes())), a("0")])),
                Ok(re) => {
                    let mut l = vec![a(hex(p.as_bytes())), a("1")];
                    l.extend(subjects.iter().filter(|s| re.is_match(s)).map(|s| a(hex(s.as_bytes()))));
                    rx.push(Sexp::list(l));
                }
            }
        }
        Sexp::call("data", vec![vertices, Sexp::call("adj", adj), Sexp::call("starts", starts), Sexp::call("rx", rx)])
    }
}

/// The dataset exactly as listed in a request: what the table adapter answers from.
#[derive(Debug, Clone, Default)]
pub struct DataTable {
    /// vid → (concrete type, property map)
    pub vertices: BTreeMap<u32, (String, BTreeMap<String, FieldValue>)>,
    /// (vid, edge, canonical params text) → neighbours
    pub adj: BTreeMap<(u32, String, String), Vec<u32>>,
    /// (root edge, canonical params text) → starting vertices
    pub starts: BTreeMap<(String, String), Vec<u32>>,
}

impl DataTable {
    pub fn from_sexp(s: &Sexp) -> Option<DataTable> {
        let (h, items) = s.as_call()?;
        if h != "data" {
            return None;
        }
        let mut t = DataTable::default();
        let canon = |p: &Sexp| -> Option<String> {
            let m = parse_params(p)?;
            Some(params_sexp(m.iter().map(|(k, v)| (k.as_str(), v))).to_string())
        };
        let nbrs = |n: &Sexp| -> Option<Vec<u32>> {
            let (h, xs) = n.as_call()?;
            if h != "nbrs" {
                return None;
            }
            xs.iter().map(|x| x.as_atom()?.parse().ok()).collect()
        };
        for v in find_call(items, "vertices")? {
            let l = v.as_list()?;
            let id: u32 = l.first()?.as_atom()?.parse().ok()?;
            let ty = l.get(1)?.as_atom()?.to_string();
            let mut props = BTreeMap::new();
            for p in &l[2..] {
                let pl = p.as_list()?;
                let [n, val] = pl else { return None };
                props.insert(n.as_atom()?.to_string(), sexp_to_value(val)?);
            }
            t.vertices.insert(id, (ty, props));
        }
        for e in find_call(items, "adj")? {
            let l = e.as_list()?;
            let [vid, edge, params, n] = l else { return None };
            t.adj.insert((vid.as_atom()?.parse().ok()?, edge.as_atom()?.to_string(), canon(params)?), nbrs(n)?);
        }
        for e in find_call(items, "starts")? {
            let l = e.as_list()?;
            let [edge, params, n] = l else { return None };
            t.starts.insert((edge.as_atom()?.to_string(), canon(params)?), nbrs(n)?);
        }
        Some(t)
    }
}
