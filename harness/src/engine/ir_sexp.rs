//! Rendering of the real `IRQuery` / result rows in the syntax of ENGINE_PROTOCOL.md, and the
//! IR-derived view (edge parameter tuples, regex patterns) a dataset text depends on.
use std::collections::BTreeMap;
use std::fmt::Debug;
use std::sync::Arc;

use trustfall_core::ir::{
    Argument, Eid, FieldRef, FieldValue, FoldSpecificFieldKind, IRQuery, IRQueryComponent, IndexedQuery, LocalField,
    Operation, Type, Vid,
};

use super::data_gen::DataView;
use super::{Ty, params_sexp};
use tfharness::sexp::Sexp;
use tfharness::values::value_to_sexp;

pub fn vid_num(v: Vid) -> u64 {
    serde_json::to_value(v).ok().and_then(|x| x.as_u64()).expect("Vid serialises as a number")
}

pub fn eid_num(e: Eid) -> u64 {
    serde_json::to_value(e).ok().and_then(|x| x.as_u64()).expect("Eid serialises as a number")
}

fn a(s: impl ToString) -> Sexp {
    Sexp::atom(s.to_string())
}

pub fn ty_sexp(t: &Type) -> Sexp {
    Ty::from_real(t).to_sexp()
}

/// (protocol operator name, left operand, right operand)
pub fn op_parts<L, R>(op: &Operation<L, R>) -> (&'static str, &L, Option<&R>)
where
    L: Debug + Clone + PartialEq + Eq,
    R: Debug + Clone + PartialEq + Eq,
{
    use Operation::*;
    match op {
        IsNull(l) => ("is_null", l, None),
        IsNotNull(l) => ("is_not_null", l, None),
        Equals(l, r) => ("eq", l, Some(r)),
        NotEquals(l, r) => ("neq", l, Some(r)),
        LessThan(l, r) => ("lt", l, Some(r)),
        LessThanOrEqual(l, r) => ("le", l, Some(r)),
        GreaterThan(l, r) => ("gt", l, Some(r)),
        GreaterThanOrEqual(l, r) => ("ge", l, Some(r)),
        Contains(l, r) => ("contains", l, Some(r)),
        NotContains(l, r) => ("not_contains", l, Some(r)),
        OneOf(l, r) => ("one_of", l, Some(r)),
        NotOneOf(l, r) => ("not_one_of", l, Some(r)),
        HasPrefix(l, r) => ("has_prefix", l, Some(r)),
        NotHasPrefix(l, r) => ("not_has_prefix", l, Some(r)),
        HasSuffix(l, r) => ("has_suffix", l, Some(r)),
        NotHasSuffix(l, r) => ("not_has_suffix", l, Some(r)),
        HasSubstring(l, r) => ("has_substring", l, Some(r)),
        NotHasSubstring(l, r) => ("not_has_substring", l, Some(r)),
        RegexMatches(l, r) => ("regex", l, Some(r)),
        NotRegexMatches(l, r) => ("not_regex", l, Some(r)),
        _ => unreachable!("non_exhaustive Operation variant"),
    }
}

fn fieldref_sexp(f: &FieldRef) -> Sexp {
    match f {
        FieldRef::ContextField(c) => {
            Sexp::call("ctx", vec![a(vid_num(c.vertex_id)), a(&c.field_name), ty_sexp(&c.field_type)])
        }
        FieldRef::FoldSpecificField(fs) => match fs.kind {
            FoldSpecificFieldKind::Count => Sexp::call("fcount", vec![a(eid_num(fs.fold_eid)), a(vid_num(fs.fold_root_vid))]),
            _ => unreachable!("non_exhaustive FoldSpecificFieldKind"),
        },
        _ => unreachable!("non_exhaustive FieldRef"),
    }
}

fn argument_sexp(arg: &Argument) -> Sexp {
    match arg {
        Argument::Variable(v) => Sexp::call("var", vec![a(&v.variable_name), ty_sexp(&v.variable_type)]),
        Argument::Tag(t) => Sexp::call("tag", vec![fieldref_sexp(t)]),
    }
}

fn filter_sexp<L>(op: &Operation<L, Argument>, left: impl Fn(&L) -> Sexp) -> Sexp
where
    L: Debug + Clone + PartialEq + Eq,
{
    let (name, l, r) = op_parts(op);
    Sexp::list(vec![a(name), left(l), r.map(argument_sexp).unwrap_or_else(|| a("-"))])
}

fn local_sexp(l: &LocalField) -> Sexp {
    Sexp::call("local", vec![a(&l.field_name), ty_sexp(&l.field_type)])
}

fn eparams(p: &trustfall_core::ir::EdgeParameters) -> Sexp {
    params_sexp(p.iter().map(|(k, v)| (k.as_ref(), v)))
}

fn opt_name(x: &Option<Arc<str>>) -> Sexp {
    x.as_ref().map(a).unwrap_or_else(|| a("-"))
}

pub fn component_sexp(c: &IRQueryComponent) -> Sexp {
    let vertices = Sexp::call(
        "vertices",
        c.vertices
            .values()
            .map(|v| {
                let mut filters = vec![a("filters")];
                filters.extend(v.filters.iter().map(|f| filter_sexp(f, local_sexp)));
                Sexp::call("v", vec![a(vid_num(v.vid)), a(&v.type_name), opt_name(&v.coerced_from_type), Sexp::list(filters)])
            })
            .collect(),
    );
    let edges = Sexp::call(
        "edges",
        c.edges
            .values()
            .map(|e| {
                let rec = match &e.recursive {
                    None => a("-"),
                    Some(r) => Sexp::call("rec", vec![a(r.depth), opt_name(&r.coerce_to)]),
                };
                Sexp::call(
                    "e",
                    vec![
                        a(eid_num(e.eid)),
                        a(vid_num(e.from_vid)),
                        a(vid_num(e.to_vid)),
                        a(&e.edge_name),
                        eparams(&e.parameters),
                        a(if e.optional { "1" } else { "0" }),
                        rec,
                    ],
                )
            })
            .collect(),
    );
    let folds = Sexp::call(
        "folds",
        c.folds
            .values()
            .map(|f| {
                let mut imports = vec![a("imports")];
                imports.extend(f.imported_tags.iter().map(fieldref_sexp));
                let mut fouts = vec![a("fouts")];
                fouts.extend(f.fold_specific_outputs.iter().map(|(name, kind)| {
                    let k = match kind {
                        FoldSpecificFieldKind::Count => "count",
                        _ => unreachable!("non_exhaustive FoldSpecificFieldKind"),
                    };
                    Sexp::list(vec![a(name), a(k)])
                }));
                let mut post = vec![a("post")];
                post.extend(f.post_filters.iter().map(|p| filter_sexp(p, |_k: &FoldSpecificFieldKind| a("count"))));
                Sexp::call(
                    "fold",
                    vec![
                        a(eid_num(f.eid)),
                        a(vid_num(f.from_vid)),
                        a(vid_num(f.to_vid)),
                        a(&f.edge_name),
                        eparams(&f.parameters),
                        component_sexp(&f.component),
                        Sexp::list(imports),
                        Sexp::list(fouts),
                        Sexp::list(post),
                    ],
                )
            })
            .collect(),
    );
    let outputs = Sexp::call(
        "outputs",
        c.outputs
            .iter()
            .map(|(name, f)| Sexp::list(vec![a(name), a(vid_num(f.vertex_id)), a(&f.field_name), ty_sexp(&f.field_type)]))
            .collect(),
    );
    Sexp::call("comp", vec![a(vid_num(c.root)), vertices, edges, folds, outputs])
}

pub fn ir_to_sexp(ir: &IRQuery) -> Sexp {
    let root = Sexp::call("root", vec![a(&ir.root_name), eparams(&ir.root_parameters)]);
    let vars = Sexp::call("vars", ir.variables.iter().map(|(n, t)| Sexp::list(vec![a(n), ty_sexp(t)])).collect());
    Sexp::call("ir", vec![root, vars, component_sexp(&ir.root_component)])
}

/// `(rows (row (name value)…)…)`, names sorted inside a row, rows in the given order.
pub fn rows_to_sexp(rows: &[BTreeMap<Arc<str>, FieldValue>]) -> Sexp {
    Sexp::call(
        "rows",
        rows.iter()
            .map(|r| Sexp::call("row", r.iter().map(|(k, v)| Sexp::list(vec![a(k), value_to_sexp(v)])).collect()))
            .collect(),
    )
}

/// `(outs (<name> <ty> <vid>)…)` from `IndexedQuery::outputs` (name order).
pub fn outputs_to_sexp(q: &IndexedQuery) -> Sexp {
    Sexp::call(
        "outs",
        q.outputs.values().map(|o| Sexp::list(vec![a(&o.name), ty_sexp(&o.value_type), a(vid_num(o.vid))])).collect(),
    )
}

/// `(args (<var> <value>)…)` sorted by name.
pub fn args_to_sexp(args: &BTreeMap<String, FieldValue>) -> Sexp {
    Sexp::call("args", args.iter().map(|(k, v)| Sexp::list(vec![a(k), value_to_sexp(v)])).collect())
}

pub fn args_from_sexp(s: &Sexp) -> Option<BTreeMap<String, FieldValue>> {
    let (h, items) = s.as_call()?;
    if h != "args" {
        return None;
    }
    items
        .iter()
        .map(|p| {
            let l = p.as_list()?;
            let [n, v] = l else { return None };
            Some((n.as_atom()?.to_string(), tfharness::values::sexp_to_value(v)?))
        })
        .collect()
}

fn collect_component(c: &IRQueryComponent, args: &BTreeMap<String, FieldValue>, view: &mut DataView) {
    let to_map = |p: &trustfall_core::ir::EdgeParameters| -> BTreeMap<String, FieldValue> {
        p.iter().map(|(k, v)| (k.to_string(), v.clone())).collect()
    };
    for v in c.vertices.values() {
        for f in &v.filters {
            let (name, _, r) = op_parts(f);
            if name == "regex" || name == "not_regex" {
                match r {
                    Some(Argument::Variable(var)) => {
                        if let Some(FieldValue::String(s)) = args.get(var.variable_name.as_ref()) {
                            view.patterns.push(s.to_string());
                        }
                    }
                    Some(Argument::Tag(_)) => view.all_strings_are_patterns = true,
                    None => {}
                }
            }
        }
    }
    // Eid order over edges and folds together
    let mut eids: Vec<(u64, bool)> = c.edges.keys().map(|e| (eid_num(*e), false)).collect();
    eids.extend(c.folds.keys().map(|e| (eid_num(*e), true)));
    eids.sort();
    for (n, is_fold) in eids {
        if is_fold {
            let f = c.folds.iter().find(|(k, _)| eid_num(**k) == n).unwrap().1;
            view.edges.push((f.edge_name.to_string(), to_map(&f.parameters)));
            collect_component(&f.component, args, view);
        } else {
            let e = c.edges.iter().find(|(k, _)| eid_num(**k) == n).unwrap().1;
            view.edges.push((e.edge_name.to_string(), to_map(&e.parameters)));
        }
    }
}

/// What the `(data …)` text of a request depends on: root + edge parameter tuples of the IR and the
/// potential regex patterns.
pub fn data_view(ir: &IRQuery, args: &BTreeMap<String, FieldValue>) -> DataView {
    let mut view = DataView {
        root: Some((ir.root_name.to_string(), ir.root_parameters.iter().map(|(k, v)| (k.to_string(), v.clone())).collect())),
        ..Default::default()
    };
    collect_component(&ir.root_component, args, &mut view);
    view
}
