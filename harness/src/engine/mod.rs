//! Engine group: generated worlds (schema + dataset + query + arguments), the table adapter, the
//! renderers of ENGINE_PROTOCOL.md and the shared `run_query` entry point.
//! See `harness/ENGINE_NOTES.md` for the public API and the generator's distribution knobs.
pub mod adapter;
pub mod batching;
pub mod common;
pub mod data_gen;
pub mod ir_sexp;
pub mod operand_matrix;
pub mod query_gen;
pub mod recurse_subtype;
pub mod run;
pub mod schema_gen;
pub mod tagged_regex;
pub mod worlds;

use std::fmt;

use trustfall_core::ir::{FieldValue, Type};

use tfharness::sexp::Sexp;

/// A type of the protocol: `(T <base> <n0> … <nk>)`, nullability flags from the OUTERMOST level to
/// the base (`true` = nullable); list depth = `nullable.len() - 1`.
#[derive(Debug, Clone, PartialEq, Eq, PartialOrd, Ord, Hash)]
pub struct Ty {
    pub base: String,
    pub nullable: Vec<bool>,
}

impl Ty {
    pub fn named(base: &str, nullable: bool) -> Ty {
        Ty { base: base.to_string(), nullable: vec![nullable] }
    }
    /// `[self]` with the given outer nullability.
    pub fn list_of(&self, nullable: bool) -> Ty {
        let mut flags = vec![nullable];
        flags.extend(self.nullable.iter().copied());
        Ty { base: self.base.clone(), nullable: flags }
    }
    pub fn is_list(&self) -> bool {
        self.nullable.len() > 1
    }
    pub fn depth(&self) -> usize {
        self.nullable.len() - 1
    }
    pub fn is_nullable(&self) -> bool {
        self.nullable[0]
    }
    /// Element type of a list type.
    pub fn elem(&self) -> Option<Ty> {
        if self.is_list() { Some(Ty { base: self.base.clone(), nullable: self.nullable[1..].to_vec() }) } else { None }
    }
    pub fn with_nullable(&self, n: bool) -> Ty {
        let mut t = self.clone();
        t.nullable[0] = n;
        t
    }
    /// Same base and list depth (the frontend's `equal_ignoring_nullability`).
    pub fn eqn(&self, other: &Ty) -> bool {
        self.base == other.base && self.nullable.len() == other.nullable.len()
    }
    /// The frontend's `Type::intersect`: equal shape, nullability = AND per level.
    pub fn intersect(&self, other: &Ty) -> Option<Ty> {
        if !self.eqn(other) {
            return None;
        }
        Some(Ty {
            base: self.base.clone(),
            nullable: self.nullable.iter().zip(&other.nullable).map(|(a, b)| *a && *b).collect(),
        })
    }
    pub fn to_sexp(&self) -> Sexp {
        let mut v = vec![Sexp::atom(self.base.clone())];
        v.extend(self.nullable.iter().map(|n| Sexp::atom(if *n { "1" } else { "0" })));
        Sexp::call("T", v)
    }
    pub fn from_sexp(s: &Sexp) -> Option<Ty> {
        let (h, args) = s.as_call()?;
        if h != "T" || args.len() < 2 {
            return None;
        }
        let base = args[0].as_atom()?.to_string();
        let nullable = args[1..].iter().map(|a| a.as_atom().map(|x| x == "1")).collect::<Option<Vec<_>>>()?;
        Some(Ty { base, nullable })
    }
    pub fn from_real(t: &Type) -> Ty {
        let mut flags = vec![];
        let mut cur = t.clone();
        loop {
            flags.push(cur.nullable());
            match cur.as_list() {
                Some(inner) => cur = inner,
                None => break,
            }
        }
        Ty { base: t.base_type().to_string(), nullable: flags }
    }
    pub fn to_real(&self) -> Type {
        Type::parse(&self.to_string()).expect("valid type text")
    }
}

/// GraphQL type text, e.g. `[Int!]`.
impl fmt::Display for Ty {
    fn fmt(&self, f: &mut fmt::Formatter<'_>) -> fmt::Result {
        let d = self.depth();
        for _ in 0..d {
            write!(f, "[")?;
        }
        write!(f, "{}", self.base)?;
        for level in (0..=d).rev() {
            if !self.nullable[level] {
                write!(f, "!")?;
            }
            if level > 0 {
                write!(f, "]")?;
            }
        }
        Ok(())
    }
}

/// Atom from anything printable.
pub fn atom(s: impl ToString) -> Sexp {
    Sexp::Atom(s.to_string())
}

/// `(params (<p> <value>)…)` sorted by name.
pub fn params_sexp<'a>(params: impl Iterator<Item = (&'a str, &'a FieldValue)>) -> Sexp {
    let mut v: Vec<(&str, &FieldValue)> = params.collect();
    v.sort_by(|a, b| a.0.cmp(b.0));
    Sexp::call(
        "params",
        v.into_iter().map(|(k, val)| Sexp::list(vec![Sexp::atom(k), tfharness::values::value_to_sexp(val)])).collect(),
    )
}

/// Find the `(head …)` sub-list among `items`.
pub fn find_call<'a>(items: &'a [Sexp], head: &str) -> Option<&'a [Sexp]> {
    items.iter().find_map(|s| match s.as_call() {
        Some((h, rest)) if h == head => Some(rest),
        _ => None,
    })
}

/// GraphQL literal of an edge-parameter value (only what the generator writes: ints, null, bools, strings).
pub fn graphql_literal(v: &FieldValue) -> String {
    match v {
        FieldValue::Null => "null".to_string(),
        FieldValue::Int64(i) => i.to_string(),
        FieldValue::Uint64(u) => u.to_string(),
        FieldValue::Boolean(b) => b.to_string(),
        FieldValue::String(s) => format!("{:?}", s.as_ref()),
        FieldValue::List(l) => format!("[{}]", l.iter().map(graphql_literal).collect::<Vec<_>>().join(", ")),
        other => panic!("no GraphQL literal for {other:?}"),
    }
}
