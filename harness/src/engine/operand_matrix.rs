//! Directed world family "filter operand type matrix": over one fixed small schema with a property of
//! every kind (`Int!`, `Int`, `String`, `String!`, `Float`, `Boolean`, `[Int]`, `[String!]`,
//! `[String!]!`, `[String]`, `[[Int]]`) EVERY combination operator × left property × right operand is
//! written down as a query — right operand = a tag of each property (on the same vertex, on an earlier
//! vertex, imported into a `@fold`) or a variable — INCLUDING the combinations that are ill-typed by
//! the generator's own rules. Each one is compiled by the REAL frontend (`compile_query`); what it
//! rejects drops out (counted), what it ACCEPTS becomes an ordinary world query and is executed: the
//! type-directed generator only writes filters that are well-typed by OUR rules, so a frontend that
//! accepts too much would otherwise never be exercised (C09: whatever is accepted must run without
//! panic; C01: … and mean what the specification says).
//!
//! The data makes the filters evaluate on non-null operands of those types (small value pools shared
//! by data and arguments, strings with prefix / suffix / substring relations, lists of 1..=3 elements).
use std::collections::{BTreeMap, BTreeSet};

use trustfall_core::ir::FieldValue;

use super::Ty;
use super::data_gen::{Dataset, VertexData};
use super::query_gen::{Arg, Dir, Field, GenQuery, Kind, Node, Op, Query};
use super::schema_gen::{EdgeDef, GenSchema, TypeDef};
use tfharness::rng::Rng;

/// Feature label of every query of this family (→ `nt:operand-type-matrix`).
pub const FEATURE: &str = "operand-type-matrix";
/// Additional label: accepted by the frontend although ill-typed by the generator's rules.
pub const ILL_TYPED: &str = "matrix-ill-typed-accepted";

pub const BINARY_OPS: [Op; 18] = [
    Op::Eq,
    Op::Neq,
    Op::Lt,
    Op::Le,
    Op::Gt,
    Op::Ge,
    Op::Contains,
    Op::NotContains,
    Op::OneOf,
    Op::NotOneOf,
    Op::HasPrefix,
    Op::NotHasPrefix,
    Op::HasSuffix,
    Op::NotHasSuffix,
    Op::HasSubstring,
    Op::NotHasSubstring,
    Op::Regex,
    Op::NotRegex,
];

/// Operator class used in the accept / reject statistics.
pub fn op_class(op: Op) -> &'static str {
    use Op::*;
    match op {
        IsNull | IsNotNull => "null-test",
        Eq | Neq => "equality",
        Lt | Le | Gt | Ge => "ordering",
        Contains | NotContains => "contains",
        OneOf | NotOneOf => "one-of",
        Regex | NotRegex => "regex",
        _ => "string-part",
    }
}

/// The properties of the matrix schema, one of every kind.
pub fn matrix_props() -> Vec<(String, Ty)> {
    let int = |n: bool| Ty::named("Int", n);
    let s = |n: bool| Ty::named("String", n);
    vec![
        ("id".into(), int(false)),
        ("n".into(), int(true)),
        ("s".into(), s(true)),
        ("sn".into(), s(false)),
        ("f".into(), Ty::named("Float", true)),
        ("b".into(), Ty::named("Boolean", true)),
        ("li".into(), int(true).list_of(true)),
        ("ls".into(), s(false).list_of(true)),
        ("lsn".into(), s(false).list_of(false)),
        ("lso".into(), s(true).list_of(true)),
        ("lli".into(), int(true).list_of(true).list_of(true)),
    ]
}

/// `type T0 { <matrix_props> e0: [T0!]! }`, root `RT0: [T0!]!`.
pub fn mx_schema() -> GenSchema {
    let t = Ty::named("T0", false).list_of(false);
    let e0 = EdgeDef { name: "e0".into(), target: "T0".into(), ty: t.clone(), params: vec![] };
    let types = vec![TypeDef { name: "T0".into(), is_iface: false, supers: vec![], props: matrix_props(), edges: vec![e0] }];
    let roots = vec![EdgeDef { name: "RT0".into(), target: "T0".into(), ty: t, params: vec![] }];
    let schema = GenSchema { types, roots };
    let _ = schema.to_real();
    debug_assert_eq!(GenSchema::from_sexp(&schema.to_sexp()).as_ref(), Some(&schema));
    schema
}

/// A value of type `ty` from the small pools; `allow_null`: nullable levels are null with p = 1/8.
pub fn mx_value(rng: &mut Rng, ty: &Ty, allow_null: bool) -> FieldValue {
    if allow_null && ty.is_nullable() && rng.chance(1, 8) {
        return FieldValue::Null;
    }
    if let Some(elem) = ty.elem() {
        let n = if rng.chance(1, 8) { 0 } else { 1 + rng.below(3) };
        return FieldValue::List((0..n).map(|_| mx_value(rng, &elem, allow_null)).collect::<Vec<_>>().into());
    }
    match ty.base.as_str() {
        "Int" => FieldValue::Int64(rng.below(4) as i64 - 1),
        "Float" => FieldValue::Float64(*rng.pick(&[0.0, 1.0, 0.5, -1.0])),
        "String" => FieldValue::from(*rng.pick(&["a", "ab", "abc", "b", "ba", "", "a"])),
        "Boolean" => FieldValue::Boolean(rng.chance(1, 2)),
        other => panic!("no matrix value for base type {other}"),
    }
}

/// 4..=6 vertices, every property from `mx_value` (`id` = vertex id; on the last vertex every nullable
/// property is null, and it is its own first `e0` neighbour), 1..=3 `e0` neighbours each, all
/// vertices are starting vertices.
pub fn mx_dataset(rng: &mut Rng, schema: &GenSchema) -> Dataset {
    let n = 4 + rng.below(3);
    let props = &schema.ty("T0").unwrap().props;
    let mut vertices = vec![];
    for i in 0..n {
        let vals = props
            .iter()
            .map(|(name, ty)| {
                let v = if name == "id" { FieldValue::Int64(i as i64) } else { mx_value(rng, ty, true) };
                // the last vertex is the all-null vertex: every nullable property is null there, so that every
                // cell with a nullable left operand and a nullable tagged operand meets the null/null pair
                // (added after seeded change C09-5; the random value is still drawn, so streams are unchanged)
                let v = if name != "id" && i + 1 == n && ty.is_nullable() { FieldValue::Null } else { v };
                (name.clone(), v)
            })
            .collect();
        vertices.push(VertexData { id: i as u32, ty: "T0".to_string(), props: vals });
    }
    let mut adj = BTreeMap::new();
    for i in 0..n {
        let k = 1 + rng.below(3);
        let mut nb = (0..k).map(|_| rng.below(n) as u32).collect::<Vec<u32>>();
        if i + 1 == n {
            // the all-null vertex is its own first `e0` neighbour: a tag taken on it and used on the neighbour
            // or inside `e0 @fold` (placements TagEarlier / TagImported) meets the null/null pair as well
            nb.insert(0, i as u32);
        }
        adj.insert((i as u32, "e0".to_string()), nb);
    }
    let mut starts = BTreeMap::new();
    starts.insert("RT0".to_string(), (0..n as u32).collect::<Vec<u32>>());
    Dataset { vertices, adj, starts }
}

/// Where the right operand comes from.
#[derive(Debug, Clone, Copy, PartialEq, Eq)]
pub enum Right {
    /// no operand (`is_null`, `is_not_null`)
    None,
    Var,
    /// tag of property #i of `matrix_props`, on the same vertex
    TagLocal(usize),
    /// … on the root vertex, the filter on its `e0` neighbour
    TagEarlier(usize),
    /// … on the root vertex, the filter inside `e0 @fold`
    TagImported(usize),
}

impl Right {
    fn tag_prop(self) -> Option<usize> {
        match self {
            Right::TagLocal(i) | Right::TagEarlier(i) | Right::TagImported(i) => Some(i),
            _ => None,
        }
    }
    pub fn kind(self) -> &'static str {
        match self {
            Right::None => "unary",
            Right::Var => "var",
            _ => "tag",
        }
    }
}

/// One cell of the matrix.
#[derive(Debug, Clone, Copy)]
pub struct Cell {
    pub op: Op,
    /// index into `matrix_props`
    pub left: usize,
    pub right: Right,
}

/// Is the left operand admissible for `op` by the generator's rules (the rules of `gen_filter`, with
/// ordering on list operands counted as admissible because the frontend accepts it: F-5)?
fn left_ok(op: Op, l: &Ty) -> bool {
    use Op::*;
    match op {
        IsNull | IsNotNull => l.is_nullable(),
        Eq | Neq | OneOf | NotOneOf => true,
        Lt | Le | Gt | Ge => matches!(l.base.as_str(), "Int" | "Float" | "String"),
        Contains | NotContains => l.is_list(),
        _ => !l.is_list() && l.base == "String",
    }
}

/// Is the cell well-typed by the generator's rules? (nullability is ignored throughout)
pub fn well_typed(cell: &Cell) -> bool {
    use Op::*;
    let props = matrix_props();
    let l = &props[cell.left].1;
    if !left_ok(cell.op, l) {
        return false;
    }
    let Some(r) = cell.right.tag_prop().map(|i| &props[i].1) else { return true };
    match cell.op {
        IsNull | IsNotNull => true,
        Eq | Neq | Lt | Le | Gt | Ge => r.eqn(l),
        Contains | NotContains => l.elem().is_some_and(|e| r.eqn(&e)),
        OneOf | NotOneOf => r.elem().is_some_and(|e| e.eqn(l)),
        _ => !r.is_list() && r.base == "String",
    }
}

/// The type the frontend infers for a variable operand (what the argument value is generated for);
/// for an inadmissible left operand any value will do (the query is rejected before arguments matter).
fn var_ty(op: Op, l: &Ty) -> Ty {
    use Op::*;
    match op {
        Eq | Neq => l.clone(),
        Lt | Le | Gt | Ge => l.with_nullable(false),
        Contains | NotContains => l.elem().unwrap_or_else(|| Ty::named("String", false)),
        OneOf | NotOneOf => l.list_of(false),
        _ => Ty::named("String", false),
    }
}

/// The query of one cell.
pub fn mx_query(rng: &mut Rng, cell: &Cell) -> GenQuery {
    let props = matrix_props();
    let (lname, lty) = &props[cell.left];
    let mut features: BTreeSet<String> = BTreeSet::new();
    features.insert(FEATURE.to_string());
    features.insert(format!("op:{}", cell.op.proto()));
    if lty.is_list() && matches!(cell.op, Op::Lt | Op::Le | Op::Gt | Op::Ge) {
        features.insert("list-ordering".to_string());
        features.insert("list-ordering-used".to_string());
    }
    let mut args = BTreeMap::new();
    let out = |n: usize| Dir::Output(format!("o{n}"));
    let id_out = |n: usize| Field::Prop { name: "id".to_string(), dirs: vec![out(n)] };
    let arg = match cell.right {
        Right::None => Arg::None,
        Right::Var => {
            args.insert("v2".to_string(), mx_value(rng, &var_ty(cell.op, lty), false));
            Arg::Var("v2".to_string())
        }
        _ => Arg::Tag("t2".to_string()),
    };
    let mut fdirs = vec![Dir::Filter(cell.op, arg)];
    if rng.chance(1, 2) {
        fdirs.push(out(3));
    }
    let filtered = Field::Prop { name: lname.clone(), dirs: fdirs };
    let tagged = |i: usize| Field::Prop { name: props[i].0.clone(), dirs: vec![Dir::Tag("t2".to_string())] };
    let edge = |kind: Kind, fields: Vec<Field>| Field::Edge {
        name: "e0".to_string(),
        params: vec![],
        kind,
        node: Node { coerce_to: None, fields },
    };
    let fields = match cell.right {
        Right::None | Right::Var => vec![id_out(0), filtered],
        Right::TagLocal(i) => {
            features.insert("tag-local".to_string());
            vec![id_out(0), tagged(i), filtered]
        }
        Right::TagEarlier(i) => {
            features.insert("tag-earlier".to_string());
            vec![id_out(0), tagged(i), edge(Kind::Plain, vec![id_out(1), filtered])]
        }
        Right::TagImported(i) => {
            for f in ["tag-import", "fold", "output-in-fold"] {
                features.insert(f.to_string());
            }
            vec![id_out(0), tagged(i), edge(Kind::Fold(vec![]), vec![id_out(1), filtered])]
        }
    };
    let query = Query { root: "RT0".to_string(), root_params: vec![], node: Node { coerce_to: None, fields } };
    let text = query.to_graphql();
    GenQuery { query, text, args, features }
}

/// All cells of one world: every operator × left property × {variable, tag of every property}; the
/// placement of the tag is `placement(op index, left, right)` ∈ 0..3 (same vertex / earlier vertex /
/// imported into a fold), so that three worlds with rotated placements cover the full cube.
pub fn mx_cells(rotation: usize) -> Vec<Cell> {
    let n = matrix_props().len();
    let mut out = vec![];
    for op in [Op::IsNull, Op::IsNotNull] {
        for left in 0..n {
            out.push(Cell { op, left, right: Right::None });
        }
    }
    for (oi, op) in BINARY_OPS.iter().enumerate() {
        for left in 0..n {
            out.push(Cell { op: *op, left, right: Right::Var });
            for r in 0..n {
                let right = match (oi + left + r + rotation) % 3 {
                    0 => Right::TagLocal(r),
                    1 => Right::TagEarlier(r),
                    _ => Right::TagImported(r),
                };
                out.push(Cell { op: *op, left, right });
            }
        }
    }
    out
}
