//! The generator's own query AST ("Query tree" of ENGINE_PROTOCOL.md), its GraphQL text, its protocol
//! text, and a type-directed random generator over a `GenSchema`.
use std::collections::{BTreeMap, BTreeSet};

use trustfall_core::ir::FieldValue;

use super::data_gen::{gen_value, regex_pool, string_pool};
use super::schema_gen::{EdgeDef, GenSchema};
use super::{Ty, graphql_literal, params_sexp};
use tfharness::rng::Rng;
use tfharness::sexp::Sexp;

#[derive(Debug, Clone, Copy, PartialEq, Eq, PartialOrd, Ord)]
pub enum Op {
    IsNull,
    IsNotNull,
    Eq,
    Neq,
    Lt,
    Le,
    Gt,
    Ge,
    Contains,
    NotContains,
    OneOf,
    NotOneOf,
    HasPrefix,
    NotHasPrefix,
    HasSuffix,
    NotHasSuffix,
    HasSubstring,
    NotHasSubstring,
    Regex,
    NotRegex,
}

impl Op {
    /// name in the protocol
    pub fn proto(self) -> &'static str {
        use Op::*;
        match self {
            IsNull => "is_null",
            IsNotNull => "is_not_null",
            Eq => "eq",
            Neq => "neq",
            Lt => "lt",
            Le => "le",
            Gt => "gt",
            Ge => "ge",
            Contains => "contains",
            NotContains => "not_contains",
            OneOf => "one_of",
            NotOneOf => "not_one_of",
            HasPrefix => "has_prefix",
            NotHasPrefix => "not_has_prefix",
            HasSuffix => "has_suffix",
            NotHasSuffix => "not_has_suffix",
            HasSubstring => "has_substring",
            NotHasSubstring => "not_has_substring",
            Regex => "regex",
            NotRegex => "not_regex",
        }
    }
    /// name in query text
    pub fn gql(self) -> &'static str {
        use Op::*;
        match self {
            Eq => "=",
            Neq => "!=",
            Lt => "<",
            Le => "<=",
            Gt => ">",
            Ge => ">=",
            other => other.proto(),
        }
    }
    pub fn is_unary(self) -> bool {
        matches!(self, Op::IsNull | Op::IsNotNull)
    }
}

#[derive(Debug, Clone, PartialEq)]
pub enum Arg {
    Var(String),
    Tag(String),
    None,
}

#[derive(Debug, Clone, PartialEq)]
pub enum Dir {
    Filter(Op, Arg),
    Tag(String),
    Output(String),
}

#[derive(Debug, Clone, PartialEq)]
pub enum FDir {
    CountOutput(String),
    CountTag(String),
    CountFilter(Op, Arg),
}

#[derive(Debug, Clone, PartialEq)]
pub enum Kind {
    Plain,
    Optional,
    Recurse(u32),
    Fold(Vec<FDir>),
}

#[derive(Debug, Clone, PartialEq)]
pub enum Field {
    Prop { name: String, dirs: Vec<Dir> },
    /// `params`: only the explicitly written parameters
    Edge { name: String, params: Vec<(String, FieldValue)>, kind: Kind, node: Node },
}

#[derive(Debug, Clone, PartialEq)]
pub struct Node {
    pub coerce_to: Option<String>,
    pub fields: Vec<Field>,
}

#[derive(Debug, Clone, PartialEq)]
pub struct Query {
    pub root: String,
    pub root_params: Vec<(String, FieldValue)>,
    pub node: Node,
}

// ------------------------------------------------------------------------------------------------
// text renderings

fn arg_text(a: &Arg) -> String {
    match a {
        Arg::Var(v) => format!(", value: [\"${v}\"]"),
        Arg::Tag(t) => format!(", value: [\"%{t}\"]"),
        Arg::None => String::new(),
    }
}

fn filter_text(op: Op, arg: &Arg) -> String {
    format!("@filter(op: \"{}\"{})", op.gql(), arg_text(arg))
}

fn params_text(params: &[(String, FieldValue)]) -> String {
    if params.is_empty() {
        String::new()
    } else {
        format!("({})", params.iter().map(|(k, v)| format!("{k}: {}", graphql_literal(v))).collect::<Vec<_>>().join(", "))
    }
}

fn node_text(n: &Node, out: &mut String) {
    out.push_str("{ ");
    if let Some(c) = &n.coerce_to {
        out.push_str(&format!("... on {c} {{ "));
    }
    for f in &n.fields {
        match f {
            Field::Prop { name, dirs } => {
                out.push_str(name);
                for d in dirs {
                    out.push(' ');
                    match d {
                        Dir::Filter(op, arg) => out.push_str(&filter_text(*op, arg)),
                        Dir::Tag(t) => out.push_str(&format!("@tag(name: \"{t}\")")),
                        Dir::Output(o) => out.push_str(&format!("@output(name: \"{o}\")")),
                    }
                }
                out.push(' ');
            }
            Field::Edge { name, params, kind, node } => {
                out.push_str(name);
                out.push_str(&params_text(params));
                match kind {
                    Kind::Plain => {}
                    Kind::Optional => out.push_str(" @optional"),
                    Kind::Recurse(d) => out.push_str(&format!(" @recurse(depth: {d})")),
                    Kind::Fold(fdirs) => {
                        out.push_str(" @fold");
                        if !fdirs.is_empty() {
                            out.push_str(" @transform(op: \"count\")");
                        }
                        for d in fdirs {
                            out.push(' ');
                            match d {
                                FDir::CountOutput(o) => out.push_str(&format!("@output(name: \"{o}\")")),
                                FDir::CountTag(t) => out.push_str(&format!("@tag(name: \"{t}\")")),
                                FDir::CountFilter(op, arg) => out.push_str(&filter_text(*op, arg)),
                            }
                        }
                    }
                }
                out.push(' ');
                node_text(node, out);
                out.push(' ');
            }
        }
    }
    if n.coerce_to.is_some() {
        out.push_str("} ");
    }
    out.push('}');
}

fn arg_sexp(a: &Arg) -> Sexp {
    match a {
        Arg::Var(v) => Sexp::call("var", vec![Sexp::atom(v.clone())]),
        Arg::Tag(t) => Sexp::call("tag", vec![Sexp::atom(t.clone())]),
        Arg::None => Sexp::atom("-"),
    }
}

fn qparams_sexp(params: &[(String, FieldValue)]) -> Sexp {
    params_sexp(params.iter().map(|(k, v)| (k.as_str(), v)))
}

fn node_sexp(n: &Node) -> Sexp {
    use super::atom as a;
    let mut v = vec![n.coerce_to.clone().map(a).unwrap_or_else(|| a("-"))];
    for f in &n.fields {
        v.push(match f {
            Field::Prop { name, dirs } => {
                let mut l = vec![a(name.clone())];
                l.extend(dirs.iter().map(|d| match d {
                    Dir::Filter(op, arg) => Sexp::call("filter", vec![a(op.proto()), arg_sexp(arg)]),
                    Dir::Tag(t) => Sexp::call("tag", vec![a(t.clone())]),
                    Dir::Output(o) => Sexp::call("output", vec![a(o.clone())]),
                }));
                Sexp::call("prop", l)
            }
            Field::Edge { name, params, kind, node } => {
                let k = match kind {
                    Kind::Plain => a("plain"),
                    Kind::Optional => a("optional"),
                    Kind::Recurse(d) => Sexp::call("recurse", vec![a(d.to_string())]),
                    Kind::Fold(fdirs) => Sexp::call(
                        "fold",
                        fdirs
                            .iter()
                            .map(|d| match d {
                                FDir::CountOutput(o) => Sexp::call("count-output", vec![a(o.clone())]),
                                FDir::CountTag(t) => Sexp::call("count-tag", vec![a(t.clone())]),
                                FDir::CountFilter(op, arg) => Sexp::call("count-filter", vec![a(op.proto()), arg_sexp(arg)]),
                            })
                            .collect(),
                    ),
                };
                Sexp::call("edge", vec![a(name.clone()), qparams_sexp(params), k, node_sexp(node)])
            }
        });
    }
    Sexp::call("node", v)
}

impl Query {
    pub fn to_graphql(&self) -> String {
        let mut out = String::from("{ ");
        out.push_str(&self.root);
        out.push_str(&params_text(&self.root_params));
        out.push(' ');
        node_text(&self.node, &mut out);
        out.push_str(" }");
        out
    }
    pub fn to_sexp(&self) -> Sexp {
        Sexp::call("q", vec![Sexp::atom(self.root.clone()), qparams_sexp(&self.root_params), node_sexp(&self.node)])
    }
}

// ------------------------------------------------------------------------------------------------
// generator

/// Distribution knobs of the query generator. Probabilities are `(num, den)` pairs.
#[derive(Debug, Clone)]
pub struct QueryKnobs {
    pub max_depth: usize,
    /// budget of vertices (edges + root) per query
    pub max_vertices: u32,
    pub p_coerce: (u32, u32),
    /// relative weights of plain / optional / fold / recurse edges
    pub w_plain: u32,
    pub w_optional: u32,
    pub w_fold: u32,
    pub w_recurse: u32,
    /// `@recurse` on an edge where the schema does not permit it (frontend must reject)
    pub p_bad_recurse: (u32, u32),
    pub p_output: (u32, u32),
    /// a filter on a property outside folds (such filters remove rows) / inside folds (they shrink lists)
    pub p_filter: (u32, u32),
    pub p_filter_in_fold: (u32, u32),
    /// a tag operand instead of a variable, when a compatible tag site is in scope
    pub p_tag_operand: (u32, u32),
    /// the same inside folds (imported tags)
    pub p_tag_operand_in_fold: (u32, u32),
    pub p_reuse_var: (u32, u32),
    /// a fold-count filter and a property filter share one variable (types equal up to nullability);
    /// off by default, so that the other groups' random streams are unchanged (C11 turns it on)
    pub p_cross_hint_reuse: (u32, u32),
    pub p_typename: (u32, u32),
    pub p_count_output: (u32, u32),
    pub p_count_filter: (u32, u32),
    /// known-defect triggers (F-4, F-5): rare in C01's setting, frequent in C09's
    pub p_invalid_regex: (u32, u32),
    pub p_list_ordering: (u32, u32),
    /// formerly defect triggers (F-9, F-10; repaired in the engine), now ordinary shapes: a count
    /// filter on a fold inside an @optional scope / the same tag used again inside one fold
    pub p_count_filter_in_optional: (u32, u32),
    pub p_dup_import: (u32, u32),
}

impl Default for QueryKnobs {
    fn default() -> Self {
        QueryKnobs {
            max_depth: 4,
            max_vertices: 7,
            p_coerce: (1, 3),
            w_plain: 8,
            w_optional: 5,
            w_fold: 6,
            w_recurse: 3,
            p_bad_recurse: (1, 60),
            p_output: (3, 5),
            p_filter: (1, 4),
            p_filter_in_fold: (3, 5),
            p_tag_operand: (1, 2),
            p_tag_operand_in_fold: (3, 4),
            p_reuse_var: (1, 6),
            p_cross_hint_reuse: (0, 1),
            p_typename: (1, 14),
            p_count_output: (2, 5),
            p_count_filter: (2, 5),
            p_invalid_regex: (1, 40),
            p_list_ordering: (1, 60),
            p_count_filter_in_optional: (1, 4),
            p_dup_import: (1, 4),
        }
    }
}

impl QueryKnobs {
    /// Wider setting for C09: the known-defect triggers are frequent.
    pub fn wide() -> Self {
        QueryKnobs {
            p_invalid_regex: (1, 3),
            p_list_ordering: (1, 3),
            p_count_filter_in_optional: (1, 1),
            p_dup_import: (1, 1),
            ..Default::default()
        }
    }
    /// No known-defect trigger is ever generated (count filters under @optional and repeated tag
    /// uses inside a fold are ordinary shapes since the repairs of F-9 and F-10).
    pub fn clean() -> Self {
        QueryKnobs { p_invalid_regex: (0, 1), p_list_ordering: (0, 1), ..Default::default() }
    }
}

#[derive(Debug, Clone, PartialEq)]
enum VarHint {
    /// values like those of this property
    Prop(String),
    TypeName,
    Regex,
    StrPart,
    Count,
}

#[derive(Debug, Clone)]
struct VarInfo {
    name: String,
    ty: Ty,
    hint: VarHint,
}

/// A property occurrence (or a fold) that a later filter can refer to by a tag.
#[derive(Debug, Clone)]
struct Site {
    id: usize,
    /// component path of the DEFINING component (fold-root vids from the root component down)
    path: Vec<u32>,
    /// `defined_at`: the vertex (for folds: the fold's root vertex)
    vid: u32,
    /// property name, or `None` for a fold count
    field: Option<String>,
    ty: Ty,
    in_optional: bool,
    tag: Option<String>,
}

#[derive(Debug, Clone)]
struct Scope {
    path: Vec<u32>,
    vid: u32,
    /// the vertex may be missing (an `@optional` edge above it in the same component)
    in_optional: bool,
    depth: usize,
}

/// A generated query with everything the properties need.
#[derive(Debug, Clone)]
pub struct GenQuery {
    pub query: Query,
    pub text: String,
    pub args: BTreeMap<String, FieldValue>,
    /// feature labels (`opt`, `fold`, `nested-fold`, `recurse`, `coerce`, `tag-local`, `tag-import`,
    /// `count-filter`, `count-tag`, `op:<name>` …)
    pub features: BTreeSet<String>,
}

struct Gen<'a> {
    schema: &'a GenSchema,
    rng: &'a mut Rng,
    knobs: &'a QueryKnobs,
    next_vid: u32,
    next_name: usize,
    next_site: usize,
    vars: Vec<VarInfo>,
    sites: Vec<Site>,
    /// (importing fold root vid, site id) pairs already imported (F-10 avoidance)
    imports: BTreeSet<(u32, usize)>,
    n_outputs: usize,
    features: BTreeSet<String>,
}

fn chance(rng: &mut Rng, p: (u32, u32)) -> bool {
    p.0 > 0 && rng.chance(p.0, p.1)
}

fn is_prefix(a: &[u32], b: &[u32]) -> bool {
    a.len() <= b.len() && a == &b[..a.len()]
}

impl<'a> Gen<'a> {
    fn fresh(&mut self, prefix: &str) -> String {
        let n = self.next_name;
        self.next_name += 1;
        format!("{prefix}{n}")
    }

    fn feat(&mut self, f: &str) {
        self.features.insert(f.to_string());
    }

    fn var_for(&mut self, need: Ty, hint: VarHint) -> String {
        if matches!(hint, VarHint::Count | VarHint::Prop(_)) && chance(self.rng, self.knobs.p_cross_hint_reuse) {
            let cands: Vec<usize> = self
                .vars
                .iter()
                .enumerate()
                .filter(|(_, v)| matches!(v.hint, VarHint::Count | VarHint::Prop(_)) && v.hint != hint && v.ty.eqn(&need))
                .map(|(i, _)| i)
                .collect();
            if !cands.is_empty() {
                let i = cands[self.rng.below(cands.len())];
                if let Some(t) = self.vars[i].ty.intersect(&need) {
                    self.vars[i].ty = t;
                    self.feat("var-reused");
                    self.feat("var-reused-count-and-prop");
                    return self.vars[i].name.clone();
                }
            }
        }
        if chance(self.rng, self.knobs.p_reuse_var) {
            let cands: Vec<usize> =
                self.vars.iter().enumerate().filter(|(_, v)| v.hint == hint && v.ty.eqn(&need)).map(|(i, _)| i).collect();
            if !cands.is_empty() {
                let i = cands[self.rng.below(cands.len())];
                let t = self.vars[i].ty.intersect(&need).unwrap();
                self.vars[i].ty = t;
                self.feat("var-reused");
                return self.vars[i].name.clone();
            }
        }
        let name = self.fresh("v");
        self.vars.push(VarInfo { name: name.clone(), ty: need, hint });
        name
    }

    /// Tag sites visible from `sc` whose type satisfies `pred`.
    fn visible_sites(&self, sc: &Scope, pred: &dyn Fn(&Ty) -> bool, allow_dup: bool, exclude: Option<usize>) -> Vec<usize> {
        self.sites
            .iter()
            .enumerate()
            .filter(|(_, s)| {
                if Some(s.id) == exclude || !pred(&s.ty) || !is_prefix(&s.path, &sc.path) {
                    return false;
                }
                if s.path.len() == sc.path.len() {
                    s.vid <= sc.vid
                } else {
                    // imported into the fold directly below the defining component
                    allow_dup || !self.imports.contains(&(sc.path[s.path.len()], self.import_key(s)))
                }
            })
            .map(|(i, _)| i)
            .collect()
    }

    /// Two sites with the same (vertex, field) produce the same `FieldRef`.
    fn import_key(&self, s: &Site) -> usize {
        self.sites.iter().find(|o| o.vid == s.vid && o.field == s.field && o.path == s.path).map(|o| o.id).unwrap_or(s.id)
    }

    fn use_site(&mut self, idx: usize, sc: &Scope) -> Arg {
        if self.sites[idx].tag.is_none() {
            let t = self.fresh("t");
            self.sites[idx].tag = Some(t);
        }
        let s = self.sites[idx].clone();
        let is_count = s.field.is_none();
        if s.path.len() < sc.path.len() {
            let key = (sc.path[s.path.len()], self.import_key(&s));
            if !self.imports.insert(key) {
                self.feat("dup-import");
            }
            self.feat(if is_count { "count-tag-import" } else { "tag-import" });
            if sc.path.len() - s.path.len() >= 2 {
                self.feat("tag-import-nested");
            }
        } else if is_count {
            self.feat("count-tag-same-comp");
        } else if s.vid == sc.vid {
            self.feat("tag-local");
        } else {
            self.feat("tag-earlier");
        }
        if is_count {
            self.feat("count-tag");
        }
        if s.in_optional {
            self.feat("tag-from-opt");
        }
        Arg::Tag(s.tag.unwrap())
    }

    /// A filter on a left operand of type `l` (`prop` = property name or `None` for a fold count).
    /// `own` = the site of the filtered field itself (a filter against its own tag is mostly trivial, so rare).
    fn gen_filter(&mut self, sc: &Scope, prop: Option<&str>, l: &Ty, own: Option<usize>) -> (Op, Arg) {
        use Op::*;
        let is_count = prop.is_none();
        let mut cats: Vec<&[Op]> = vec![&[Eq, Neq], &[Eq, Neq], &[OneOf, NotOneOf]];
        if l.is_nullable() {
            cats.push(&[IsNull, IsNotNull]);
        }
        let orderable = matches!(l.base.as_str(), "Int" | "Float" | "String");
        if orderable && (!l.is_list() || chance(self.rng, self.knobs.p_list_ordering)) {
            cats.push(&[Lt, Le, Gt, Ge]);
            cats.push(&[Lt, Le, Gt, Ge]);
            if l.is_list() {
                self.feat("list-ordering");
            }
        }
        if l.is_list() {
            cats.push(&[Contains, NotContains]);
            cats.push(&[Contains, NotContains]);
        }
        if !l.is_list() && l.base == "String" {
            cats.push(&[HasPrefix, NotHasPrefix, HasSuffix, NotHasSuffix, HasSubstring, NotHasSubstring]);
            cats.push(&[HasPrefix, NotHasPrefix, HasSuffix, NotHasSuffix, HasSubstring, NotHasSubstring]);
            cats.push(&[Regex, NotRegex]);
            cats.push(&[Regex, NotRegex]);
        }
        let cat = cats[self.rng.below(cats.len())];
        let op = cat[self.rng.below(cat.len())];
        if l.is_list() && matches!(op, Lt | Le | Gt | Ge) {
            self.feat("list-ordering-used");
        }
        self.feat(&format!("op:{}", op.proto()));
        if is_count {
            self.feat(&format!("cf:{}", op.proto()));
        }
        if op.is_unary() {
            return (op, Arg::None);
        }
        // operand typing: what a tag must look like / what the variable's type will be inferred as
        let (tag_pred, var_ty): (Box<dyn Fn(&Ty) -> bool>, Ty) = match op {
            Eq | Neq => {
                let l2 = l.clone();
                (Box::new(move |t: &Ty| t.eqn(&l2)), l.clone())
            }
            Lt | Le | Gt | Ge => {
                let l2 = l.clone();
                (Box::new(move |t: &Ty| t.eqn(&l2)), l.with_nullable(false))
            }
            Contains | NotContains => {
                let e = l.elem().unwrap();
                let e2 = e.clone();
                (Box::new(move |t: &Ty| t.eqn(&e2)), e)
            }
            OneOf | NotOneOf => {
                let l2 = l.clone();
                (Box::new(move |t: &Ty| t.elem().is_some_and(|e| e.eqn(&l2))), l.list_of(false))
            }
            _ => (Box::new(|t: &Ty| !t.is_list() && t.base == "String"), Ty::named("String", false)),
        };
        let p_tag = if sc.path.len() > 1 { self.knobs.p_tag_operand_in_fold } else { self.knobs.p_tag_operand };
        if chance(self.rng, p_tag) {
            let allow_dup = chance(self.rng, self.knobs.p_dup_import);
            let exclude = if self.rng.chance(1, 5) { None } else { own };
            let cands = self.visible_sites(sc, &*tag_pred, allow_dup, exclude);
            if !cands.is_empty() {
                let idx = cands[self.rng.below(cands.len())];
                return (op, self.use_site(idx, sc));
            }
        }
        let hint = if is_count {
            VarHint::Count
        } else if matches!(op, Regex | NotRegex) {
            VarHint::Regex
        } else if prop == Some("__typename") {
            VarHint::TypeName
        } else if matches!(op, HasPrefix | NotHasPrefix | HasSuffix | NotHasSuffix | HasSubstring | NotHasSubstring) {
            VarHint::StrPart
        } else {
            VarHint::Prop(prop.unwrap().to_string())
        };
        (op, Arg::Var(self.var_for(var_ty, hint)))
    }

    fn gen_prop(&mut self, ty_name: &str, sc: &Scope) -> Field {
        let tdef = self.schema.ty(ty_name).unwrap();
        let (name, pty) = if tdef.props.is_empty() || chance(self.rng, self.knobs.p_typename) {
            self.feat("typename");
            ("__typename".to_string(), Ty::named("String", false))
        } else {
            tdef.props[self.rng.below(tdef.props.len())].clone()
        };
        let mut dirs = vec![];
        let p_filter = if sc.path.len() > 1 { self.knobs.p_filter_in_fold } else { self.knobs.p_filter };
        let n_filters = if chance(self.rng, p_filter) { 1 + usize::from(self.rng.chance(1, 5)) } else { 0 };
        let want_output = chance(self.rng, self.knobs.p_output) || n_filters == 0;
        let output_first = self.rng.chance(1, 2);
        if want_output && output_first {
            dirs.push(Dir::Output(self.fresh("o")));
            self.n_outputs += 1;
        }
        // the site exists before its own filters are generated: a filter may use the tag of its own field
        let id = self.next_site;
        self.next_site += 1;
        self.sites.push(Site {
            id,
            path: sc.path.clone(),
            vid: sc.vid,
            field: Some(name.clone()),
            ty: pty.clone(),
            in_optional: sc.in_optional,
            tag: None,
        });
        for _ in 0..n_filters {
            let (op, arg) = self.gen_filter(sc, Some(&name), &pty, Some(id));
            dirs.push(Dir::Filter(op, arg));
        }
        if want_output && !output_first {
            dirs.push(Dir::Output(self.fresh("o")));
            self.n_outputs += 1;
        }
        if sc.path.len() > 1 && dirs.iter().any(|d| matches!(d, Dir::Output(_))) {
            self.feat(if sc.path.len() > 2 { "output-in-nested-fold" } else { "output-in-fold" });
        }
        // marker replaced by the real tag directive (if the site got used) in `attach_tags`
        dirs.push(Dir::Tag(format!("#{id}")));
        Field::Prop { name, dirs }
    }

    fn gen_params(&mut self, e: &EdgeDef) -> Vec<(String, FieldValue)> {
        let mut out = vec![];
        for p in &e.params {
            let must = p.default.is_none() && !p.ty.is_nullable();
            if must || self.rng.chance(1, 2) {
                let v = if p.ty.is_nullable() && self.rng.chance(1, 5) {
                    FieldValue::Null
                } else {
                    FieldValue::Int64(self.rng.below(5) as i64 - 1)
                };
                out.push((p.name.clone(), v));
                self.feat("param-explicit");
            } else {
                self.feat("param-defaulted");
            }
        }
        out
    }

    fn gen_edge(&mut self, from_ty: &str, sc: &Scope) -> Option<Field> {
        let tdef = self.schema.ty(from_ty).unwrap();
        if tdef.edges.is_empty() || self.next_vid > self.knobs.max_vertices {
            return None;
        }
        let e = tdef.edges[self.rng.below(tdef.edges.len())].clone();
        let k = self.knobs;
        let can_recurse = self.schema.is_subtype(from_ty, &e.target);
        let w_rec = if can_recurse {
            k.w_recurse * 2
        } else if chance(self.rng, k.p_bad_recurse) {
            1000
        } else {
            0
        };
        let total = k.w_plain + k.w_optional + k.w_fold + w_rec;
        let r = self.rng.below(total as usize) as u32;
        let vid = self.next_vid;
        self.next_vid += 1;
        let params = self.gen_params(&e);
        let mut child = Scope { path: sc.path.clone(), vid, in_optional: sc.in_optional, depth: sc.depth + 1 };
        if r < k.w_plain {
            let node = self.gen_node(&e.target, &child);
            Some(Field::Edge { name: e.name, params, kind: Kind::Plain, node })
        } else if r < k.w_plain + k.w_optional {
            self.feat("opt");
            child.in_optional = true;
            let node = self.gen_node(&e.target, &child);
            Some(Field::Edge { name: e.name, params, kind: Kind::Optional, node })
        } else if r < k.w_plain + k.w_optional + k.w_fold {
            self.feat("fold");
            if sc.path.len() > 1 {
                self.feat("nested-fold");
            }
            if sc.in_optional {
                self.feat("fold-in-opt");
            }
            child.path.push(vid);
            child.in_optional = false;
            let node = self.gen_node(&e.target, &child);
            let mut fdirs = vec![];
            // count filters are evaluated with the PARENT's component path at the fold's root vid
            let fsc = Scope { path: sc.path.clone(), vid, in_optional: sc.in_optional, depth: sc.depth };
            let n_parts = 3;
            let mut order: Vec<usize> = (0..n_parts).collect();
            for i in (1..order.len()).rev() {
                order.swap(i, self.rng.below(i + 1));
            }
            let id = self.next_site;
            self.next_site += 1;
            for part in order {
                match part {
                    0 => {
                        if chance(self.rng, k.p_count_output) {
                            fdirs.push(FDir::CountOutput(self.fresh("o")));
                            self.n_outputs += 1;
                            self.feat("count-output");
                        }
                    }
                    1 => {
                        let allowed = !sc.in_optional || chance(self.rng, k.p_count_filter_in_optional);
                        if allowed && chance(self.rng, k.p_count_filter) {
                            let n = 1 + usize::from(self.rng.chance(1, 4));
                            for _ in 0..n {
                                let (op, arg) = self.gen_filter(&fsc, None, &Ty::named("Int", false), None);
                                fdirs.push(FDir::CountFilter(op, arg));
                            }
                            self.feat("count-filter");
                            if sc.in_optional {
                                self.feat("count-filter-in-opt");
                            }
                        }
                    }
                    _ => fdirs.push(FDir::CountTag(format!("#{id}"))),
                }
            }
            // the count becomes taggable only now (inside the fold and in its own filters it is undefined)
            self.sites.push(Site {
                id,
                path: sc.path.clone(),
                vid,
                field: None,
                ty: Ty::named("Int", false),
                in_optional: sc.in_optional,
                tag: None,
            });
            Some(Field::Edge { name: e.name, params, kind: Kind::Fold(fdirs), node })
        } else {
            self.feat(if can_recurse { "recurse" } else { "bad-recurse" });
            let depth = 1 + self.rng.below(3) as u32;
            self.feat(&format!("recurse-depth-{depth}"));
            if from_ty != e.target && can_recurse {
                self.feat(if self.schema.edge(&e.target, &e.name).is_some() { "recurse-4a" } else { "recurse-implicit-coercion" });
            }
            let node = self.gen_node(&e.target, &child);
            Some(Field::Edge { name: e.name, params, kind: Kind::Recurse(depth), node })
        }
    }

    fn gen_node(&mut self, ty_name: &str, sc: &Scope) -> Node {
        let tdef = self.schema.ty(ty_name).unwrap();
        let mut eff = ty_name.to_string();
        let mut coerce_to = None;
        if tdef.is_iface && chance(self.rng, self.knobs.p_coerce) {
            let subs = self.schema.strict_subtypes(ty_name);
            if !subs.is_empty() {
                let s = subs[self.rng.below(subs.len())].name.clone();
                coerce_to = Some(s.clone());
                eff = s;
                self.feat("coerce");
            }
        }
        let budget_left = self.knobs.max_vertices.saturating_sub(self.next_vid - 1);
        let max_edges = if sc.depth >= self.knobs.max_depth || budget_left == 0 {
            0
        } else if sc.depth == 0 {
            3
        } else {
            2
        };
        let mut n_edges = if max_edges == 0 {
            0
        } else if sc.depth == 0 {
            1 + self.rng.below(max_edges)
        } else {
            self.rng.below(max_edges + 1)
        };
        if self.schema.ty(&eff).unwrap().edges.is_empty() {
            n_edges = 0;
        }
        let mut n_props = match self.rng.below(6) {
            0 => 0,
            1 | 2 | 3 => 1,
            4 => 2,
            _ => 3,
        };
        if n_props + n_edges == 0 {
            n_props = 1;
        }
        let mut slots: Vec<bool> = std::iter::repeat_n(true, n_props).chain(std::iter::repeat_n(false, n_edges)).collect();
        for i in (1..slots.len()).rev() {
            slots.swap(i, self.rng.below(i + 1));
        }
        let mut fields = vec![];
        for is_prop in slots {
            if is_prop {
                fields.push(self.gen_prop(&eff, sc));
            } else if let Some(f) = self.gen_edge(&eff, sc) {
                fields.push(f);
            }
        }
        if fields.is_empty() {
            fields.push(self.gen_prop(&eff, sc));
        }
        Node { coerce_to, fields }
    }

    fn gen_scalar(&mut self, base_ty: &Ty, hint: &VarHint) -> FieldValue {
        match hint {
            VarHint::Prop(p) => gen_value(self.rng, &base_ty.with_nullable(false), p),
            VarHint::TypeName => {
                let n = self.schema.types.len();
                FieldValue::from(self.schema.types[self.rng.below(n)].name.as_str())
            }
            VarHint::Regex => {
                let (valid, invalid) = regex_pool();
                if chance(self.rng, self.knobs.p_invalid_regex) {
                    self.feat("invalid-regex");
                    FieldValue::from(*self.rng.pick(&invalid))
                } else {
                    FieldValue::from(*self.rng.pick(&valid))
                }
            }
            VarHint::StrPart => FieldValue::from(*self.rng.pick(&string_pool())),
            VarHint::Count => match self.rng.below(12) {
                0 => FieldValue::Int64(i64::MIN),
                1 => FieldValue::Int64(-1),
                2 => FieldValue::Uint64(1 << 63),
                3 | 4 => FieldValue::Int64(0),
                5 | 6 => FieldValue::Int64(1),
                7 => FieldValue::Uint64(1),
                8 | 9 => FieldValue::Int64(2),
                10 => FieldValue::Uint64(2),
                _ => FieldValue::Int64(3),
            },
        }
    }

    fn gen_arg(&mut self, ty: &Ty, hint: &VarHint) -> FieldValue {
        if ty.is_nullable() && self.rng.chance(1, 6) {
            return FieldValue::Null;
        }
        match ty.elem() {
            Some(elem) => {
                let n = self.rng.below(4);
                FieldValue::List((0..n).map(|_| self.gen_arg(&elem, hint)).collect::<Vec<_>>().into())
            }
            None => self.gen_scalar(ty, hint),
        }
    }
}

/// Replace the `#<site id>` markers by real tag directives (for used sites) or drop them.
fn attach_tags(n: &mut Node, tags: &BTreeMap<usize, String>, rng: &mut Rng) {
    for f in &mut n.fields {
        match f {
            Field::Prop { dirs, .. } => {
                let marker = dirs.iter().position(|d| matches!(d, Dir::Tag(t) if t.starts_with('#')));
                if let Some(i) = marker {
                    let Dir::Tag(m) = dirs.remove(i) else { unreachable!() };
                    let id: usize = m[1..].parse().unwrap();
                    if let Some(t) = tags.get(&id) {
                        let pos = rng.below(dirs.len() + 1);
                        dirs.insert(pos, Dir::Tag(t.clone()));
                    }
                }
            }
            Field::Edge { kind, node, .. } => {
                if let Kind::Fold(fdirs) = kind {
                    let marker = fdirs.iter().position(|d| matches!(d, FDir::CountTag(t) if t.starts_with('#')));
                    if let Some(i) = marker {
                        let FDir::CountTag(m) = fdirs[i].clone() else { unreachable!() };
                        let id: usize = m[1..].parse().unwrap();
                        match tags.get(&id) {
                            Some(t) => fdirs[i] = FDir::CountTag(t.clone()),
                            None => {
                                fdirs.remove(i);
                            }
                        }
                    }
                }
                attach_tags(node, tags, rng);
            }
        }
    }
}

/// Generate one query (tree, text, arguments, feature labels) over `schema`.
pub fn gen_query(rng: &mut Rng, schema: &GenSchema, knobs: &QueryKnobs) -> GenQuery {
    let root = schema.roots[rng.below(schema.roots.len())].clone();
    let mut g = Gen {
        schema,
        rng,
        knobs,
        next_vid: 2,
        next_name: 0,
        next_site: 0,
        vars: vec![],
        sites: vec![],
        imports: BTreeSet::new(),
        n_outputs: 0,
        features: BTreeSet::new(),
    };
    let root_params = g.gen_params(&root);
    let sc = Scope { path: vec![1], vid: 1, in_optional: false, depth: 0 };
    let mut node = g.gen_node(&root.target, &sc);
    if g.n_outputs == 0 {
        let name = if g.rng.chance(1, 2) && g.schema.prop_ty(node.coerce_to.as_deref().unwrap_or(&root.target), "id").is_some() {
            "id"
        } else {
            "__typename"
        };
        let o = g.fresh("o");
        node.fields.insert(0, Field::Prop { name: name.to_string(), dirs: vec![Dir::Output(o)] });
    }
    let tags: BTreeMap<usize, String> = g.sites.iter().filter_map(|s| s.tag.clone().map(|t| (s.id, t))).collect();
    attach_tags(&mut node, &tags, g.rng);
    let vars = g.vars.clone();
    let mut args = BTreeMap::new();
    for v in &vars {
        let val = g.gen_arg(&v.ty, &v.hint);
        args.insert(v.name.clone(), val);
    }
    let query = Query { root: root.name.clone(), root_params, node };
    let text = query.to_graphql();
    GenQuery { query, text, args, features: g.features }
}
