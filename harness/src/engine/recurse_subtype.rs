//! Directed world family "recurse-from-strict-subtype": `@recurse(depth >= 2)` over an edge that is
//! DECLARED ON AN INTERFACE `I1` and inherited by two implementors `T0`, `T1`, with the recursion
//! starting at a vertex whose static type is the implementor `T0` (entry point typed `T0`, or reached
//! through a coercion `... on T0`), and data in which the depth-1 neighbours of a `T0` vertex include
//! `T1` vertices (instances of the declaring interface but NOT of the starting type) that have
//! neighbours of their own.
//!
//! Variant A: the edge's target is the super-interface `I0` of `I1`, which lacks the edge, so the
//! frontend adds the implicit coercion `coerce_to = I1` (recursion case 4c) and deeper expansions must
//! name `I1` — not the starting type `T0` — in `resolve_coercion` / `resolve_neighbors`.
//! Variant B: the edge's target is the declaring interface `I1` itself (case 4a, no coercion).
//!
//! The random generators produce this combination too rarely: an adapter call that names the starting
//! type instead of the declaring type at depth >= 2 is then only visible to the contract oracle (C21)
//! when a vertex of the OTHER implementor is pulled through that call.
use std::collections::{BTreeMap, BTreeSet};

use trustfall_core::ir::FieldValue;

use super::Ty;
use super::data_gen::{Dataset, VertexData, string_pool};
use super::query_gen::{Arg, Dir, Field, GenQuery, Kind, Node, Op, Query};
use super::schema_gen::{EdgeDef, GenSchema, ParamDef, TypeDef};
use tfharness::rng::Rng;

/// Feature label of every query of this family (→ `nt:recurse-from-strict-subtype`).
pub const FEATURE: &str = "recurse-from-strict-subtype";

pub const N_TEMPLATES: usize = 8;

/// `interface I0 { id s }`, `interface I1 implements I0 { id s e0: [D] }` with `D = I0` (variant A) or
/// `D = I1` (variant B), `type T0 implements I1 & I0 { id s n e0 }`, `type T1 implements I1 & I0`,
/// `type T2 implements I0`; `e0` without parameter (1/2), `(k: Int)` or `(k: Int = 2)`;
/// roots `RT0`, `RT1`, `RI1`, `RI0`.
pub fn rs_schema(rng: &mut Rng, variant_b: bool) -> GenSchema {
    let list_ty = |rng: &mut Rng, target: &str| -> Ty {
        let t = |n: bool| Ty::named(target, n);
        match rng.below(4) {
            0 => t(false).list_of(false), // [T!]!
            1 => t(true).list_of(true),   // [T]
            2 => t(false).list_of(true),  // [T!]
            _ => t(true).list_of(false),  // [T]!
        }
    };
    let base: Vec<(String, Ty)> = vec![("id".to_string(), Ty::named("Int", false)), ("s".to_string(), Ty::named("String", true))];
    let mut t0_props = base.clone();
    t0_props.push(("n".to_string(), Ty::named("Int", true)));
    let target = if variant_b { "I1" } else { "I0" };
    let params = match rng.below(4) {
        0 => vec![ParamDef { name: "k".into(), ty: Ty::named("Int", true), default: None }],
        1 => vec![ParamDef { name: "k".into(), ty: Ty::named("Int", true), default: Some(FieldValue::Int64(2)) }],
        _ => vec![],
    };
    let e0 = EdgeDef { name: "e0".into(), target: target.into(), ty: list_ty(rng, target), params };
    let both = vec!["I1".to_string(), "I0".to_string()];
    let types = vec![
        TypeDef { name: "I0".into(), is_iface: true, supers: vec![], props: base.clone(), edges: vec![] },
        TypeDef { name: "I1".into(), is_iface: true, supers: vec!["I0".into()], props: base.clone(), edges: vec![e0.clone()] },
        TypeDef { name: "T0".into(), is_iface: false, supers: both.clone(), props: t0_props, edges: vec![e0.clone()] },
        TypeDef { name: "T1".into(), is_iface: false, supers: both, props: base.clone(), edges: vec![e0] },
        TypeDef { name: "T2".into(), is_iface: false, supers: vec!["I0".into()], props: base, edges: vec![] },
    ];
    let roots = ["T0", "T1", "I1", "I0"]
        .iter()
        .map(|t| EdgeDef { name: format!("R{t}"), target: t.to_string(), ty: list_ty(rng, t), params: vec![] })
        .collect();
    let schema = GenSchema { types, roots };
    let _ = schema.to_real();
    debug_assert_eq!(GenSchema::from_sexp(&schema.to_sexp()).as_ref(), Some(&schema));
    schema
}

/// 2..=4 `T0`, 2..=4 `T1`, 1..=3 `T2` vertices (ids in this order). `e0` of a `T0` vertex: (with
/// p = 7/8, first) one `T1` vertex, then 0..=2 random instances of the edge's target type; of a `T1`
/// vertex: 1..=3 random instances (none with p = 1/8). Starts: all instances in id order (`RI1`
/// sometimes reversed).
pub fn rs_dataset(rng: &mut Rng, schema: &GenSchema) -> Dataset {
    let n0 = 2 + rng.below(3);
    let n1 = 2 + rng.below(3);
    let n2 = 1 + rng.below(3);
    let n = n0 + n1 + n2;
    let strings = string_pool();
    let mut vertices = vec![];
    for i in 0..n {
        let ty = if i < n0 {
            "T0"
        } else if i < n0 + n1 {
            "T1"
        } else {
            "T2"
        };
        let props = schema
            .ty(ty)
            .unwrap()
            .props
            .iter()
            .map(|(name, _)| {
                let v = match name.as_str() {
                    "id" => FieldValue::Int64(i as i64),
                    "s" => {
                        if rng.chance(1, 6) { FieldValue::Null } else { FieldValue::from(*rng.pick(&strings)) }
                    }
                    "n" => {
                        if rng.chance(1, 5) { FieldValue::Null } else { FieldValue::Int64(rng.below(4) as i64 - 1) }
                    }
                    other => panic!("recurse-subtype schema has no property {other}"),
                };
                (name.clone(), v)
            })
            .collect();
        vertices.push(VertexData { id: i as u32, ty: ty.to_string(), props });
    }
    let t0s: Vec<u32> = (0..n0 as u32).collect();
    let t1s: Vec<u32> = (n0 as u32..(n0 + n1) as u32).collect();
    let i1s: Vec<u32> = (0..(n0 + n1) as u32).collect();
    let all: Vec<u32> = (0..n as u32).collect();
    let target = schema.edge("I1", "e0").unwrap().target.clone();
    let cands: &[u32] = if target == "I1" { &i1s } else { &all };
    let mut adj = BTreeMap::new();
    for v in &vertices {
        let nbrs: Vec<u32> = match v.ty.as_str() {
            "T0" => {
                let mut l = vec![];
                if rng.chance(7, 8) {
                    l.push(t1s[rng.below(t1s.len())]);
                }
                for _ in 0..rng.below(3) {
                    l.push(cands[rng.below(cands.len())]);
                }
                l
            }
            "T1" => {
                if rng.chance(1, 8) {
                    vec![]
                } else {
                    (0..1 + rng.below(3)).map(|_| cands[rng.below(cands.len())]).collect()
                }
            }
            _ => continue,
        };
        adj.insert((v.id, "e0".to_string()), nbrs);
    }
    let mut starts = BTreeMap::new();
    starts.insert("RT0".to_string(), t0s);
    starts.insert("RT1".to_string(), t1s);
    starts.insert("RI1".to_string(), if rng.chance(1, 6) { i1s.iter().rev().copied().collect() } else { i1s.clone() });
    starts.insert("RI0".to_string(), all);
    Dataset { vertices, adj, starts }
}

struct Names {
    next: usize,
    features: BTreeSet<String>,
    has_param: bool,
}

impl Names {
    fn fresh(&mut self, prefix: &str) -> String {
        let n = self.next;
        self.next += 1;
        format!("{prefix}{n}")
    }
    fn feat(&mut self, f: &str) {
        self.features.insert(f.to_string());
    }
    fn out_prop(&mut self, name: &str) -> Field {
        let o = self.fresh("o");
        Field::Prop { name: name.to_string(), dirs: vec![Dir::Output(o)] }
    }
    /// `e0[(k: …)] <kind> { [... on <coerce>] fields }`
    fn e0(&mut self, rng: &mut Rng, kind: Kind, coerce_to: Option<&str>, fields: Vec<Field>) -> Field {
        let mut params = vec![];
        if self.has_param {
            if rng.chance(1, 2) {
                let v = match rng.below(4) {
                    0 => FieldValue::Null,
                    k => FieldValue::Int64(k as i64),
                };
                params.push(("k".to_string(), v));
                self.feat("param-explicit");
            } else {
                self.feat("param-defaulted");
            }
        }
        if coerce_to.is_some() {
            self.feat("coerce");
        }
        Field::Edge { name: "e0".to_string(), params, kind, node: Node { coerce_to: coerce_to.map(str::to_string), fields } }
    }
    /// the recursion itself: `e0 @recurse(depth: 2 | 3) { … }` starting at a `T0`-typed vertex
    fn rec(&mut self, rng: &mut Rng, variant_b: bool, coerce_to: Option<&str>, fields: Vec<Field>) -> Field {
        let depth = 2 + rng.below(2) as u32;
        self.feat("recurse");
        self.feat(&format!("recurse-depth-{depth}"));
        self.feat(if variant_b { "recurse-4a" } else { "recurse-implicit-coercion" });
        self.e0(rng, Kind::Recurse(depth), coerce_to, fields)
    }
}

/// One query of the family. Templates: 0 entry point typed `T0`; 1 / 2 `T0` reached by a coercion from
/// `I1` / `I0`; 3 a coercion to the other implementor inside the recursed scope; 4 the recursion starts
/// at an inner vertex coerced to `T0`; 5 the same inside a `@fold`; 6 a filter (variable or tag of the
/// starting vertex) inside the recursed scope; 7 the same inside an `@optional` scope.
pub fn rs_query(rng: &mut Rng, schema: &GenSchema, template: usize) -> GenQuery {
    let e0 = schema.edge("I1", "e0").unwrap();
    let variant_b = e0.target == "I1";
    let mut nm = Names { next: 0, features: BTreeSet::new(), has_param: !e0.params.is_empty() };
    nm.feat(FEATURE);
    let mut args = BTreeMap::new();
    let mut root = "RT0";
    let mut coerce_to = None;
    let fields = match template % N_TEMPLATES {
        0 => {
            let inner = vec![nm.out_prop("id")];
            vec![nm.out_prop("id"), nm.rec(rng, variant_b, None, inner)]
        }
        t @ (1 | 2) => {
            root = if t == 1 { "RI1" } else { "RI0" };
            coerce_to = Some("T0".to_string());
            nm.feat("coerce");
            let inner = vec![nm.out_prop("id"), nm.out_prop("s")];
            vec![nm.out_prop("id"), nm.rec(rng, variant_b, None, inner)]
        }
        3 => {
            let inner = vec![nm.out_prop("id")];
            vec![nm.out_prop("id"), nm.rec(rng, variant_b, Some("T1"), inner)]
        }
        4 => {
            root = "RT1";
            let leaf = vec![nm.out_prop("id")];
            let mid = vec![nm.out_prop("id"), nm.rec(rng, variant_b, None, leaf)];
            vec![nm.out_prop("id"), nm.e0(rng, Kind::Plain, Some("T0"), mid)]
        }
        5 => {
            nm.feat("fold");
            nm.feat("output-in-fold");
            let leaf = vec![nm.out_prop("id")];
            let mid = vec![nm.out_prop("id"), nm.rec(rng, variant_b, None, leaf)];
            vec![nm.out_prop("id"), nm.e0(rng, Kind::Fold(vec![]), Some("T0"), mid)]
        }
        6 => {
            if rng.chance(1, 2) {
                nm.feat("op:neq");
                let v = nm.fresh("v");
                args.insert(v.clone(), FieldValue::from(*rng.pick(&string_pool())));
                let o = nm.fresh("o");
                let s = Field::Prop { name: "s".to_string(), dirs: vec![Dir::Filter(Op::Neq, Arg::Var(v)), Dir::Output(o)] };
                let inner = vec![nm.out_prop("id"), s];
                vec![nm.out_prop("id"), nm.rec(rng, variant_b, None, inner)]
            } else {
                nm.feat("op:neq");
                nm.feat("tag-earlier");
                let tag = nm.fresh("t");
                let (o1, o2) = (nm.fresh("o"), nm.fresh("o"));
                let id = Field::Prop { name: "id".to_string(), dirs: vec![Dir::Output(o1), Dir::Tag(tag.clone())] };
                let inner_id = Field::Prop { name: "id".to_string(), dirs: vec![Dir::Output(o2), Dir::Filter(Op::Neq, Arg::Tag(tag))] };
                vec![id, nm.rec(rng, variant_b, None, vec![inner_id])]
            }
        }
        _ => {
            root = "RT1";
            nm.feat("opt");
            let leaf = vec![nm.out_prop("id")];
            let mid = vec![nm.out_prop("id"), nm.rec(rng, variant_b, None, leaf)];
            vec![nm.out_prop("id"), nm.e0(rng, Kind::Optional, Some("T0"), mid)]
        }
    };
    debug_assert!(schema.root(root).is_some());
    let query = Query { root: root.to_string(), root_params: vec![], node: Node { coerce_to, fields } };
    let text = query.to_graphql();
    GenQuery { query, text, args, features: nm.features }
}
