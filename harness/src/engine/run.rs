//! The one entry point every engine property uses to run the real implementation on a request.
use std::cell::RefCell;
use std::collections::BTreeMap;
use std::fmt::Debug;
use std::sync::Arc;

use trustfall_core::frontend::{self, error::FrontendError};
use trustfall_core::interpreter::error::QueryArgumentsError;
use trustfall_core::interpreter::{Adapter, execution::interpret_ir};
use trustfall_core::ir::{FieldValue, IndexedQuery};
use trustfall_core::schema::Schema;

use super::adapter::TableAdapter;
use super::data_gen::DataTable;
use super::ir_sexp::rows_to_sexp;
use super::schema_gen::GenSchema;
use tfharness::sexp::Sexp;

pub type Row = BTreeMap<Arc<str>, FieldValue>;

#[derive(Debug, Clone, PartialEq)]
pub enum Answer {
    Rows(Vec<Row>),
    /// sorted variant names
    FrontendErr(Vec<String>),
    /// sorted variant names
    ArgsErr(Vec<String>),
}

impl Answer {
    pub fn render(&self) -> String {
        match self {
            Answer::Rows(rows) => rows_to_sexp(rows).to_string(),
            Answer::FrontendErr(v) => format!("(err frontend {})", v.join(" ")),
            Answer::ArgsErr(v) => format!("(err args {})", v.join(" ")),
        }
    }
    pub fn rows(&self) -> Option<&[Row]> {
        if let Answer::Rows(r) = self { Some(r) } else { None }
    }
}

/// The leading identifier of a `Debug` rendering = the enum variant name.
fn variant_name(x: &impl Debug) -> String {
    format!("{x:?}").chars().take_while(|c| c.is_ascii_alphanumeric() || *c == '_').collect()
}

pub fn frontend_error_names(e: &FrontendError) -> Vec<String> {
    let mut v = match e {
        FrontendError::MultipleErrors(list) => list.0.iter().flat_map(frontend_error_names).collect(),
        other => vec![variant_name(other)],
    };
    v.sort();
    v
}

pub fn args_error_names(e: &QueryArgumentsError) -> Vec<String> {
    let mut v = match e {
        QueryArgumentsError::MultipleErrors(list) => list.0.iter().flat_map(args_error_names).collect(),
        other => vec![variant_name(other)],
    };
    v.sort();
    v
}

/// A schema rebuilt from its protocol text: the description and the real parsed schema.
#[derive(Clone)]
pub struct LoadedSchema {
    pub gen_schema: Arc<GenSchema>,
    pub real: Arc<Schema>,
}

thread_local! {
    static SCHEMA_CACHE: RefCell<Option<(String, LoadedSchema)>> = const { RefCell::new(None) };
}

/// `(schema …)` text → description + `Schema::parse(SDL)`. Memoised on the text (consecutive requests
/// share the schema); the result is a pure function of the text.
pub fn load_schema(schema_sexp: &Sexp) -> Option<LoadedSchema> {
    let key = schema_sexp.to_string();
    if let Some(hit) = SCHEMA_CACHE.with(|c| c.borrow().as_ref().filter(|(k, _)| *k == key).map(|(_, v)| v.clone())) {
        return Some(hit);
    }
    let g = GenSchema::from_sexp(schema_sexp)?;
    let real = Schema::parse(g.to_sdl()).ok()?;
    let loaded = LoadedSchema { gen_schema: Arc::new(g), real: Arc::new(real) };
    SCHEMA_CACHE.with(|c| *c.borrow_mut() = Some((key, loaded.clone())));
    Some(loaded)
}

pub fn compile(schema: &Schema, text: &str) -> Result<Arc<IndexedQuery>, Vec<String>> {
    frontend::parse(schema, text).map_err(|e| frontend_error_names(&e))
}

pub fn real_args(args: &BTreeMap<String, FieldValue>) -> Arc<BTreeMap<Arc<str>, FieldValue>> {
    Arc::new(args.iter().map(|(k, v)| (Arc::from(k.as_str()), v.clone())).collect())
}

/// `interpret_ir` over any adapter, all rows collected.
pub fn execute<A: Adapter<'static> + 'static>(
    adapter: Arc<A>,
    query: Arc<IndexedQuery>,
    args: &BTreeMap<String, FieldValue>,
) -> Answer {
    match interpret_ir(adapter, query, real_args(args)) {
        Err(e) => Answer::ArgsErr(args_error_names(&e)),
        Ok(rows) => Answer::Rows(rows.collect()),
    }
}

/// Everything of one request, ready to execute (so that properties can wrap the adapter).
pub struct Prepared {
    pub schema: LoadedSchema,
    pub table: DataTable,
    pub query: Result<Arc<IndexedQuery>, Vec<String>>,
}

impl Prepared {
    pub fn adapter(&self) -> TableAdapter {
        TableAdapter::new(&self.schema.gen_schema, self.table.clone())
    }
}

pub fn prepare(schema_sexp: &Sexp, data_sexp: &Sexp, query_text: &str) -> Option<Prepared> {
    let schema = load_schema(schema_sexp)?;
    let table = DataTable::from_sexp(data_sexp)?;
    let query = compile(&schema.real, query_text);
    Some(Prepared { schema, table, query })
}

/// Schema::parse(SDL) → frontend::parse → interpret_ir over the table adapter → all rows.
/// `None` = malformed request. Panics propagate (the framework's `guarded` turns them into `panic`).
pub fn run_query(
    schema_sexp: &Sexp,
    data_sexp: &Sexp,
    query_text: &str,
    args: &BTreeMap<String, FieldValue>,
) -> Option<Answer> {
    let p = prepare(schema_sexp, data_sexp, query_text)?;
    Some(match &p.query {
        Err(names) => Answer::FrontendErr(names.clone()),
        Ok(q) => execute(Arc::new(p.adapter()), q.clone(), args),
    })
}
