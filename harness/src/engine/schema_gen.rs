//! Generated schemas: description, SDL, protocol text and back.
use std::collections::{BTreeMap, BTreeSet};

use trustfall_core::ir::FieldValue;
use trustfall_core::schema::Schema;

use super::{Ty, find_call, graphql_literal};
use tfharness::rng::Rng;
use tfharness::sexp::Sexp;
use tfharness::values::{sexp_to_value, value_to_sexp};

pub const ROOT_TYPE: &str = "RootSchemaQuery";

#[derive(Debug, Clone, PartialEq)]
pub struct ParamDef {
    pub name: String,
    pub ty: Ty,
    pub default: Option<FieldValue>,
}

#[derive(Debug, Clone, PartialEq)]
pub struct EdgeDef {
    pub name: String,
    pub target: String,
    /// field type, base = target
    pub ty: Ty,
    pub params: Vec<ParamDef>,
}

impl EdgeDef {
    pub fn is_list(&self) -> bool {
        self.ty.is_list()
    }
}

#[derive(Debug, Clone, PartialEq)]
pub struct TypeDef {
    pub name: String,
    pub is_iface: bool,
    /// all STRICT supertypes (transitively closed), in declaration order
    pub supers: Vec<String>,
    /// own + inherited
    pub props: Vec<(String, Ty)>,
    /// own + inherited
    pub edges: Vec<EdgeDef>,
}

#[derive(Debug, Clone, PartialEq)]
pub struct GenSchema {
    pub types: Vec<TypeDef>,
    pub roots: Vec<EdgeDef>,
}

/// The global property pool: a name always has the same type wherever it is defined.
pub fn property_pool() -> Vec<(String, Ty)> {
    let int = Ty::named("Int", true);
    let s = Ty::named("String", true);
    vec![
        ("id".into(), Ty::named("Int", false)),
        ("n".into(), int.clone()),
        ("u".into(), int.clone()),
        ("s".into(), s.clone()),
        ("f".into(), Ty::named("Float", true)),
        ("b".into(), Ty::named("Boolean", true)),
        ("li".into(), int.list_of(true)),
        ("ls".into(), Ty::named("String", false).list_of(true)),
        ("lli".into(), int.list_of(true).list_of(true)),
    ]
}

impl GenSchema {
    pub fn ty(&self, name: &str) -> Option<&TypeDef> {
        self.types.iter().find(|t| t.name == name)
    }
    /// reflexive subtype test
    pub fn is_subtype(&self, sub: &str, sup: &str) -> bool {
        sub == sup || self.ty(sub).is_some_and(|t| t.supers.iter().any(|s| s == sup))
    }
    /// strict subtypes of `name`
    pub fn strict_subtypes(&self, name: &str) -> Vec<&TypeDef> {
        self.types.iter().filter(|t| t.name != name && t.supers.iter().any(|s| s == name)).collect()
    }
    pub fn concrete_types(&self) -> Vec<&TypeDef> {
        self.types.iter().filter(|t| !t.is_iface).collect()
    }
    pub fn prop_ty(&self, ty: &str, prop: &str) -> Option<Ty> {
        if prop == "__typename" {
            return Some(Ty::named("String", false));
        }
        self.ty(ty)?.props.iter().find(|(n, _)| n == prop).map(|(_, t)| t.clone())
    }
    pub fn edge(&self, ty: &str, edge: &str) -> Option<&EdgeDef> {
        self.ty(ty)?.edges.iter().find(|e| e.name == edge)
    }
    pub fn root(&self, edge: &str) -> Option<&EdgeDef> {
        self.roots.iter().find(|e| e.name == edge)
    }

    // ---------------------------------------------------------------- SDL

    pub fn to_sdl(&self) -> String {
        let mut out = String::new();
        out.push_str("schema {\n  query: RootSchemaQuery\n}\n");
        out.push_str(Schema::ALL_DIRECTIVE_DEFINITIONS);
        out.push('\n');
        let field = |e: &EdgeDef| -> String {
            let params = if e.params.is_empty() {
                String::new()
            } else {
                let ps: Vec<String> = e
                    .params
                    .iter()
                    .map(|p| match &p.default {
                        Some(d) => format!("{}: {} = {}", p.name, p.ty, graphql_literal(d)),
                        None => format!("{}: {}", p.name, p.ty),
                    })
                    .collect();
                format!("({})", ps.join(", "))
            };
            format!("  {}{}: {}\n", e.name, params, e.ty)
        };
        out.push_str(&format!("type {ROOT_TYPE} {{\n"));
        for r in &self.roots {
            out.push_str(&field(r));
        }
        out.push_str("}\n\n");
        for t in &self.types {
            let kw = if t.is_iface { "interface" } else { "type" };
            let imp = if t.supers.is_empty() { String::new() } else { format!(" implements {}", t.supers.join(" & ")) };
            out.push_str(&format!("{kw} {}{imp} {{\n", t.name));
            for (p, ty) in &t.props {
                out.push_str(&format!("  {p}: {ty}\n"));
            }
            for e in &t.edges {
                out.push_str(&field(e));
            }
            out.push_str("}\n\n");
        }
        out
    }

    /// Parse the SDL with the real `Schema::parse`; panics when the generated schema is not valid.
    pub fn to_real(&self) -> Schema {
        let sdl = self.to_sdl();
        match Schema::parse(&sdl) {
            Ok(s) => s,
            Err(e) => panic!("generated schema rejected by Schema::parse: {e}\n{sdl}"),
        }
    }

    // ---------------------------------------------------------------- protocol text

    pub fn to_sexp(&self) -> Sexp {
        use super::atom as a;
        let edge_sexp = |e: &EdgeDef| -> Sexp {
            let params = Sexp::call(
                "params",
                e.params
                    .iter()
                    .map(|p| {
                        Sexp::list(vec![
                            a(p.name.clone()),
                            p.ty.to_sexp(),
                            p.default.as_ref().map(value_to_sexp).unwrap_or_else(|| a("-")),
                        ])
                    })
                    .collect(),
            );
            Sexp::list(vec![a(e.name.clone()), a(e.target.clone()), e.ty.to_sexp(), params])
        };
        let types = Sexp::call(
            "types",
            self.types.iter().map(|t| Sexp::list(vec![a(t.name.clone()), a(if t.is_iface { "iface" } else { "obj" })])).collect(),
        );
        let sub = Sexp::call(
            "sub",
            self.types
                .iter()
                .map(|t| {
                    let mut v = vec![a(t.name.clone())];
                    v.extend(t.supers.iter().map(|s| a(s.clone())));
                    Sexp::list(v)
                })
                .collect(),
        );
        let props = Sexp::call(
            "props",
            self.types
                .iter()
                .map(|t| {
                    let mut v = vec![a(t.name.clone())];
                    v.extend(t.props.iter().map(|(p, ty)| Sexp::list(vec![a(p.clone()), ty.to_sexp()])));
                    Sexp::list(v)
                })
                .collect(),
        );
        let edges = Sexp::call(
            "edges",
            self.types
                .iter()
                .map(|t| {
                    let mut v = vec![a(t.name.clone())];
                    v.extend(t.edges.iter().map(edge_sexp));
                    Sexp::list(v)
                })
                .collect(),
        );
        let roots = Sexp::call("roots", self.roots.iter().map(edge_sexp).collect());
        Sexp::call("schema", vec![types, sub, props, edges, roots])
    }

    pub fn from_sexp(s: &Sexp) -> Option<GenSchema> {
        let (h, items) = s.as_call()?;
        if h != "schema" {
            return None;
        }
        let parse_edge = |e: &Sexp| -> Option<EdgeDef> {
            let l = e.as_list()?;
            let [name, target, ty, params] = l else { return None };
            let (ph, ps) = params.as_call()?;
            if ph != "params" {
                return None;
            }
            let params = ps
                .iter()
                .map(|p| {
                    let l = p.as_list()?;
                    let [pn, pty, def] = l else { return None };
                    let default = if def.as_atom() == Some("-") { None } else { Some(sexp_to_value(def)?) };
                    Some(ParamDef { name: pn.as_atom()?.to_string(), ty: Ty::from_sexp(pty)?, default })
                })
                .collect::<Option<Vec<_>>>()?;
            Some(EdgeDef { name: name.as_atom()?.to_string(), target: target.as_atom()?.to_string(), ty: Ty::from_sexp(ty)?, params })
        };
        let mut types: Vec<TypeDef> = vec![];
        for t in find_call(items, "types")? {
            let l = t.as_list()?;
            let [name, kind] = l else { return None };
            types.push(TypeDef {
                name: name.as_atom()?.to_string(),
                is_iface: kind.as_atom()? == "iface",
                supers: vec![],
                props: vec![],
                edges: vec![],
            });
        }
        for t in find_call(items, "sub")? {
            let l = t.as_list()?;
            let name = l.first()?.as_atom()?;
            let td = types.iter_mut().find(|x| x.name == name)?;
            td.supers = l[1..].iter().map(|x| x.as_atom().map(str::to_string)).collect::<Option<Vec<_>>>()?;
        }
        for t in find_call(items, "props")? {
            let l = t.as_list()?;
            let name = l.first()?.as_atom()?;
            let td = types.iter_mut().find(|x| x.name == name)?;
            for p in &l[1..] {
                let pl = p.as_list()?;
                let [pn, pty] = pl else { return None };
                td.props.push((pn.as_atom()?.to_string(), Ty::from_sexp(pty)?));
            }
        }
        for t in find_call(items, "edges")? {
            let l = t.as_list()?;
            let name = l.first()?.as_atom()?;
            let td = types.iter_mut().find(|x| x.name == name)?;
            for e in &l[1..] {
                td.edges.push(parse_edge(e)?);
            }
        }
        let roots = find_call(items, "roots")?.iter().map(parse_edge).collect::<Option<Vec<_>>>()?;
        Some(GenSchema { types, roots })
    }
}

/// Distribution knobs of the schema generator.
#[derive(Debug, Clone)]
pub struct SchemaKnobs {
    pub max_ifaces: usize,
    pub max_objs: usize,
    pub max_edges: usize,
}

impl Default for SchemaKnobs {
    fn default() -> Self {
        SchemaKnobs { max_ifaces: 3, max_objs: 4, max_edges: 8 }
    }
}

fn edge_field_ty(rng: &mut Rng, target: &str) -> Ty {
    let t = |n: bool| Ty::named(target, n);
    match rng.below(8) {
        0 | 1 => t(true).list_of(true),   // [T]
        2 | 3 => t(false).list_of(false), // [T!]!
        4 => t(false).list_of(true),      // [T!]
        5 => t(true),                     // T
        6 => t(false),                    // T!
        _ => t(true).list_of(false),      // [T]!
    }
}

fn edge_params(rng: &mut Rng) -> Vec<ParamDef> {
    let int = |n: bool| Ty::named("Int", n);
    match rng.below(10) {
        0 | 1 => vec![ParamDef { name: "k".into(), ty: int(true), default: Some(FieldValue::Int64(2)) }],
        2 => vec![ParamDef { name: "k".into(), ty: int(true), default: None }],
        3 => vec![ParamDef { name: "k".into(), ty: int(false), default: None }],
        _ => vec![],
    }
}

/// Generate a schema that the real `Schema::parse` accepts (asserted).
pub fn gen_schema(rng: &mut Rng, knobs: &SchemaKnobs) -> GenSchema {
    let n_if = 1 + rng.below(knobs.max_ifaces);
    let n_obj = 2 + rng.below(knobs.max_objs - 1);
    let mut types: Vec<TypeDef> = vec![];
    let close = |types: &[TypeDef], direct: &[String]| -> Vec<String> {
        let mut out: Vec<String> = vec![];
        for d in direct {
            for s in std::iter::once(d.clone()).chain(types.iter().find(|t| &t.name == d).unwrap().supers.iter().cloned()) {
                if !out.contains(&s) {
                    out.push(s);
                }
            }
        }
        out
    };
    for i in 0..n_if {
        let mut direct = vec![];
        if i > 0 && (i == 1 || rng.chance(1, 2)) {
            // an interface implementing another (always at least I1 : I0 when two interfaces exist)
            direct.push(format!("I{}", rng.below(i)));
            if i > 1 && rng.chance(1, 4) {
                let other = format!("I{}", rng.below(i));
                if !direct.contains(&other) {
                    direct.push(other);
                }
            }
        }
        let supers = close(&types, &direct);
        types.push(TypeDef { name: format!("I{i}"), is_iface: true, supers, props: vec![], edges: vec![] });
    }
    for j in 0..n_obj {
        let mut direct = vec![];
        if rng.chance(4, 5) {
            // spread the objects over the interfaces so that most interfaces have an implementer
            let first = if rng.chance(2, 3) { (n_if - 1 + n_if - (j % n_if)) % n_if } else { rng.below(n_if) };
            direct.push(format!("I{first}"));
            if rng.chance(1, 4) {
                let other = format!("I{}", rng.below(n_if));
                if !direct.contains(&other) {
                    direct.push(other);
                }
            }
        }
        let supers = close(&types, &direct);
        types.push(TypeDef { name: format!("T{j}"), is_iface: false, supers, props: vec![], edges: vec![] });
    }
    // every interface gets at least one concrete implementer (otherwise nothing inhabits it)
    for i in 0..n_if {
        let iname = format!("I{i}");
        if types.iter().any(|t| !t.is_iface && t.supers.contains(&iname)) {
            continue;
        }
        let j = n_if + rng.below(n_obj);
        let mut direct = types[j].supers.clone();
        direct.push(iname);
        let supers = close(&types, &direct);
        types[j].supers = supers;
    }
    let names: Vec<String> = types.iter().map(|t| t.name.clone()).collect();
    let subtypes_incl = |types: &[TypeDef], x: &str| -> Vec<usize> {
        types.iter().enumerate().filter(|(_, t)| t.name == x || t.supers.iter().any(|s| s == x)).map(|(i, _)| i).collect()
    };
    // properties: one origin per (type, name); adding an origin at X is possible only when X and all
    // its subtypes lack the name (otherwise some type would see two origins = ambiguous field origin)
    for (pname, pty) in property_pool() {
        for x in &names {
            let want = pname == "id" || rng.chance(1, 2);
            if !want {
                continue;
            }
            let subs = subtypes_incl(&types, x);
            if subs.iter().any(|i| types[*i].props.iter().any(|(n, _)| n == &pname)) {
                continue;
            }
            for i in subs {
                types[i].props.push((pname.clone(), pty.clone()));
            }
        }
    }
    // a type left without any property (its subtypes got `id` through another root) gets a property
    // of its own, so that no type body is empty
    for x in &names {
        let i = types.iter().position(|t| &t.name == x).unwrap();
        if types[i].props.is_empty() {
            for j in subtypes_incl(&types, x) {
                types[j].props.push((format!("x{x}"), Ty::named("String", true)));
            }
        }
    }
    // edges: globally unique names, origin X, any target
    let n_edges = 3 + rng.below(knobs.max_edges - 2);
    for k in 0..n_edges {
        let origin = names[rng.below(names.len())].clone();
        let origin_def = types.iter().find(|t| t.name == origin).unwrap();
        let target = match rng.below(6) {
            0 | 1 => origin.clone(), // self edge: recursion case 3 (and 4a from subtypes)
            2 if !origin_def.supers.is_empty() => {
                // edge to an ancestor: recursion case 4c (implicit coercion to the origin)
                origin_def.supers[rng.below(origin_def.supers.len())].clone()
            }
            _ => names[rng.below(names.len())].clone(),
        };
        let e = EdgeDef { name: format!("e{k}"), ty: edge_field_ty(rng, &target), target, params: edge_params(rng) };
        for i in subtypes_incl(&types, &origin) {
            types[i].edges.push(e.clone());
        }
    }
    // root entry points
    let mut roots = vec![];
    let mut shuffled = names.clone();
    for i in (1..shuffled.len()).rev() {
        shuffled.swap(i, rng.below(i + 1));
    }
    let n_roots = 2 + rng.below(3.min(shuffled.len() - 1));
    for t in shuffled.iter().take(n_roots) {
        let ty = match rng.below(6) {
            0 => Ty::named(t, rng.chance(1, 2)),
            1 => Ty::named(t, true).list_of(true),
            2 => Ty::named(t, false).list_of(true),
            _ => Ty::named(t, false).list_of(false),
        };
        let params = if rng.chance(1, 3) { edge_params(rng) } else { vec![] };
        roots.push(EdgeDef { name: format!("R{t}"), target: t.clone(), ty, params });
    }
    // always at least one parameterised root per few schemas
    if rng.chance(1, 2) {
        let t = &shuffled[0];
        roots.push(EdgeDef {
            name: format!("R{t}k"),
            target: t.clone(),
            ty: Ty::named(t, false).list_of(false),
            params: vec![ParamDef { name: "k".into(), ty: Ty::named("Int", true), default: Some(FieldValue::Int64(2)) }],
        });
    }
    let schema = GenSchema { types, roots };
    // validity per the real parser is part of the generator's contract
    let _ = schema.to_real();
    debug_assert_eq!(GenSchema::from_sexp(&schema.to_sexp()).as_ref(), Some(&schema));
    schema
}

/// Names of all types that have at least one concrete (object) subtype, reflexively.
pub fn inhabited_types(schema: &GenSchema) -> BTreeSet<String> {
    let mut out = BTreeSet::new();
    for t in schema.concrete_types() {
        out.insert(t.name.clone());
        out.extend(t.supers.iter().cloned());
    }
    out
}

/// For every type: which concrete types are instances of it.
pub fn instances_of(schema: &GenSchema) -> BTreeMap<String, Vec<String>> {
    let mut out: BTreeMap<String, Vec<String>> = BTreeMap::new();
    for t in &schema.types {
        out.entry(t.name.clone()).or_default();
    }
    for t in schema.concrete_types() {
        out.get_mut(&t.name).unwrap().push(t.name.clone());
        for s in &t.supers {
            out.get_mut(s).unwrap().push(t.name.clone());
        }
    }
    out
}
