//! Directed world family "tagged-regex worlds": queries `… p @tag(name: "t") … s @filter(op: "regex" |
//! "not_regex", value: ["%t"]) …` over data whose tagged `String` values come from a SMALL pool of
//! valid patterns that match some left operands, invalid patterns and null, laid out in RUNS over the
//! vertices in id order (consecutive contexts with equal tag values; valid → invalid → valid
//! sequences). The type-directed random generator practically never produces this combination, and
//! it is exactly what a stateful / look-ahead implementation of the tagged regex filter gets wrong
//! (a compiled-pattern cache that survives an invalid pattern; a filter that processes runs of equal
//! tag values together and so pulls ahead of the row it hands out).
//!
//! Everything derives from the one `Rng`; the worlds travel in ordinary requests (the regex table of
//! `Dataset::to_sexp` lists every dataset string as a pattern as soon as a regex filter has a tag
//! operand, the invalid ones as `(<hex> 0)`).
use std::collections::{BTreeMap, BTreeSet};

use trustfall_core::ir::FieldValue;

use super::Ty;
use super::data_gen::{Dataset, VertexData};
use super::query_gen::{Arg, Dir, FDir, Field, GenQuery, Kind, Node, Op, Query};
use super::schema_gen::{EdgeDef, GenSchema, TypeDef};
use tfharness::rng::Rng;

/// Feature label of every query of this family (→ `nt:tagged-regex-stream`).
pub const FEATURE: &str = "tagged-regex-stream";

/// Number of query templates (`tr_query(.., template)` with `template < N_TEMPLATES`).
pub const N_TEMPLATES: usize = 8;

/// Tagged values: (valid patterns, each matching some texts of `text_pool`; patterns the `regex` crate
/// rejects).
pub fn pattern_pool() -> (Vec<&'static str>, Vec<&'static str>) {
    (vec!["a", "a.*", "^b", ".", "", "b$", "^a", "ab"], vec!["(", "[a", "*", "\\"])
}

/// Left operands.
pub fn text_pool() -> Vec<&'static str> {
    vec!["a", "ab", "b", "abc", "ba", "bb", "", "(", "xyz", "a", "b"]
}

/// `interface I0 { id p s e0 e1 }`, `type T0 implements I0 { … e2: →T1 }`, `type T1 implements I0`;
/// `p` (the tagged pattern) and `s` (the filtered text) are nullable `String`s; `e0` is a list edge to
/// `I0`, `e1` a single-valued one (for `@optional`), `e2` a list edge `T0 → T1`; roots `RI0`, `RT0`, `RT1`.
pub fn tr_schema(rng: &mut Rng) -> GenSchema {
    let list_ty = |rng: &mut Rng, target: &str| -> Ty {
        let t = |n: bool| Ty::named(target, n);
        match rng.below(4) {
            0 => t(false).list_of(false), // [T!]!
            1 => t(true).list_of(true),   // [T]
            2 => t(false).list_of(true),  // [T!]
            _ => t(true).list_of(false),  // [T]!
        }
    };
    let props: Vec<(String, Ty)> = vec![
        ("id".to_string(), Ty::named("Int", false)),
        ("p".to_string(), Ty::named("String", true)),
        ("s".to_string(), Ty::named("String", true)),
    ];
    let e0 = EdgeDef { name: "e0".into(), target: "I0".into(), ty: list_ty(rng, "I0"), params: vec![] };
    let e1 = EdgeDef { name: "e1".into(), target: "I0".into(), ty: Ty::named("I0", rng.chance(3, 4)), params: vec![] };
    let e2 = EdgeDef { name: "e2".into(), target: "T1".into(), ty: list_ty(rng, "T1"), params: vec![] };
    let types = vec![
        TypeDef { name: "I0".into(), is_iface: true, supers: vec![], props: props.clone(), edges: vec![e0.clone(), e1.clone()] },
        TypeDef { name: "T0".into(), is_iface: false, supers: vec!["I0".into()], props: props.clone(), edges: vec![e0.clone(), e1.clone(), e2] },
        TypeDef { name: "T1".into(), is_iface: false, supers: vec!["I0".into()], props, edges: vec![e0, e1] },
    ];
    let roots = vec![
        EdgeDef { name: "RI0".into(), target: "I0".into(), ty: list_ty(rng, "I0"), params: vec![] },
        EdgeDef { name: "RT0".into(), target: "T0".into(), ty: list_ty(rng, "T0"), params: vec![] },
        EdgeDef { name: "RT1".into(), target: "T1".into(), ty: list_ty(rng, "T1"), params: vec![] },
    ];
    let schema = GenSchema { types, roots };
    let _ = schema.to_real();
    debug_assert_eq!(GenSchema::from_sexp(&schema.to_sexp()).as_ref(), Some(&schema));
    schema
}

#[derive(Clone, Copy, PartialEq)]
enum Cat {
    Valid,
    Invalid,
    Null,
}

/// `n` tagged values laid out in runs of length 1..=3 of one value; the category of the next run is
/// biased towards valid ↔ invalid alternation.
fn pattern_runs(rng: &mut Rng, n: usize) -> Vec<FieldValue> {
    let (valid, invalid) = pattern_pool();
    let mut out = vec![];
    let mut cat = if rng.chance(2, 3) { Cat::Valid } else { Cat::Invalid };
    while out.len() < n {
        let v = match cat {
            Cat::Valid => FieldValue::from(*rng.pick(&valid)),
            Cat::Invalid => FieldValue::from(*rng.pick(&invalid)),
            Cat::Null => FieldValue::Null,
        };
        let len = 1 + rng.below(3);
        for _ in 0..len {
            if out.len() < n {
                out.push(v.clone());
            }
        }
        let r = rng.below(6);
        cat = match cat {
            Cat::Valid => [Cat::Invalid, Cat::Invalid, Cat::Invalid, Cat::Valid, Cat::Valid, Cat::Null][r],
            Cat::Invalid => [Cat::Valid, Cat::Valid, Cat::Valid, Cat::Invalid, Cat::Invalid, Cat::Null][r],
            Cat::Null => [Cat::Valid, Cat::Valid, Cat::Valid, Cat::Invalid, Cat::Invalid, Cat::Invalid][r],
        };
    }
    out
}

/// 3..=6 `T0` and 2..=5 `T1` vertices (ids in this order); `p` by `pattern_runs` over the ids, `s` from
/// `text_pool` (null with p = 1/8); `e0` 0..=3 neighbours among all vertices (duplicates allowed),
/// `e1` one neighbour with p = 3/4, `e2` 0..=3 `T1` neighbours; starts: all instances in id order
/// (so that runs of equal tagged values span consecutive STARTING vertices), `RI0` sometimes reversed
/// or a random multiset.
pub fn tr_dataset(rng: &mut Rng, schema: &GenSchema) -> Dataset {
    let n0 = 3 + rng.below(4);
    let n1 = 2 + rng.below(4);
    let n = n0 + n1;
    let patterns = pattern_runs(rng, n);
    let texts = text_pool();
    let mut vertices = vec![];
    for (i, p) in patterns.into_iter().enumerate() {
        let ty = if i < n0 { "T0" } else { "T1" };
        let s = if rng.chance(1, 8) { FieldValue::Null } else { FieldValue::from(*rng.pick(&texts)) };
        let props = schema
            .ty(ty)
            .unwrap()
            .props
            .iter()
            .map(|(name, _)| {
                let v = match name.as_str() {
                    "id" => FieldValue::Int64(i as i64),
                    "p" => p.clone(),
                    "s" => s.clone(),
                    other => panic!("tagged-regex schema has no property {other}"),
                };
                (name.clone(), v)
            })
            .collect();
        vertices.push(VertexData { id: i as u32, ty: ty.to_string(), props });
    }
    let all: Vec<u32> = (0..n as u32).collect();
    let t0s: Vec<u32> = (0..n0 as u32).collect();
    let t1s: Vec<u32> = (n0 as u32..n as u32).collect();
    let some_of = |rng: &mut Rng, cands: &[u32]| -> Vec<u32> {
        let k = match rng.below(8) {
            0 => 0,
            1 | 2 => 1,
            3..=5 => 2,
            _ => 3,
        };
        (0..k).map(|_| cands[rng.below(cands.len())]).collect()
    };
    let mut adj = BTreeMap::new();
    for v in &vertices {
        adj.insert((v.id, "e0".to_string()), some_of(rng, &all));
        let one = if rng.chance(3, 4) { vec![all[rng.below(all.len())]] } else { vec![] };
        adj.insert((v.id, "e1".to_string()), one);
        if v.ty == "T0" {
            adj.insert((v.id, "e2".to_string()), some_of(rng, &t1s));
        }
    }
    let mut starts = BTreeMap::new();
    let ri0 = match rng.below(8) {
        0 => all.iter().rev().copied().collect(),
        1 => (0..1 + rng.below(n)).map(|_| all[rng.below(all.len())]).collect(),
        _ => all.clone(),
    };
    starts.insert("RI0".to_string(), ri0);
    starts.insert("RT0".to_string(), t0s);
    starts.insert("RT1".to_string(), t1s);
    Dataset { vertices, adj, starts }
}

struct Names {
    next: usize,
    features: BTreeSet<String>,
}

impl Names {
    fn fresh(&mut self, prefix: &str) -> String {
        let n = self.next;
        self.next += 1;
        format!("{prefix}{n}")
    }
    fn feat(&mut self, f: &str) {
        self.features.insert(f.to_string());
    }
    fn out(&mut self) -> Dir {
        Dir::Output(self.fresh("o"))
    }
    /// `<name> @output`
    fn out_prop(&mut self, name: &str) -> Field {
        let d = self.out();
        Field::Prop { name: name.to_string(), dirs: vec![d] }
    }
    /// `s @filter(op: <regex | not_regex>, value: ["%<tag>"])`, with `@output` when asked
    fn filtered(&mut self, rng: &mut Rng, tag: &str, output: bool) -> Field {
        let op = if rng.chance(1, 2) { Op::Regex } else { Op::NotRegex };
        self.feat(&format!("op:{}", op.proto()));
        let mut dirs = vec![Dir::Filter(op, Arg::Tag(tag.to_string()))];
        if output {
            let o = self.out();
            if rng.chance(1, 2) { dirs.insert(0, o) } else { dirs.push(o) }
        }
        Field::Prop { name: "s".to_string(), dirs }
    }
    /// `p @tag(name: <tag>)`, sometimes also an output
    fn tagged(&mut self, rng: &mut Rng, tag: &str) -> Field {
        let mut dirs = vec![Dir::Tag(tag.to_string())];
        if rng.chance(1, 3) {
            let o = self.out();
            if rng.chance(1, 2) { dirs.insert(0, o) } else { dirs.push(o) }
        }
        Field::Prop { name: "p".to_string(), dirs }
    }
}

fn edge(name: &str, kind: Kind, fields: Vec<Field>) -> Field {
    Field::Edge { name: name.to_string(), params: vec![], kind, node: Node { coerce_to: None, fields } }
}

/// One query of the family. Templates: 0 tag and filter on the same (root) vertex; 1 tag on the root,
/// filter on a neighbour; 2 filter inside `@optional`; 3 filter inside `@fold` (imported tag); 4 tag
/// on an inner vertex, filter on it or on its neighbour; 5 tag defined inside an `@optional` scope
/// (nonexistent-optional tag values interleaved with existing ones); 6 filter inside a nested fold;
/// 7 the same tag used by two filters (root vertex and neighbour) behind a variable filter on `id`,
/// through a coercion when the root is `RI0`.
pub fn tr_query(rng: &mut Rng, schema: &GenSchema, template: usize) -> GenQuery {
    let mut nm = Names { next: 0, features: BTreeSet::new() };
    nm.feat(FEATURE);
    let mut args = BTreeMap::new();
    // the root vertex carries the tag in most templates: prefer the root edge with all vertices
    let root = match rng.below(6) {
        0 => "RT0",
        1 => "RT1",
        _ => "RI0",
    };
    debug_assert!(schema.root(root).is_some());
    let tag = nm.fresh("t");
    let mut coerce_to = None;
    let fields = match template % N_TEMPLATES {
        0 => {
            nm.feat("tag-local");
            let mut f = vec![nm.out_prop("id"), nm.tagged(rng, &tag)];
            let o = rng.chance(1, 2);
            f.push(nm.filtered(rng, &tag, o));
            f
        }
        1 => {
            nm.feat("tag-earlier");
            let inner = vec![nm.out_prop("id"), nm.filtered(rng, &tag, true)];
            let mut f = vec![nm.out_prop("id"), nm.tagged(rng, &tag)];
            f.push(edge("e0", Kind::Plain, inner));
            f
        }
        2 => {
            nm.feat("tag-earlier");
            nm.feat("opt");
            let e = if rng.chance(1, 2) { "e1" } else { "e0" };
            let mut inner = vec![nm.filtered(rng, &tag, true)];
            if rng.chance(1, 2) {
                inner.insert(0, nm.out_prop("id"));
            }
            let mut f = vec![nm.out_prop("id"), nm.tagged(rng, &tag)];
            f.push(edge(e, Kind::Optional, inner));
            f
        }
        3 => {
            nm.feat("tag-import");
            nm.feat("fold");
            nm.feat("output-in-fold");
            let o = rng.chance(1, 2);
            let inner = vec![nm.filtered(rng, &tag, o), nm.out_prop("id")];
            let mut fdirs = vec![];
            if rng.chance(1, 2) {
                fdirs.push(FDir::CountOutput(nm.fresh("o")));
                nm.feat("count-output");
            }
            let mut f = vec![nm.out_prop("id"), nm.tagged(rng, &tag)];
            f.push(edge("e0", Kind::Fold(fdirs), inner));
            f
        }
        4 => {
            let mut inner = vec![nm.tagged(rng, &tag), nm.out_prop("id")];
            if rng.chance(1, 2) {
                nm.feat("tag-local");
                inner.push(nm.filtered(rng, &tag, true));
            } else {
                nm.feat("tag-earlier");
                let e = if rng.chance(1, 2) { "e1" } else { "e0" };
                let leaf = vec![nm.filtered(rng, &tag, true)];
                inner.push(edge(e, Kind::Plain, leaf));
            }
            vec![nm.out_prop("id"), edge("e0", Kind::Plain, inner)]
        }
        5 => {
            nm.feat("tag-earlier");
            nm.feat("tag-from-opt");
            nm.feat("opt");
            let opt = vec![nm.tagged(rng, &tag)];
            let inner = vec![nm.filtered(rng, &tag, true), nm.out_prop("id")];
            vec![nm.out_prop("id"), edge("e1", Kind::Optional, opt), edge("e0", Kind::Plain, inner)]
        }
        6 => {
            nm.feat("tag-import");
            nm.feat("tag-import-nested");
            nm.feat("fold");
            nm.feat("nested-fold");
            nm.feat("output-in-fold");
            nm.feat("output-in-nested-fold");
            let o = rng.chance(1, 2);
            let leaf = vec![nm.filtered(rng, &tag, o), nm.out_prop("id")];
            let mid = vec![nm.out_prop("id"), edge("e0", Kind::Fold(vec![]), leaf)];
            let mut f = vec![nm.out_prop("id"), nm.tagged(rng, &tag)];
            f.push(edge("e0", Kind::Fold(vec![]), mid));
            f
        }
        _ => {
            nm.feat("tag-local");
            nm.feat("tag-earlier");
            nm.feat("op:ge");
            let v = nm.fresh("v");
            args.insert(v.clone(), FieldValue::Int64(rng.below(3) as i64));
            let o = nm.out();
            let id = Field::Prop { name: "id".to_string(), dirs: vec![Dir::Filter(Op::Ge, Arg::Var(v)), o] };
            let mut f = vec![id, nm.tagged(rng, &tag)];
            f.push(nm.filtered(rng, &tag, false));
            let inner = vec![nm.filtered(rng, &tag, true)];
            if root == "RI0" {
                nm.feat("coerce");
                coerce_to = Some("T0".to_string());
                f.push(edge("e2", Kind::Plain, inner));
            } else {
                f.push(edge("e0", Kind::Plain, inner));
            }
            f
        }
    };
    let query = Query { root: root.to_string(), root_params: vec![], node: Node { coerce_to, fields } };
    let text = query.to_graphql();
    GenQuery { query, text, args, features: nm.features }
}
