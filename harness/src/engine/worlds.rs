//! Generated worlds shared by all engine properties: a schema, a few datasets, and queries compiled by
//! the real frontend, plus the request builders of ENGINE_PROTOCOL.md.
use std::collections::BTreeMap;
use std::sync::Arc;

use trustfall_core::interpreter::execution::interpret_ir;
use trustfall_core::ir::IndexedQuery;
use trustfall_core::schema::Schema;

use super::adapter::TableAdapter;
use super::data_gen::{DataKnobs, DataTable, Dataset, gen_dataset};
use super::ir_sexp::{args_to_sexp, data_view, ir_to_sexp};
use super::operand_matrix::{self, mx_cells, mx_dataset, mx_query, mx_schema, op_class, well_typed};
use super::query_gen::{GenQuery, QueryKnobs, gen_query};
use super::recurse_subtype::{self, rs_dataset, rs_query, rs_schema};
use super::run::{args_error_names, compile, real_args};
use super::schema_gen::{GenSchema, SchemaKnobs, gen_schema};
use super::tagged_regex::{N_TEMPLATES, tr_dataset, tr_query, tr_schema};
use tfharness::framework::Tier;
use tfharness::rng::Rng;
use tfharness::sexp::{Sexp, hex};

#[derive(Debug, Clone)]
pub struct WorldKnobs {
    pub n_schemas: usize,
    pub n_datasets: usize,
    pub n_queries: usize,
    pub schema: SchemaKnobs,
    pub data: DataKnobs,
    pub query: QueryKnobs,
}

impl WorldKnobs {
    /// quick: 40 schemas × 2 datasets × 10 queries; thorough: 10× as many schemas. `gen_worlds` appends
    /// `n_tagged_regex_worlds` directed worlds (quick 4, thorough 40) × 2 datasets × 8 queries of EACH
    /// directed family (tagged-regex, recurse-from-strict-subtype).
    pub fn for_tier(tier: Tier) -> WorldKnobs {
        WorldKnobs {
            n_schemas: if tier == Tier::Quick { 40 } else { 400 },
            n_datasets: 2,
            n_queries: 10,
            schema: SchemaKnobs::default(),
            data: DataKnobs::default(),
            query: QueryKnobs::default(),
        }
    }
}

/// Why a generated query is not executed.
#[derive(Debug, Clone, PartialEq)]
pub enum Rejection {
    Frontend(Vec<String>),
    Args(Vec<String>),
}

pub struct WorldQuery {
    pub gq: GenQuery,
    /// `Ok` = accepted by the real frontend AND by argument validation
    pub compiled: Result<Arc<IndexedQuery>, Rejection>,
    /// rendering of the real IR (present whenever the frontend accepted the query)
    pub ir: Option<Sexp>,
}

pub struct World {
    pub schema: GenSchema,
    pub schema_sexp: Sexp,
    pub real: Schema,
    pub datasets: Vec<Dataset>,
    pub queries: Vec<WorldQuery>,
}

impl World {
    /// `(data …)` of dataset `d` as seen by query `q` (parameter tuples and regex table from its IR).
    pub fn data_sexp(&self, d: usize, q: &WorldQuery) -> Option<Sexp> {
        let iq = match &q.compiled {
            Ok(iq) => iq.clone(),
            Err(_) => return None,
        };
        let view = data_view(&iq.ir_query, &q.gq.args);
        Some(self.datasets[d].to_sexp(&self.schema, &view))
    }
    fn text_hex(q: &WorldQuery) -> Sexp {
        Sexp::atom(hex(q.gq.text.as_bytes()))
    }
    /// `(exec <schema> <data> <query text hex> <ir> <args>)`
    pub fn exec_request(&self, d: usize, q: &WorldQuery) -> Option<Sexp> {
        Some(Sexp::call(
            "exec",
            vec![self.schema_sexp.clone(), self.data_sexp(d, q)?, Self::text_hex(q), q.ir.clone()?, args_to_sexp(&q.gq.args)],
        ))
    }
    /// `(spec-exec <schema> <data> <query text hex> <tree> <args>)`
    pub fn spec_exec_request(&self, d: usize, q: &WorldQuery) -> Option<Sexp> {
        Some(Sexp::call(
            "spec-exec",
            vec![self.schema_sexp.clone(), self.data_sexp(d, q)?, Self::text_hex(q), q.gq.query.to_sexp(), args_to_sexp(&q.gq.args)],
        ))
    }
    /// Generic request `(head <schema> <data> <query text hex> <ir> <args>)` for other properties.
    pub fn request(&self, head: &str, d: usize, q: &WorldQuery) -> Option<Sexp> {
        let mut r = self.exec_request(d, q)?;
        if let Sexp::List(v) = &mut r {
            v[0] = Sexp::atom(head);
        }
        Some(r)
    }
    pub fn accepted(&self) -> impl Iterator<Item = &WorldQuery> {
        self.queries.iter().filter(|q| q.compiled.is_ok())
    }
}

/// Counters of one generation run.
#[derive(Debug, Clone, Default)]
pub struct GenStats {
    pub generated: usize,
    pub accepted: usize,
    pub frontend_rejected: BTreeMap<String, usize>,
    pub args_rejected: BTreeMap<String, usize>,
    /// feature → number of ACCEPTED queries having it
    pub features: BTreeMap<String, usize>,
    /// operand-type matrix (directed family, counted apart from the figures above):
    /// "<operator class>/<var|tag|unary>/<well-typed|ill-typed by the generator's rules>" →
    /// [cells written, accepted by the real frontend, rejected, kept as world queries]
    pub matrix: BTreeMap<String, [usize; 4]>,
    /// why the frontend rejected matrix cells: error names → count
    pub matrix_rejected_by: BTreeMap<String, usize>,
}

impl GenStats {
    pub fn acceptance_rate(&self) -> f64 {
        if self.generated == 0 { 0.0 } else { self.accepted as f64 / self.generated as f64 }
    }
    pub fn to_json(&self) -> serde_json::Value {
        serde_json::json!({
            "generated_queries": self.generated,
            "accepted_queries": self.accepted,
            "acceptance_rate": self.acceptance_rate(),
            "frontend_rejected": self.frontend_rejected,
            "args_rejected": self.args_rejected,
            "features_in_accepted_queries": self.features,
            "operand_type_matrix": {
                "columns": ["cells", "accepted_by_frontend", "rejected_by_frontend", "kept_as_world_queries"],
                "by_class": self.matrix,
                "rejected_by": self.matrix_rejected_by,
            },
        })
    }
}

/// Compile one generated query against the real schema and validate its arguments.
pub fn compile_query(schema: &GenSchema, real: &Schema, gq: GenQuery) -> WorldQuery {
    // the frontend has known panics of its own (C10's business): count them as rejections here
    let compiled = tfharness::framework::guarded(|| compile(real, &gq.text)).unwrap_or_else(|_| Err(vec!["PANIC".to_string()]));
    match compiled {
        Err(names) => WorldQuery { gq, compiled: Err(Rejection::Frontend(names)), ir: None },
        Ok(iq) => {
            let ir = Some(ir_to_sexp(&iq.ir_query));
            // argument validation happens before the adapter is touched
            let probe = Arc::new(TableAdapter::new(schema, DataTable::default()));
            // (a panic while the pipeline is being built — e.g. an invalid regex argument, F-4 — comes
            // after validation: the arguments were accepted)
            let probed = tfharness::framework::guarded(|| interpret_ir(probe, iq.clone(), real_args(&gq.args)).map(|_| ()));
            let compiled = match probed {
                Ok(Err(e)) => Err(Rejection::Args(args_error_names(&e))),
                Ok(Ok(())) | Err(_) => Ok(iq),
            };
            WorldQuery { gq, compiled, ir }
        }
    }
}

fn count_query(stats: &mut GenStats, wq: &WorldQuery) {
    stats.generated += 1;
    match &wq.compiled {
        Ok(_) => {
            stats.accepted += 1;
            for f in &wq.gq.features {
                *stats.features.entry(f.clone()).or_default() += 1;
            }
        }
        Err(Rejection::Frontend(names)) => *stats.frontend_rejected.entry(names.join("+")).or_default() += 1,
        Err(Rejection::Args(names)) => *stats.args_rejected.entry(names.join("+")).or_default() += 1,
    }
}

pub fn gen_world(rng: &mut Rng, knobs: &WorldKnobs, stats: &mut GenStats) -> World {
    let schema = gen_schema(rng, &knobs.schema);
    let real = schema.to_real();
    let datasets = (0..knobs.n_datasets).map(|_| gen_dataset(rng, &schema, &knobs.data)).collect();
    let mut queries = vec![];
    for _ in 0..knobs.n_queries {
        let gq = gen_query(rng, &schema, &knobs.query);
        let wq = compile_query(&schema, &real, gq);
        count_query(stats, &wq);
        queries.push(wq);
    }
    let schema_sexp = schema.to_sexp();
    World { schema, schema_sexp, real, datasets, queries }
}

/// Number of DIRECTED worlds PER FAMILY (tagged-regex; recurse-from-strict-subtype) appended to a run of `gen_worlds` (derived from the number
/// of random schemas so that every tier has a few: quick 40 schemas → 4, thorough 400 → 40).
pub fn n_tagged_regex_worlds(knobs: &WorldKnobs) -> usize {
    if knobs.n_schemas == 0 { 0 } else { (knobs.n_schemas / 10).clamp(2, 40) }
}

/// One world of the directed family `tagged_regex`: its small schema, `n_datasets` datasets whose
/// tagged `String` property comes in runs from a small pool of valid / invalid patterns and null, and
/// up to `N_TEMPLATES` (= 8) queries, one per template in a random order: a `regex` / `not_regex`
/// filter whose operand is that tag, on the same vertex, a neighbour, inside `@optional`, inside a
/// (nested) `@fold`, with the tag on the root or an inner vertex or inside an `@optional` scope.
pub fn gen_tagged_regex_world(rng: &mut Rng, knobs: &WorldKnobs, stats: &mut GenStats) -> World {
    let schema = tr_schema(rng);
    let real = schema.to_real();
    let datasets = (0..knobs.n_datasets).map(|_| tr_dataset(rng, &schema)).collect();
    let mut order: Vec<usize> = (0..N_TEMPLATES).collect();
    for i in (1..order.len()).rev() {
        order.swap(i, rng.below(i + 1));
    }
    let mut queries = vec![];
    for template in order.into_iter().take(knobs.n_queries.clamp(4, N_TEMPLATES)) {
        let gq = tr_query(rng, &schema, template);
        let wq = compile_query(&schema, &real, gq);
        count_query(stats, &wq);
        queries.push(wq);
    }
    let schema_sexp = schema.to_sexp();
    World { schema, schema_sexp, real, datasets, queries }
}

/// One world of the directed family `recurse_subtype`: an edge declared on an interface and inherited
/// by two implementors, `@recurse(depth: 2 | 3)` starting at one implementor (entry point or coercion),
/// data mixing the implementors along the recursion path. `variant_b`: the edge's target is the
/// declaring interface itself (no implicit coercion) instead of its super-interface.
pub fn gen_recurse_subtype_world(rng: &mut Rng, knobs: &WorldKnobs, stats: &mut GenStats, variant_b: bool) -> World {
    let schema = rs_schema(rng, variant_b);
    let real = schema.to_real();
    let datasets = (0..knobs.n_datasets).map(|_| rs_dataset(rng, &schema)).collect();
    let mut order: Vec<usize> = (0..recurse_subtype::N_TEMPLATES).collect();
    for i in (1..order.len()).rev() {
        order.swap(i, rng.below(i + 1));
    }
    let mut queries = vec![];
    for template in order.into_iter().take(knobs.n_queries.clamp(4, recurse_subtype::N_TEMPLATES)) {
        let gq = rs_query(rng, &schema, template);
        let wq = compile_query(&schema, &real, gq);
        count_query(stats, &wq);
        queries.push(wq);
    }
    let schema_sexp = schema.to_sexp();
    World { schema, schema_sexp, real, datasets, queries }
}

/// Number of operand-type-matrix worlds (quick tiers 1 with a random rotation of the tag placements,
/// thorough tiers 3 = all rotations) and the cap on the WELL-typed accepted cells kept per world
/// (quick 96, stratified over the operators; thorough all). Ill-typed accepted cells are always kept.
pub fn operand_matrix_plan(knobs: &WorldKnobs) -> (usize, usize) {
    if knobs.n_schemas == 0 {
        (0, 0)
    } else if knobs.n_schemas >= 100 {
        (3, usize::MAX)
    } else {
        (1, 96)
    }
}

/// One world of the directed family `operand_matrix`: every operator × left property × right operand
/// (variable / tag of every property, placements rotated by `rotation`) over the fixed matrix schema,
/// each compiled by the real frontend. Rejected cells are only counted (`GenStats::matrix`); accepted
/// cells that are ill-typed by the generator's rules are all kept, well-typed ones up to `cap`
/// (round-robin over the operators). One dataset.
pub fn gen_operand_matrix_world(rng: &mut Rng, stats: &mut GenStats, rotation: usize, cap: usize) -> World {
    let schema = mx_schema();
    let real = schema.to_real();
    let datasets = vec![mx_dataset(rng, &schema)];
    let mut ill: Vec<WorldQuery> = vec![];
    let mut well: BTreeMap<&'static str, Vec<(String, WorldQuery)>> = BTreeMap::new();
    for cell in mx_cells(rotation) {
        let ok = well_typed(&cell);
        let class = format!("{}/{}/{}", op_class(cell.op), cell.right.kind(), if ok { "well-typed" } else { "ill-typed" });
        let mut gq = mx_query(rng, &cell);
        if !ok {
            gq.features.insert(operand_matrix::ILL_TYPED.to_string());
        }
        let wq = compile_query(&schema, &real, gq);
        let row = stats.matrix.entry(class.clone()).or_default();
        row[0] += 1;
        match &wq.compiled {
            Ok(_) => {
                row[1] += 1;
                if ok { well.entry(cell.op.proto()).or_default().push((class, wq)) } else {
                    row[3] += 1;
                    ill.push(wq);
                }
            }
            Err(Rejection::Frontend(names)) | Err(Rejection::Args(names)) => {
                row[2] += 1;
                let mut names = names.clone();
                names.dedup();
                *stats.matrix_rejected_by.entry(names.join("+")).or_default() += 1;
            }
        }
    }
    // well-typed accepted cells: shuffle per operator, then round-robin over the operators up to `cap`
    let mut groups: Vec<Vec<(String, WorldQuery)>> = well.into_values().collect();
    for g in &mut groups {
        for i in (1..g.len()).rev() {
            g.swap(i, rng.below(i + 1));
        }
    }
    let mut queries = ill;
    let mut kept = 0usize;
    while kept < cap && groups.iter().any(|g| !g.is_empty()) {
        for g in &mut groups {
            if kept >= cap {
                break;
            }
            if let Some((class, wq)) = g.pop() {
                stats.matrix.entry(class).or_default()[3] += 1;
                queries.push(wq);
                kept += 1;
            }
        }
    }
    for wq in &queries {
        count_query(stats, wq);
    }
    let schema_sexp = schema.to_sexp();
    World { schema, schema_sexp, real, datasets, queries }
}

/// `n_schemas` random worlds followed by the directed worlds (appended, so that the random worlds of a
/// seed are the same as before the directed families existed): `n_tagged_regex_worlds` tagged-regex
/// worlds, then as many recurse-from-strict-subtype worlds (every fourth one of variant B), then the operand-type-matrix world(s)
/// (`operand_matrix_plan`); everything from the one `rng`.
pub fn gen_worlds(rng: &mut Rng, knobs: &WorldKnobs) -> (Vec<World>, GenStats) {
    let mut stats = GenStats::default();
    let mut worlds: Vec<World> = (0..knobs.n_schemas).map(|_| gen_world(rng, knobs, &mut stats)).collect();
    for _ in 0..n_tagged_regex_worlds(knobs) {
        worlds.push(gen_tagged_regex_world(rng, knobs, &mut stats));
    }
    for i in 0..n_tagged_regex_worlds(knobs) {
        worlds.push(gen_recurse_subtype_world(rng, knobs, &mut stats, i % 4 == 3));
    }
    let (n_matrix, cap) = operand_matrix_plan(knobs);
    let first = if n_matrix == 1 { rng.below(3) } else { 0 };
    for i in 0..n_matrix {
        worlds.push(gen_operand_matrix_world(rng, &mut stats, first + i, cap));
    }
    (worlds, stats)
}
