//! Shared run loop: generate requests → evaluate on the implementation → oracles → report files.
use std::cell::RefCell;
use std::collections::BTreeMap;
use std::io::Write;
use std::panic::{AssertUnwindSafe, catch_unwind};

use crate::rng::Rng;
use crate::sexp::Sexp;

#[derive(Clone, Copy, PartialEq, Eq, Debug)]
pub enum Tier {
    Quick,
    Thorough,
}

pub struct Case {
    pub request: Sexp,
    /// free-form labels feeding the distribution histogram; a tag starting with `nt:` marks the
    /// case non-trivial under the property's stated rule.
    pub tags: Vec<String>,
}

impl Case {
    pub fn new(request: Sexp, tags: &[&str]) -> Case {
        Case { request, tags: tags.iter().map(|s| s.to_string()).collect() }
    }
}

/// A property violation observed on the implementation (not a model disagreement).
pub struct OracleFailure {
    /// stable key naming the failure class (matched against known_findings.json)
    pub key: String,
    pub detail: String,
    /// request lines that reproduce it
    pub requests: Vec<String>,
}

pub struct Evaluated {
    pub request: Sexp,
    pub line: String,
    pub answer: String,
    pub tags: Vec<String>,
    /// panic message + location when the implementation panicked
    pub panic_info: Option<String>,
}

pub trait Prop {
    fn id(&self) -> &'static str;
    /// what makes a case non-trivial / distinct (goes into the evidence file verbatim)
    fn rule(&self) -> &'static str;
    fn generate(&self, tier: Tier, rng: &mut Rng) -> Vec<Case>;
    /// Run the real implementation on one request and render the canonical answer.
    /// Returning `None` means the request is not understood (`bad-op`).
    fn eval(&self, request: &Sexp) -> Option<String>;
    /// Evaluate the property itself on the implementation's answers.
    fn oracle(&self, evaluated: &[Evaluated]) -> Vec<OracleFailure>;
    /// Extra tags computed from the implementation's answer.
    fn post_tags(&self, _e: &Evaluated) -> Vec<String> {
        vec![]
    }
    /// Extra free-form numbers for the evidence file.
    fn extra_stats(&self, _evaluated: &[Evaluated]) -> serde_json::Value {
        serde_json::json!({})
    }
}

thread_local! {
    static LAST_PANIC: RefCell<Option<String>> = const { RefCell::new(None) };
}

pub fn install_quiet_panic_hook() {
    std::panic::set_hook(Box::new(|info| {
        let loc = info.location().map(|l| format!("{}:{}", l.file(), l.line())).unwrap_or_default();
        let msg = if let Some(s) = info.payload().downcast_ref::<&str>() {
            s.to_string()
        } else if let Some(s) = info.payload().downcast_ref::<String>() {
            s.clone()
        } else {
            "<non-string panic>".to_string()
        };
        LAST_PANIC.with(|p| *p.borrow_mut() = Some(format!("{loc}: {msg}")));
    }));
}

/// Run `f`, mapping a panic to `Err(location: message)`.
pub fn guarded<T>(f: impl FnOnce() -> T) -> Result<T, String> {
    LAST_PANIC.with(|p| *p.borrow_mut() = None);
    match catch_unwind(AssertUnwindSafe(f)) {
        Ok(v) => Ok(v),
        Err(_) => Err(LAST_PANIC.with(|p| p.borrow_mut().take()).unwrap_or_else(|| "panic".into())),
    }
}

/// Strip the line number and the message from a panic description, keeping `file: first words`,
/// so that the key is stable under harmless edits.
pub fn panic_key(info: &str) -> String {
    let (loc, msg) = info.split_once(": ").unwrap_or((info, ""));
    let file = loc.rsplit_once(':').map(|x| x.0).unwrap_or(loc);
    let file = file.rsplit('/').next().unwrap_or(file);
    let words: Vec<&str> = msg.split_whitespace().take(6).collect();
    format!("panic@{file}:{}", words.join("_"))
}

pub fn evaluate(prop: &dyn Prop, cases: Vec<Case>) -> Vec<Evaluated> {
    let mut out = Vec::with_capacity(cases.len());
    for c in cases {
        let line = c.request.to_string();
        let (answer, panic_info) = match guarded(|| prop.eval(&c.request)) {
            Ok(Some(a)) => (a, None),
            Ok(None) => ("bad-op".to_string(), None),
            Err(info) => ("panic".to_string(), Some(info)),
        };
        let mut e = Evaluated { request: c.request, line, answer, tags: c.tags, panic_info };
        let extra = prop.post_tags(&e);
        e.tags.extend(extra);
        out.push(e);
    }
    out
}

pub fn write_report(prop: &dyn Prop, evaluated: &[Evaluated], failures: &[OracleFailure], out_dir: &str, seed: u64, tier: Tier) {
    std::fs::create_dir_all(out_dir).unwrap();
    let id = prop.id();
    let mut f = std::io::BufWriter::new(std::fs::File::create(format!("{out_dir}/{id}.cases")).unwrap());
    let mut hist: BTreeMap<String, u64> = BTreeMap::new();
    let mut distinct_nt: std::collections::BTreeSet<&str> = Default::default();
    let mut distinct: std::collections::BTreeSet<&str> = Default::default();
    for e in evaluated {
        writeln!(f, "{}\t{}\t{}", e.line, e.answer, e.tags.join(",")).unwrap();
        for t in &e.tags {
            *hist.entry(t.clone()).or_default() += 1;
        }
        distinct.insert(&e.line);
        if e.tags.iter().any(|t| t.starts_with("nt:")) {
            distinct_nt.insert(&e.line);
        }
    }
    f.flush().unwrap();
    let mut f = std::fs::File::create(format!("{out_dir}/{id}.oracle")).unwrap();
    for fl in failures {
        let j = serde_json::json!({"key": fl.key, "detail": fl.detail, "requests": fl.requests});
        writeln!(f, "{j}").unwrap();
    }
    let step = (evaluated.len() / 5).max(1);
    let samples: Vec<serde_json::Value> = evaluated
        .iter()
        .step_by(step)
        .take(6)
        .map(|e| serde_json::json!({"request": e.line, "impl": e.answer}))
        .collect();
    let stats = serde_json::json!({
        "property_id": id,
        "seed": seed,
        "tier": if tier == Tier::Quick { "quick" } else { "thorough" },
        "evaluations": evaluated.len(),
        "distinct": distinct.len(),
        "distinct_nontrivial": distinct_nt.len(),
        "rule": prop.rule(),
        "histogram": hist,
        "samples": samples,
        "oracle_failures": failures.len(),
        "panics": evaluated.iter().filter(|e| e.panic_info.is_some()).count(),
        "extra": prop.extra_stats(evaluated),
    });
    std::fs::write(format!("{out_dir}/{id}.stats.json"), serde_json::to_string_pretty(&stats).unwrap()).unwrap();
}

use std::io::BufRead;

/// Command line shared by every group binary:
///   <bin> run  <PROP> --tier quick|thorough --seed N --out DIR [--corpus FILE]
///   <bin> eval <PROP> --out DIR < requests     (replay / corpus mode: no generation)
pub fn main_for(props: Vec<Box<dyn Prop>>) {
    let args: Vec<String> = std::env::args().collect();
    if args.len() < 3 {
        eprintln!("usage: tfharness run|eval <PROP> [--tier T] [--seed N] [--out DIR] [--corpus FILE]");
        std::process::exit(2);
    }
    let mode = args[1].as_str();
    let Some(prop) = props.into_iter().find(|p| p.id() == args[2]) else {
        eprintln!("unknown property {} for this binary", args[2]);
        std::process::exit(2);
    };
    let mut tier = Tier::Quick;
    let mut seed: u64 = 0;
    let mut out = "out".to_string();
    let mut corpus: Option<String> = None;
    let mut i = 3;
    while i < args.len() {
        match args[i].as_str() {
            "--tier" => {
                tier = if args[i + 1] == "thorough" { Tier::Thorough } else { Tier::Quick };
                i += 2;
            }
            "--seed" => {
                seed = args[i + 1].parse::<i64>().map(|x| x as u64).unwrap_or(0);
                i += 2;
            }
            "--out" => {
                out = args[i + 1].clone();
                i += 2;
            }
            "--corpus" => {
                corpus = Some(args[i + 1].clone());
                i += 2;
            }
            other => {
                eprintln!("unknown argument {other}");
                std::process::exit(2);
            }
        }
    }
    install_quiet_panic_hook();
    let mut cases: Vec<Case> = vec![];
    let read_lines = |r: &mut dyn BufRead, tag: &str, cases: &mut Vec<Case>| {
        for line in r.lines() {
            let line = line.unwrap();
            let line = line.split('\t').next().unwrap_or("").trim();
            if line.is_empty() || line.starts_with('#') {
                continue;
            }
            match Sexp::parse(line) {
                Some(s) => cases.push(Case::new(s, &[tag])),
                None => eprintln!("skipping unparsable request: {line}"),
            }
        }
    };
    if let Some(c) = &corpus {
        if let Ok(f) = std::fs::File::open(c) {
            read_lines(&mut std::io::BufReader::new(f), "corpus", &mut cases);
        }
    }
    match mode {
        "run" => {
            let mut rng = Rng::new(seed);
            cases.extend(prop.generate(tier, &mut rng));
        }
        "eval" => {
            let stdin = std::io::stdin();
            read_lines(&mut stdin.lock(), "replay", &mut cases);
        }
        _ => {
            eprintln!("unknown mode {mode}");
            std::process::exit(2);
        }
    }
    let evaluated = evaluate(prop.as_ref(), cases);
    let failures = prop.oracle(&evaluated);
    write_report(prop.as_ref(), &evaluated, &failures, &out, seed, tier);
}
