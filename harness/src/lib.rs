//! tfharness — shared library: line protocol, RNG, value generators, run loop.
//! One binary per property group lives in `src/bin/`; a group that does not compile cannot break
//! the others.
pub mod framework;
pub mod rng;
pub mod sexp;
pub mod values;
