//! tfharness — runs the real trustfall crates on generated / corpus / replayed requests.
//!
//!   tfharness run  <PROP> --tier quick|thorough --seed N --out DIR [--corpus FILE]
//!   tfharness eval <PROP> --out DIR < requests        (replay / corpus mode: no generation)
mod c08;
mod framework;
mod rng;
mod sexp;
mod values;

use framework::*;
use std::io::BufRead;

fn prop_by_id(id: &str) -> Option<Box<dyn Prop>> {
    match id {
        "C08" => Some(Box::new(c08::C08)),
        _ => None,
    }
}

fn main() {
    let args: Vec<String> = std::env::args().collect();
    if args.len() < 3 {
        eprintln!("usage: tfharness run|eval <PROP> [--tier T] [--seed N] [--out DIR] [--corpus FILE]");
        std::process::exit(2);
    }
    let mode = args[1].as_str();
    let Some(prop) = prop_by_id(&args[2]) else {
        eprintln!("unknown property {}", args[2]);
        std::process::exit(2);
    };
    let mut tier = Tier::Quick;
    let mut seed: u64 = 0;
    let mut out = "out".to_string();
    let mut corpus: Option<String> = None;
    let mut i = 3;
    while i < args.len() {
        match args[i].as_str() {
            "--tier" => {
                tier = if args[i + 1] == "thorough" { Tier::Thorough } else { Tier::Quick };
                i += 2;
            }
            "--seed" => {
                seed = args[i + 1].parse::<i64>().map(|x| x as u64).unwrap_or(0);
                i += 2;
            }
            "--out" => {
                out = args[i + 1].clone();
                i += 2;
            }
            "--corpus" => {
                corpus = Some(args[i + 1].clone());
                i += 2;
            }
            other => {
                eprintln!("unknown argument {other}");
                std::process::exit(2);
            }
        }
    }
    install_quiet_panic_hook();
    let mut cases: Vec<Case> = vec![];
    let read_lines = |r: &mut dyn BufRead, tag: &str, cases: &mut Vec<Case>| {
        for line in r.lines() {
            let line = line.unwrap();
            let line = line.split('\t').next().unwrap_or("").trim();
            if line.is_empty() || line.starts_with('#') {
                continue;
            }
            match sexp::Sexp::parse(line) {
                Some(s) => cases.push(Case::new(s, &[tag])),
                None => eprintln!("skipping unparsable request: {line}"),
            }
        }
    };
    if let Some(c) = &corpus {
        if let Ok(f) = std::fs::File::open(c) {
            read_lines(&mut std::io::BufReader::new(f), "corpus", &mut cases);
        }
    }
    match mode {
        "run" => {
            let mut rng = rng::Rng::new(seed);
            cases.extend(prop.generate(tier, &mut rng));
        }
        "eval" => {
            let stdin = std::io::stdin();
            read_lines(&mut stdin.lock(), "replay", &mut cases);
        }
        _ => {
            eprintln!("unknown mode {mode}");
            std::process::exit(2);
        }
    }
    let evaluated = evaluate(prop.as_ref(), cases);
    let failures = prop.oracle(&evaluated);
    write_report(prop.as_ref(), &evaluated, &failures, &out, seed, tier);
}
