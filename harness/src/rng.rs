//! SplitMix64: every random choice of a run derives from one seed (`VERIF_SEED`).
#[derive(Clone)]
pub struct Rng(pub u64);

impl Rng {
    pub fn new(seed: u64) -> Self {
        Rng(seed ^ 0x9E37_79B9_7F4A_7C15)
    }
    pub fn next_u64(&mut self) -> u64 {
        self.0 = self.0.wrapping_add(0x9E37_79B9_7F4A_7C15);
        let mut z = self.0;
        z = (z ^ (z >> 30)).wrapping_mul(0xBF58_476D_1CE4_E5B9);
        z = (z ^ (z >> 27)).wrapping_mul(0x94D0_49BB_1331_11EB);
        z ^ (z >> 31)
    }
    /// uniform in 0..n (n > 0)
    pub fn below(&mut self, n: usize) -> usize {
        (self.next_u64() % (n as u64)) as usize
    }
    pub fn chance(&mut self, num: u32, den: u32) -> bool {
        (self.next_u64() % den as u64) < num as u64
    }
    pub fn pick<'a, T>(&mut self, xs: &'a [T]) -> &'a T {
        &xs[self.below(xs.len())]
    }
    pub fn fork(&mut self) -> Rng {
        Rng(self.next_u64())
    }
}
