//! Prefix-token s-expressions: the line protocol shared with the Lean driver.
use std::fmt;

#[derive(Debug, Clone, PartialEq, Eq)]
pub enum Sexp {
    Atom(String),
    List(Vec<Sexp>),
}

impl Sexp {
    pub fn atom(s: impl Into<String>) -> Sexp {
        Sexp::Atom(s.into())
    }
    pub fn list(v: Vec<Sexp>) -> Sexp {
        Sexp::List(v)
    }
    pub fn call(head: &str, mut args: Vec<Sexp>) -> Sexp {
        let mut v = vec![Sexp::atom(head)];
        v.append(&mut args);
        Sexp::List(v)
    }
    pub fn as_atom(&self) -> Option<&str> {
        match self {
            Sexp::Atom(s) => Some(s),
            _ => None,
        }
    }
    pub fn as_list(&self) -> Option<&[Sexp]> {
        match self {
            Sexp::List(v) => Some(v),
            _ => None,
        }
    }
    /// `(head args…)` → (head, args)
    pub fn as_call(&self) -> Option<(&str, &[Sexp])> {
        let l = self.as_list()?;
        let (h, rest) = l.split_first()?;
        Some((h.as_atom()?, rest))
    }
    pub fn parse(s: &str) -> Option<Sexp> {
        let mut stack: Vec<Vec<Sexp>> = Vec::new();
        let mut top: Vec<Sexp> = Vec::new();
        let mut cur = String::new();
        let flush = |cur: &mut String, top: &mut Vec<Sexp>| {
            if !cur.is_empty() {
                top.push(Sexp::Atom(std::mem::take(cur)));
            }
        };
        for c in s.chars() {
            match c {
                '(' => {
                    flush(&mut cur, &mut top);
                    stack.push(std::mem::take(&mut top));
                }
                ')' => {
                    flush(&mut cur, &mut top);
                    let mut parent = stack.pop()?;
                    parent.push(Sexp::List(std::mem::take(&mut top)));
                    top = parent;
                }
                ' ' | '\n' | '\t' | '\r' => flush(&mut cur, &mut top),
                c => cur.push(c),
            }
        }
        flush(&mut cur, &mut top);
        if stack.is_empty() && top.len() == 1 { top.pop() } else { None }
    }
}

impl fmt::Display for Sexp {
    fn fmt(&self, f: &mut fmt::Formatter<'_>) -> fmt::Result {
        match self {
            Sexp::Atom(s) => write!(f, "{s}"),
            Sexp::List(v) => {
                write!(f, "(")?;
                for (i, x) in v.iter().enumerate() {
                    if i > 0 {
                        write!(f, " ")?;
                    }
                    write!(f, "{x}")?;
                }
                write!(f, ")")
            }
        }
    }
}

pub fn hex(bytes: &[u8]) -> String {
    if bytes.is_empty() {
        return "-".to_string();
    }
    let mut s = String::with_capacity(bytes.len() * 2);
    for b in bytes {
        s.push_str(&format!("{b:02x}"));
    }
    s
}

pub fn unhex(s: &str) -> Option<Vec<u8>> {
    if s == "-" {
        return Some(vec![]);
    }
    if s.len() % 2 != 0 {
        return None;
    }
    (0..s.len()).step_by(2).map(|i| u8::from_str_radix(s.get(i..i + 2)?, 16).ok()).collect()
}
