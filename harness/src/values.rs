//! `FieldValue` ⇄ protocol text, and the boundary-partition value generator.
use std::sync::Arc;

use trustfall_core::ir::FieldValue;

use crate::rng::Rng;
use crate::sexp::{Sexp, hex, unhex};

/// Order-preserving integer key of a finite f64, with -0.0 and +0.0 identified.
pub fn float_key(x: f64) -> i64 {
    assert!(x.is_finite());
    let bits = x.to_bits();
    if bits >> 63 == 1 { -((bits & 0x7FFF_FFFF_FFFF_FFFF) as i64) } else { bits as i64 }
}

pub fn float_from_key(k: i64) -> f64 {
    if k < 0 { f64::from_bits((-k) as u64 | (1u64 << 63)) } else { f64::from_bits(k as u64) }
}

pub fn value_to_sexp(v: &FieldValue) -> Sexp {
    match v {
        FieldValue::Null => Sexp::atom("n"),
        FieldValue::Int64(i) => Sexp::call("i", vec![Sexp::atom(i.to_string())]),
        FieldValue::Uint64(u) => Sexp::call("u", vec![Sexp::atom(u.to_string())]),
        FieldValue::Float64(f) => Sexp::call("f", vec![Sexp::atom(float_key(*f).to_string())]),
        FieldValue::String(s) => Sexp::call("s", vec![Sexp::atom(hex(s.as_bytes()))]),
        FieldValue::Boolean(b) => Sexp::call("b", vec![Sexp::atom(if *b { "1" } else { "0" })]),
        FieldValue::Enum(s) => Sexp::call("e", vec![Sexp::atom(hex(s.as_bytes()))]),
        FieldValue::List(l) => Sexp::call("l", l.iter().map(value_to_sexp).collect()),
        _ => unreachable!("non_exhaustive FieldValue variant"),
    }
}

/// Like `value_to_sexp`, but `-0.0` is written `(f -0)` (both sides read it as key 0; the
/// implementation side really gets a negative zero). Use it when building REQUESTS whose point is
/// the comparison of values; answers always use the canonical `value_to_sexp`.
pub fn value_to_sexp_exact(v: &FieldValue) -> Sexp {
    match v {
        FieldValue::Float64(f) if *f == 0.0 && f.is_sign_negative() => Sexp::call("f", vec![Sexp::atom("-0")]),
        FieldValue::List(l) => Sexp::call("l", l.iter().map(value_to_sexp_exact).collect()),
        _ => value_to_sexp(v),
    }
}

pub fn sexp_to_value(s: &Sexp) -> Option<FieldValue> {
    if s.as_atom() == Some("n") {
        return Some(FieldValue::Null);
    }
    let (h, args) = s.as_call()?;
    match (h, args) {
        ("i", [x]) => Some(FieldValue::Int64(x.as_atom()?.parse().ok()?)),
        ("u", [x]) => Some(FieldValue::Uint64(x.as_atom()?.parse().ok()?)),
        ("f", [x]) => {
            let a = x.as_atom()?;
            if a == "-0" { Some(FieldValue::Float64(-0.0)) } else { Some(FieldValue::Float64(float_from_key(a.parse().ok()?))) }
        }
        ("s", [x]) => Some(FieldValue::String(Arc::from(String::from_utf8(unhex(x.as_atom()?)?).ok()?))),
        ("e", [x]) => Some(FieldValue::Enum(Arc::from(String::from_utf8(unhex(x.as_atom()?)?).ok()?))),
        ("b", [x]) => Some(FieldValue::Boolean(x.as_atom()? == "1")),
        ("l", xs) => Some(FieldValue::List(xs.iter().map(sexp_to_value).collect::<Option<Vec<_>>>()?.into())),
        _ => None,
    }
}

pub fn render_value(v: &FieldValue) -> String {
    value_to_sexp(v).to_string()
}

/// Integer boundary partitions, in both representations where the number fits.
pub fn boundary_ints() -> Vec<FieldValue> {
    let mut out = vec![];
    let signed: [i64; 9] = [i64::MIN, i64::MIN + 1, -2, -1, 0, 1, 2, i64::MAX - 1, i64::MAX];
    for s in signed {
        out.push(FieldValue::Int64(s));
    }
    let unsigned: [u64; 9] = [
        0,
        1,
        2,
        i64::MAX as u64 - 1,
        i64::MAX as u64,
        i64::MAX as u64 + 1,
        i64::MAX as u64 + 2,
        u64::MAX - 1,
        u64::MAX,
    ];
    for u in unsigned {
        out.push(FieldValue::Uint64(u));
    }
    out
}

pub fn boundary_floats() -> Vec<FieldValue> {
    [0.0, -0.0, 1.0, -1.0, 0.5, f64::MIN_POSITIVE, 5e-324, -5e-324, f64::MAX, f64::MIN, 1e300, 2.0f64.powi(63), 3.25]
        .iter()
        .map(|f| FieldValue::Float64(*f))
        .collect()
}

pub fn boundary_strings() -> Vec<FieldValue> {
    ["", "a", "ab", "b", "A", "a.c", "a*", "é", "日本", "\u{10FFFF}", "[", "(a|b)+", "aa", " "]
        .iter()
        .map(|s| FieldValue::from(*s))
        .collect()
}

pub fn scalar_pool() -> Vec<FieldValue> {
    let mut v = vec![FieldValue::Null, FieldValue::Boolean(false), FieldValue::Boolean(true)];
    v.extend(boundary_ints());
    v.extend(boundary_floats());
    v.extend(boundary_strings());
    v.push(FieldValue::Enum(Arc::from("a")));
    v.push(FieldValue::Enum(Arc::from("B")));
    v
}

pub fn random_int(rng: &mut Rng) -> FieldValue {
    match rng.below(4) {
        0 => rng.pick(&boundary_ints()).clone(),
        1 => FieldValue::Int64(rng.next_u64() as i64),
        2 => FieldValue::Uint64(rng.next_u64()),
        _ => {
            // small numbers in a random representation
            let n = rng.below(7) as i64 - 3;
            if n >= 0 && rng.chance(1, 2) { FieldValue::Uint64(n as u64) } else { FieldValue::Int64(n) }
        }
    }
}

pub fn random_scalar(rng: &mut Rng) -> FieldValue {
    match rng.below(10) {
        0 => FieldValue::Null,
        1 => FieldValue::Boolean(rng.chance(1, 2)),
        2..=5 => random_int(rng),
        6 => {
            if rng.chance(1, 2) {
                rng.pick(&boundary_floats()).clone()
            } else {
                let mut f = f64::from_bits(rng.next_u64());
                if !f.is_finite() {
                    f = 1.5;
                }
                FieldValue::Float64(f)
            }
        }
        7 | 8 => rng.pick(&boundary_strings()).clone(),
        _ => FieldValue::Enum(Arc::from(if rng.chance(1, 2) { "a" } else { "B" })),
    }
}

/// Random value, lists nested up to `depth` levels.
pub fn random_value(rng: &mut Rng, depth: usize) -> FieldValue {
    if depth > 0 && rng.chance(1, 3) {
        let n = rng.below(4);
        // lists are mostly homogeneous in kind (as schema-typed data is), sometimes arbitrary
        if rng.chance(3, 4) {
            let proto = random_value(rng, depth - 1);
            let mut items = vec![];
            for _ in 0..n {
                items.push(same_kind(rng, &proto, depth - 1));
            }
            FieldValue::List(items.into())
        } else {
            FieldValue::List((0..n).map(|_| random_value(rng, depth - 1)).collect::<Vec<_>>().into())
        }
    } else {
        random_scalar(rng)
    }
}

/// A random value of the same kind as `proto` (or null, sometimes).
pub fn same_kind(rng: &mut Rng, proto: &FieldValue, depth: usize) -> FieldValue {
    if rng.chance(1, 8) {
        return FieldValue::Null;
    }
    match proto {
        FieldValue::Null => FieldValue::Null,
        FieldValue::Int64(_) | FieldValue::Uint64(_) => random_int(rng),
        FieldValue::Float64(_) => rng.pick(&boundary_floats()).clone(),
        FieldValue::String(_) => rng.pick(&boundary_strings()).clone(),
        FieldValue::Boolean(_) => FieldValue::Boolean(rng.chance(1, 2)),
        FieldValue::Enum(_) => FieldValue::Enum(Arc::from(if rng.chance(1, 2) { "a" } else { "B" })),
        FieldValue::List(l) => {
            let n = rng.below(4);
            let inner = l.first().cloned().unwrap_or_else(|| random_scalar(rng));
            let d = depth.saturating_sub(1);
            FieldValue::List((0..n).map(|_| same_kind(rng, &inner, d)).collect::<Vec<_>>().into())
        }
        _ => FieldValue::Null,
    }
}

pub fn kind_name(v: &FieldValue) -> &'static str {
    match v {
        FieldValue::Null => "null",
        FieldValue::Int64(_) => "i64",
        FieldValue::Uint64(_) => "u64",
        FieldValue::Float64(_) => "f64",
        FieldValue::String(_) => "str",
        FieldValue::Boolean(_) => "bool",
        FieldValue::Enum(_) => "enum",
        FieldValue::List(_) => "list",
        _ => "other",
    }
}
