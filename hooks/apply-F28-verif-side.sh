#!/bin/sh
# Run AFTER /verif/hooks/fix-F28.diff (serde_json `float_roundtrip` in /repo/Cargo.toml) is committed to /repo.
# Switches the C16 harness to exact float round trips (no masked `-lossy` stream, no filtering of
# generated floats), updates cfg/C16.json + corpus + two Lean comments, and marks F-28 fixed.
# Until the /repo fix is in place this must NOT be applied: the new float stream would (correctly)
# report VIOLATION on the unfixed tree, and the OLD harness would loop forever on the fixed tree
# (it searches for floats that do not survive serde_json).
set -e
cd /verif
patch -p1 < hooks/verif-side-F28.diff
python3 - <<'PY'
import json, subprocess
d = json.load(open('/verif/known_findings.json'))
f = [x for x in d['findings'] if x['id'] == 'F-28' and x['property'] == 'C16'][0]
f['status'] = 'fixed'
f['fixed_by'] = 'pending'
f['what'] = f['what'] + ' FIXED by enabling serde_json\'s `float_roundtrip` feature in the workspace Cargo.toml (hooks/fix-F28.diff); guarded since by the exact float streams of C16 (historical witness in corpus/C16.cases).'
subprocess.run(['python3', '/verif/addfinding.py', json.dumps(f)], check=True)
PY
echo "now: ./check C16   (expect OK, KNOWN-FINDING F-15 only)"
