import Driver.Ty
import TrustfallModel.Model.ArgCheck
/-!
Driver commands for argument validation (C12).  Names travel as hex of their UTF-8 bytes (atom `-`
is the empty name); types as `(T <hex base> n0 … nk)` (see `Driver/Ty.lean`); values in the common
value syntax.  Both lists are given in the maps' iteration order.

  (validate-args (vars (<name> <ty>)…) (args (<name> <value>)…) [(file <hex>)])
      → ok                 (the optional `(file …)` names the repo query the implementation side
                            compiles to obtain these variables; the model ignores it)
      | (err E)            a single error, returned as itself
      | (errs E E…)        `MultipleErrors`, in the order the code pushes them
      | panic
    E ::= (ArgumentTypeError <name> <hex of the type's text>)
        | (MissingArguments <name>…) | (UnusedArguments <name>…)
  (infer-type (uses <ty>…) [(from <hex file> <hex variable>)])
      → none | (T …) | panic     running intersect over the uses of a variable
-/
namespace TF.Driver
open TF Sexp Ty Args

def renderArgErr : ArgErr String → String
  | .argumentTypeError n t _ => s!"(ArgumentTypeError {n} {bytesToHex (display t)})"
  | .missingArguments ns => "(MissingArguments" ++ String.join (ns.map fun n => " " ++ n) ++ ")"
  | .unusedArguments ns => "(UnusedArguments" ++ String.join (ns.map fun n => " " ++ n) ++ ")"

def renderArgsError : ArgsError String → String
  | .single e => "(err " ++ renderArgErr e ++ ")"
  | .multiple es => "(errs" ++ String.join (es.map fun e => " " ++ renderArgErr e) ++ ")"

/-- `(<name> <ty>)…`; `none` = malformed, `some .panic` = a type whose construction panics. -/
def toVars : List Sexp → Option (Outcome (List (String × Ty)))
  | [] => some (.ok [])
  | list [atom n, t] :: rest => do
    let ty ← toTy t
    let tl ← toVars rest
    match ty, tl with
    | .ok ty, .ok tl => pure (.ok ((n, ty) :: tl))
    | _, _ => pure .panic
  | _ => none

def toArgs : List Sexp → Option (List (String × Value))
  | [] => some []
  | list [atom n, v] :: rest => do
    let val ← toValue v
    let tl ← toArgs rest
    pure ((n, val) :: tl)
  | _ => none

def toTys : List Sexp → Option (Outcome (List Ty))
  | [] => some (.ok [])
  | t :: rest => do
    let ty ← toTy t
    let tl ← toTys rest
    match ty, tl with
    | .ok ty, .ok tl => pure (.ok (ty :: tl))
    | _, _ => pure .panic

def validateArgsCmd (vs as : List Sexp) : Option String := do
    let vars ← toVars vs
    let args ← toArgs as
    match vars with
    | .panic => pure "panic"
    | .ok vars =>
      match validate vars args with
      | .panic => pure "panic"
      | .ok (.ok ()) => pure "ok"
      | .ok (.error e) => pure (renderArgsError e)

def inferTypeCmd (uses : List Sexp) : Option String := do
    match ← toTys uses with
    | .panic => pure "panic"
    | .ok uses =>
      match inferType uses with
      | .panic => pure "panic"
      | .ok none => pure "none"
      | .ok (some t) => pure (renderTy t)

def handleArgs : String → List Sexp → Option String
  | "validate-args", [list (atom "vars" :: vs), list (atom "args" :: as)] => validateArgsCmd vs as
  | "validate-args", [list (atom "vars" :: vs), list (atom "args" :: as), list [atom "file", atom _]] =>
    validateArgsCmd vs as
  | "infer-type", [list (atom "uses" :: uses)] => inferTypeCmd uses
  | "infer-type", [list (atom "uses" :: uses), list [atom "from", atom _, atom _]] => inferTypeCmd uses
  | _, _ => none

end TF.Driver
