import Driver.Loop
import TrustfallModel.Generated.TypeDefs
/-!
Driver commands for `AutoTraits` (C24), answered from the regenerated table `Generated.typeDefs`.

Type expressions: `Name` | `(Name arg…)` | `(tuple t…)` | `(ref t)` | `(refmut t)` | `(ptr t)` |
`(slice t)` | `(dyn <send 0|1> <sync 0|1>)` | `fn`.

* `(sendsync <type>)` → `<send> <sync>` (`1`/`0`)
* `(hashfree <Name>)` → `1`/`0`: no `HashMap`/`HashSet` in any definition reachable from `Name`
* `(immutable <Name>)` → `1`/`0`: no cell / lock / atomic in any definition reachable from `Name`
* `(static-ok <NAME>)` → `1`/`0`/`none`, `(statics)` → `<count> <all write-once 1|0>` from the regenerated
  list of statics
* `(run-fresh …)`, `(run-pair …)` → `ok` (runtime cases, see below)
* `(run-shared …)`, `(run-mix …)`, `(compile-shared …)` → `ok`: runtime cases, nothing for the model to compute
  (thread interleavings are outside the model; the harness oracle compares with the sequential run).
-/
namespace TF.Driver
open TF Sexp TF.AutoTraits

mutual
def toTy : Sexp → Option TyExpr
  | atom "fn" => some .fnPtr
  | atom n => some (.path n [])
  | list [atom "ref", t] => TyExpr.ref false <$> toTy t
  | list [atom "refmut", t] => TyExpr.ref true <$> toTy t
  | list [atom "ptr", t] => TyExpr.ptr <$> toTy t
  | list [atom "slice", t] => TyExpr.slice <$> toTy t
  | list [atom "dyn", atom s, atom y] => some (.dynTrait (s == "1") (y == "1"))
  | list (atom "tuple" :: ts) => TyExpr.tuple <$> toTys ts
  | list (atom n :: ts) => TyExpr.path n <$> toTys ts
  | _ => none
def toTys : List Sexp → Option (List TyExpr)
  | [] => some []
  | t :: ts => do
    let x ← toTy t
    let xs ← toTys ts
    pure (x :: xs)
end

def bit (b : Bool) : String := if b then "1" else "0"

def handleAutotraits : String → List Sexp → Option String
  | "sendsync", [t] => do
    let ty ← toTy t
    let r := sendSync Generated.typeDefs ty
    pure s!"{bit r.1} {bit r.2}"
  | "hashfree", [atom n] =>
    some (bit ((findDef Generated.typeDefs n).isSome && hashFreeFrom Generated.typeDefs [n]))
  | "immutable", [atom n] => some (bit (immutableFrom Generated.typeDefs [n]))
  | "static-ok", [atom n] =>
    -- every extracted static of that name is write-once (`none` = no such static)
    match Generated.statics.filter (fun s => s.name == n) with
    | [] => some "none"
    | l => some (bit (l.all (staticWriteOnce Generated.typeDefs)))
  | "statics", [] =>
    some s!"{Generated.statics.length} {bit (staticsWriteOnce Generated.typeDefs Generated.statics)}"
  | "run-fresh", _ => some "ok"
  | "run-pair", _ => some "ok"
  | "run-shared", _ => some "ok"
  | "compile-shared", _ => some "ok"
  | "run-mix", _ => some "ok"
  | _, _ => none

end TF.Driver
