import Driver.Loop
import TrustfallModel.Proofs.InterpSpec.HypsDef
/-! Driver command `(hyps-c01 <schema> <data> <query text hex> <tree> <args>)` of the engine group:
evaluates the decidable hypotheses `Hyps` of the C01 main theorem (`Props/C01Main.lean`,
`Proofs/InterpSpec/HypsDef.lean`) and the fragment classifier on one real request, so that every run
measures on how many generated queries the theorem applies (non-vacuity):

  `(hyps frag=<F0|F1|F2|F3> toir=<0|1> hyps=<0|1> proved=<0|1>)`

`frag` the smallest fragment containing the query tree; `toir` the frontend model accepts the tree;
`hyps` = `Hyps` evaluated for that fragment; `proved` = the query lies in a fragment whose theorem
is closed (`provedUpTo`) and `toir`, `hyps` hold. -/
namespace TF.Driver
open TF TF.Engine TF.InterpSpec

/-- The largest fragment for which `interp_eq_spec_F<n>` is proved. -/
def provedUpTo : Nat := 2

def handleC01Hyps : Handler
  | "hyps-c01", [schema, data, _text, tree, args] => do
    let d ← parseData schema data
    let q ← Spec.parseQuery tree
    let a ← parseArgs args
    let s ← Frontend.parseSchemaView schema
    let edges ← Spec.schemaEdges schema
    let frag := fragNode q.root
    let H : HypEnv := ⟨s, d, a, edges⟩
    let toir := match Frontend.toIR s q with | .ok _ => true | .error _ => false
    let hyps := hypsB H frag q
    let b (x : Bool) : String := if x then "1" else "0"
    pure s!"(hyps frag=F{frag} toir={b toir} hyps={b hyps} proved={b (toir && hyps && decide (frag ≤ provedUpTo))})"
  | _, _ => none

end TF.Driver
