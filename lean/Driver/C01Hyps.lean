import Driver.Loop
import TrustfallModel.Proofs.InterpSpec4.HypsDef3
/-! Driver command `(hyps-c01 <schema> <data> <query text hex> <tree> <args>)` of the engine group:
evaluates the decidable hypotheses of the C01 main theorem (`Props/C01Main.lean`; `Hyps` in
`Proofs/InterpSpec/HypsDef.lean`, `Hyps3` in `Proofs/InterpSpec4/HypsDef3.lean`) and the fragment
classifier on one real request, so that every run measures on how many generated queries the
theorem applies (non-vacuity):

  `(hyps frag=<F0|F1|F2|F3> toir=<0|1> hyps=<0|1> impok=<0|1> proved=<0|1>)`

`frag` the smallest fragment containing the query tree; `toir` the frontend model accepts the tree;
`hyps` = `hypsB` for F0–F2 resp. `hyps3B` (= `Hyps3`) for F3 — since the fixes of F-9 and F-10 these
are conditions on the query tree only (there is no F-9 guard any more: a count-filtered fold may sit in
a missing `@optional` scope); `impok` = the imports of every fold of the compiled query are in order
(`importsOKC`: each tag once, none that an enclosing fold imports, not the fold's own count) — no
longer a hypothesis of the theorem (formerly the "F-10 guard", second half of `Hyps3`) but a theorem
about `toIR` (`importsOKC_of_toIR`), still evaluated here as a regression check: it must be `1`
whenever `toir=1`; `proved` = the main theorem `interp_eq_spec` (resp. its instances
`interp_eq_spec_F0 … F2`) applies with all its hypotheses, i.e. `proved = hyps`. -/
namespace TF.Driver
open TF TF.Engine TF.InterpSpec

def handleC01Hyps : Handler
  | "hyps-c01", [schema, data, _text, tree, args] => do
    let d ← parseData schema data
    let q ← Spec.parseQuery tree
    let a ← parseArgs args
    let s ← Frontend.parseSchemaView schema
    let edges ← Spec.schemaEdges schema
    let frag := fragNode q.root
    let H : HypEnv := ⟨s, d, a, edges⟩
    let b (x : Bool) : String := if x then "1" else "0"
    match Frontend.toIR s q with
    | .ok ir =>
      let impok := importsOKC [] ir.rootComponent
      let hyps := if frag ≤ 2 then hypsB H frag q else hyps3B H q
      let proved := hyps
      pure s!"(hyps frag=F{frag} toir=1 hyps={b hyps} impok={b impok} proved={b proved})"
    | .error _ => pure s!"(hyps frag=F{frag} toir=0 hyps=0 impok=0 proved=0)"
  | _, _ => none

end TF.Driver
