import Driver.Loop
import TrustfallModel.Model.Candidates
/-!
Driver commands for candidate values (C06).

Candidate syntax: `imp | all | (single v) | (multi v…) | (range <bound> <bound> 0|1)`,
bound syntax: `unb | (inc v) | (exc v)`.  Every `(range …)` is built through `Range.new`, so a null bound
makes the whole request answer `panic` (as `Range::new`'s assertion does on the implementation side).

Requests: `(cand-intersect a b)`, `(cand-normalize a)`, `(cand-exclude a v)` answer the resulting candidate
in the same syntax; `(cand-range-intersect a b)` (both operands ranges) answers `Range::intersect`'s result
without normalisation; `(cand-mem a v)` answers `1`/`0`.
-/
namespace TF.Driver
open TF Sexp Cand

def toBound : Sexp → Option Bound
  | atom "unb" => some .unbounded
  | list [atom "inc", v] => Bound.included <$> toValue v
  | list [atom "exc", v] => Bound.excluded <$> toValue v
  | _ => none

/-- `none`: not a candidate; `some .panic`: `Range::new` panics. -/
def toCandidate : Sexp → Option (Outcome Candidate)
  | atom "imp" => some (.ok .impossible)
  | atom "all" => some (.ok .all)
  | list [atom "single", v] => (fun x => Outcome.ok (Candidate.single x)) <$> toValue v
  | list (atom "multi" :: vs) => (fun xs => Outcome.ok (Candidate.multiple xs)) <$> toValues vs
  | list [atom "range", s, e, atom n] => do
    let s ← toBound s
    let e ← toBound e
    let n ← if n == "1" then some true else if n == "0" then some false else none
    match Range.new s e n with
    | .ok r => pure (.ok (.range r))
    | .panic => pure .panic
  | _ => none

def renderBound : Bound → String
  | .unbounded => "unb"
  | .included v => s!"(inc {v.render})"
  | .excluded v => s!"(exc {v.render})"

def renderRange (r : Range) : String :=
  s!"(range {renderBound r.start} {renderBound r.end_} {if r.nullIncluded then "1" else "0"})"

def renderCandidate : Candidate → String
  | .impossible => "imp"
  | .all => "all"
  | .single v => s!"(single {v.render})"
  | .multiple vs => "(multi" ++ Value.renderList vs ++ ")"
  | .range r => renderRange r

def handleCand : String → List Sexp → Option String
  | "cand-intersect", [a, b] => do
    let x ← toCandidate a
    let y ← toCandidate b
    match x, y with
    | .ok x, .ok y => pure (renderCandidate (x.intersect y))
    | _, _ => pure "panic"
  | "cand-range-intersect", [a, b] => do
    let x ← toCandidate a
    let y ← toCandidate b
    match x, y with
    | .ok (.range x), .ok (.range y) => pure (renderRange (x.intersect y))
    | .ok _, .ok _ => none
    | _, _ => pure "panic"
  | "cand-normalize", [a] => do
    match ← toCandidate a with
    | .ok x => pure (renderCandidate x.normalize)
    | .panic => pure "panic"
  | "cand-exclude", [a, v] => do
    let x ← toCandidate a
    let v ← toValue v
    match x with
    | .ok x => pure (renderCandidate (x.exclude v))
    | .panic => pure "panic"
  | "cand-mem", [a, v] => do
    let x ← toCandidate a
    let v ← toValue v
    match x with
    | .ok x => pure (if Candidate.mem v x then "1" else "0")
    | .panic => pure "panic"
  | _, _ => none

end TF.Driver
