import Driver.Engine
import TrustfallModel.Model.Carrier
/-! Driver commands of C02 (group `carrier`):

* `(batch-exec <schema> <data> <text> <ir> <args> <schedules>)` — the rows of the list-level
  interpreter: the model's answer does not look at the schedules ("same rows whatever the schedule").
* `(plan <schema> <data> <text> <ir> <args>)` — the ownership plan `Carrier.planOf ir`, rendered as a
  tree `(plan <item>…)`, `item := (<site> <vid>…) | (peek <site>) | (clo <item>…)`.
* `(batch-numbers <stem> <schedules>)` — `ok`: no dataset model for the repo's numbers adapter; the
  claim is the same ("same rows whatever the schedule"), the implementation side compares the runs.
* `(plan-numbers <stem> <ir>)` — `planOf` of a repo test query.
* `(carrier <ir> (sched n…))`, `(carrier-pre205 <ir> (sched n…))` — outcome of the carrier machine on
  the plan of the query (resp. its pre-#205 wiring) under an abstract schedule, with `fuelFor` fuel.
* `(carrier-trace <schema> <data> <text> <ir> <args> <batching schedule> (abs n…))` — the abstract
  schedule `n…` was derived by the harness from the real engine's nested call log under the given
  batching schedule; answer `(trace <outcome> <activations served> <schedule entries left>)`: the
  machine must serve exactly the activations the real run performed and read the schedule to its end.
* `(chunk (w <u64>) <n>)` / `(chunk (k <size>…) <n>)` — sizes of the non-empty batches a
  `VariableChunkIterator` with that chunk sequence (resp. an explicit size list, then "the rest")
  pulls from an `n`-element input.
-/
namespace TF.Driver
open TF TF.Engine TF.Carrier

partial def renderItem : Item → String
  | .call s vids => "(" ++ s.name ++ String.join (vids.map fun v => s!" {v}") ++ ")"
  | .peek s => s!"(peek {s.name})"
  | .closure own body =>
    (if own then "(clo" else "(shared") ++ String.join (body.map fun i => " " ++ renderItem i) ++ ")"

def renderPlan (p : Plan) : String :=
  "(plan" ++ String.join (p.items.map fun i => " " ++ renderItem i) ++ ")"

def parseSched : Sexp → Option Schedule
  | .list (.atom "sched" :: ns) => listMapM atomNat? ns
  | _ => none

def renderSizes (l : List Nat) : String := "(sizes" ++ String.join (l.map fun n => s!" {n}") ++ ")"

def handleCarrier : Handler
  | "batch-exec", [schema, data, text, ir, args, _scheds] => handleEngine "exec" [schema, data, text, ir, args]
  | "plan", [_schema, _data, _text, ir, _args] => do
    let q ← parseIR ir
    pure (renderPlan (planOf q))
  | "batch-numbers", [_stem, _scheds] => some "ok"
  | "plan-numbers", [_stem, ir] => do
    let q ← parseIR ir
    pure (renderPlan (planOf q))
  | "carrier-trace", [_schema, _data, _text, ir, _args, _real, .list (.atom "abs" :: ns)] => do
    let q ← parseIR ir
    let s ← listMapM atomNat? ns
    let p := planOf q
    match Carrier.runStats p s (fuelFor p s) with
    | (o, some (acts, rest)) => pure s!"(trace {o.render} {acts} {rest})"
    | (o, none) => pure s!"(trace {o.render})"
  | "carrier", [ir, sched] => do
    let q ← parseIR ir
    let s ← parseSched sched
    let p := planOf q
    pure (Carrier.run p s (fuelFor p s)).render
  | "carrier-pre205", [ir, sched] => do
    let q ← parseIR ir
    let s ← parseSched sched
    let p := planPre205 q
    pure (Carrier.run p s (fuelFor p s)).render
  | "chunk", [.list [.atom "w", w], n] => do
    let w ← atomNat? w
    let n ← atomNat? n
    pure (renderSizes (chunkSizes (wordSizes w n) n))
  | "chunk", [.list (.atom "k" :: sizes), n] => do
    let s ← listMapM atomNat? sizes
    let n ← atomNat? n
    pure (renderSizes (chunkSizes s n))
  | _, _ => none

end TF.Driver
