import Driver.Loop
import TrustfallModel.Model.Checker
/-!
Driver commands for the adapter invariant checker (C25):

`(checker <view> <fault>)` where
* `<view>` = `(view (props (T p…)…) (edges (T e (param 0|1)…)…) (coercions (I T)…))` — what the checker's
  meta-queries see: declared properties per non-root vertex type, edges with per-parameter
  "has a default or is nullable" flags, (type_name, coerce_to) pairs;
* `<fault>` = `(none)` | `(prop T f nonnull|drop|dup|swap|tamper)` | `(nbr T e some|drop|dup|swap|tamper)`
  | `(coerce T To true|drop|dup|swap|tamper)`.

Answer: `pass` or `fail:<payload|count|order|ctxshape>` (the assertion that fires first).
-/
namespace TF.Driver
open TF Sexp TF.Checker

def atomOf : Sexp → Option String
  | .atom s => some s
  | _ => none

def parseProps : Sexp → Option (Name × List Name)
  | .list (.atom t :: ps) => do
    let ps ← ps.mapM atomOf
    pure (t, ps)
  | _ => none

def parseParam : Sexp → Option (Name × Bool)
  | .list [.atom n, .atom "1"] => some (n, true)
  | .list [.atom n, .atom "0"] => some (n, false)
  | _ => none

def parseEdge : Sexp → Option (Name × Name × List (Name × Bool))
  | .list (.atom t :: .atom e :: ps) => do
    let ps ← ps.mapM parseParam
    pure (t, e, ps)
  | _ => none

def parseCoercion : Sexp → Option (Name × Name)
  | .list [.atom a, .atom b] => some (a, b)
  | _ => none

def parseView : Sexp → Option SchemaView
  | .list [.atom "view", .list (.atom "props" :: ps), .list (.atom "edges" :: es),
      .list (.atom "coercions" :: cs)] => do
    let ps ← ps.mapM parseProps
    let es ← es.mapM parseEdge
    let cs ← cs.mapM parseCoercion
    pure { props := ps, edges := es, coercions := cs }
  | _ => none

def parseFaultKind (payloadWord : String) (s : String) : Option FaultKind :=
  if s == payloadWord then some .payload
  else if s == "drop" then some .drop
  else if s == "dup" then some .dup
  else if s == "swap" then some .swap
  else if s == "tamper" then some .tamper
  else none

/-- `none` = unparsable; `some none` = the honest adapter. -/
def parseFault : Sexp → Option (Option Fault)
  | .list [.atom "none"] => some none
  | .list [.atom "prop", .atom t, .atom f, .atom k] =>
    (fun k => some ⟨.prop, t, f, k⟩) <$> parseFaultKind "nonnull" k
  | .list [.atom "nbr", .atom t, .atom f, .atom k] =>
    (fun k => some ⟨.nbr, t, f, k⟩) <$> parseFaultKind "some" k
  | .list [.atom "coerce", .atom t, .atom f, .atom k] =>
    (fun k => some ⟨.coerce, t, f, k⟩) <$> parseFaultKind "true" k
  | _ => none

def renderVerdict : Verdict → String
  | .pass => "pass"
  | .fail .payload => "fail:payload"
  | .fail .count => "fail:count"
  | .fail .order => "fail:order"
  | .fail .ctxshape => "fail:ctxshape"

def answerChecker (v f : Sexp) : Option String := do
  let S ← parseView v
  let fault ← parseFault f
  let A := match fault with
    | none => honestAdapter
    | some f => faultyAdapter f
  pure (renderVerdict (TF.Checker.run S A))

/-- The optional third argument is the full schema description the harness renders its SDL from; the
model sees the schema only through the view. -/
def handleChecker : String → List Sexp → Option String
  | "checker", [v, f] => answerChecker v f
  | "checker", [v, f, _schema] => answerChecker v f
  | _, _ => none

end TF.Driver
