import Driver.Loop
import TrustfallModel.Model.Decode
/-!
Driver commands for `Decode` (C18):
`(decode <target> <value>)`, `(decode-row ((name target)…) ((name value)…))`, `(decode-params …)` (the
`&EdgeParameters` entry point clones the map and runs the same deserializer: same model function).
Answers: `err`, `panic`, `(ok <decoded>)` / `(ok (name <decoded>)…)`.
-/
namespace TF.Driver
open TF Sexp TF.Decode

def toIntTy : String → Option IntTy
  | "i8" => some .i8 | "i16" => some .i16 | "i32" => some .i32 | "i64" => some .i64
  | "u8" => some .u8 | "u16" => some .u16 | "u32" => some .u32 | "u64" => some .u64
  | "isize" => some .isize | "usize" => some .usize | "i128" => some .i128 | "u128" => some .u128
  | _ => none

mutual
def toTarget : Sexp → Option Target
  | atom "f32" => some .f32
  | atom "f64" => some .f64
  | atom "bool" => some .bool
  | atom "string" => some .string
  | atom "char" => some .char
  | atom "unit" => some .unit
  | atom a => Target.int <$> toIntTy a
  | list [atom "option", t] => Target.option <$> toTarget t
  | list [atom "vec", t] => Target.vec <$> toTarget t
  | list (atom "tuple" :: ts) => Target.tuple <$> toTargets ts
  | _ => none
def toTargets : List Sexp → Option (List Target)
  | [] => some []
  | t :: ts => do
    let x ← toTarget t
    let xs ← toTargets ts
    pure (x :: xs)
end

def renderFlt : Flt → String
  | .fin k => toString k
  | .inf => "inf"
  | .negInf => "-inf"

mutual
def renderDec : Dec → String
  | .int t n => s!"(int {t.name} {n})"
  | .f64 x => s!"(f64 {renderFlt x})"
  | .f32 x => s!"(f32 {renderFlt x})"
  | .bool b => if b then "(b 1)" else "(b 0)"
  | .str s => s!"(s {bytesToHex s})"
  | .char s => s!"(c {bytesToHex s})"
  | .none => "none"
  | .some x => "(some " ++ renderDec x ++ ")"
  | .list xs => "(l" ++ renderDecs xs ++ ")"
  | .tuple xs => "(t" ++ renderDecs xs ++ ")"
def renderDecs : List Dec → String
  | [] => ""
  | x :: xs => " " ++ renderDec x ++ renderDecs xs
end

def nameBytes (s : String) : Bytes := s.toUTF8.toList

def nameString (b : Bytes) : String := String.fromUTF8! (ByteArray.mk b.toArray)

def toFields : List Sexp → Option (List (Name × Target))
  | [] => some []
  | list [atom n, t] :: rest => do
    let τ ← toTarget t
    let tl ← toFields rest
    pure ((nameBytes n, τ) :: tl)
  | _ => none

def toRow : List Sexp → Option Row
  | [] => some []
  | list [atom n, v] :: rest => do
    let x ← toValue v
    let tl ← toRow rest
    -- a key twice is not a map
    if tl.any (fun kv => kv.1 == nameBytes n) then none else
    pure ((nameBytes n, x) :: tl)
  | _ => none

def renderRes (r : Res String) : String :=
  match r with
  | .ok s => s
  | .error .invalid => "err"
  | .error .panic => "panic"

def renderRowOut : List (Name × Dec) → String
  | [] => ""
  | (k, x) :: rest => " (" ++ nameString k ++ " " ++ renderDec x ++ ")" ++ renderRowOut rest

def handleDecode : String → List Sexp → Option String
  | "decode", [t, v] => do
    let τ ← toTarget t
    let x ← toValue v
    pure (renderRes ((fun d => "(ok " ++ renderDec d ++ ")") <$> decode τ x))
  | "decode-row", [list fs, list r] | "decode-params", [list fs, list r] => do
    let fields ← toFields fs
    let row ← toRow r
    pure (renderRes ((fun out => "(ok" ++ renderRowOut out ++ ")") <$> decodeRow fields row))
  | _, _ => none

end TF.Driver
