import Driver.Loop
import TrustfallModel.Model.Interp
import TrustfallModel.Model.Spec
import TrustfallModel.Model.Outputs
/-! Driver commands of the engine group: `(exec …)` (Interp over the real IR) and `(spec-exec …)`
(declarative Spec over the generator's query tree). See ENGINE_PROTOCOL.md. -/
namespace TF.Driver
open TF TF.Engine

def renderRow (r : Row) : String :=
  "(row" ++ String.join (r.map fun (n, v) => s!" ({n} {v.render})") ++ ")"

def renderRows (rs : List Row) : String :=
  "(rows" ++ String.join (rs.map fun r => " " ++ renderRow r) ++ ")"

def renderR (r : R (List Row)) : String :=
  match r with
  | .ok rows => renderRows rows
  | .panic _ => "panic"
  | .fuel => "out-of-fuel"

/-- `Type::is_valid_value` on the structural type view (Enum values: valid for no type). -/
def validValue : List Bool → Name → Value → R Bool
  | [], _, _ => .ok false
  | nullable :: rest, base, v =>
    match v with
    | .null => .ok nullable
    | .enum _ => .ok false
    | .list items =>
      if rest.isEmpty then .ok false
      else
        let rec go : List Value → R Bool
          | [] => .ok true
          | x :: xs =>
            match validValue rest base x with
            | .ok true => go xs
            | other => other
        go items
    | .int64 _ | .uint64 _ => .ok (rest.isEmpty && base == "Int")
    | .float64 _ => .ok (rest.isEmpty && base == "Float")
    | .string _ => .ok (rest.isEmpty && base == "String")
    | .boolean _ => .ok (rest.isEmpty && base == "Boolean")

/-- `InterpretedQuery::from_query_and_arguments`: the error variants in the order the code pushes
them, or `none` when the arguments are accepted. -/
def validateArgs (vars : List (Name × QTy)) (args : List (Name × Value)) : R (Option (List String)) :=
  let rec typeErrs : List (Name × QTy) → R (List String)
    | [] => .ok []
    | (n, t) :: rest =>
      match args.find? (·.1 == n) with
      | some (_, v) =>
        match validValue t.nulls t.base v with
        | .ok ok =>
          match typeErrs rest with
          | .ok es => .ok (if ok then es else "ArgumentTypeError" :: es)
          | other => other
        | .panic s => .panic s
        | .fuel => .fuel
      | none => typeErrs rest
  match typeErrs vars with
  | .ok es =>
    let missing := vars.any fun (n, _) => (args.find? (·.1 == n)).isNone
    let unused := args.any fun (n, _) => (vars.find? (·.1 == n)).isNone
    let all := es ++ (if missing then ["MissingArguments"] else []) ++ (if unused then ["UnusedArguments"] else [])
    .ok (if all.isEmpty then none else some all)
  | .panic s => .panic s
  | .fuel => .fuel

/-- `exec` and its variants whose implementation side runs the same query under a wrapper adapter
(contract checking, trace replay, …): the model's answer is the same `Interp` rows. -/
def execLike (schema data ir args : Sexp) (useLimits : Bool := true) : Option String := do
    let d ← parseData schema data
    let q ← parseIR ir
    let a ← parseArgs args
    match validateArgs q.variables a with
    | .ok none => pure (renderR (interpret { Env.ofData d a with useLimits := useLimits } q))
    | .ok (some errs) => pure ("(err args " ++ " ".intercalate errs ++ ")")
    | .panic _ => pure "panic"
    | .fuel => pure "out-of-fuel"

def handleEngine : Handler
  | "contract-exec", [schema, data, _text, ir, args] => execLike schema data ir args
  | "replay-exec", [schema, data, _text, ir, args] => execLike schema data ir args
  | "spec-nolimits", [schema, data, _text, ir, args] => execLike schema data ir args false
  | "det", _ => some "ok"
  | "det-schema", _ => some "ok"
  | "exec", [schema, data, _text, ir, args] => do
    let d ← parseData schema data
    let q ← parseIR ir
    let a ← parseArgs args
    match validateArgs q.variables a with
    | .ok none => pure (renderR (interpret (Env.ofData d a) q))
    | .ok (some errs) => pure ("(err args " ++ " ".intercalate errs ++ ")")
    | .panic _ => pure "panic"
    | .fuel => pure "out-of-fuel"
  | "spec-exec", [schema, data, _text, tree, args] => do
    let d ← parseData schema data
    let q ← Spec.parseQuery tree
    let a ← parseArgs args
    let edges ← Spec.schemaEdges schema
    pure (renderR (Spec.rows ⟨d, a, edges⟩ q))
  | "outputs", [_schema, _text, ir] => do
    let q ← parseIR ir
    let renderTy (t : QTy) : String :=
      s!"(T {t.base}" ++ String.join (t.nulls.map fun b => if b then " 1" else " 0") ++ ")"
    pure ("(outs" ++ String.join (q.outputs.map fun o => s!" ({o.name} {renderTy o.ty} {o.vid})") ++ ")")
  | _, _ => none

end TF.Driver
