import Driver.Loop
import TrustfallModel.Proofs.InterpInvDefs
/-! Driver command `(hyps <schema> <data> <query text hex> <ir> <args>)` of the engine group: evaluates
the decidable hypotheses of the C13 / C21 / C09 theorems (`Proofs/InterpInvDefs.lean`) on one real
request, so that every run measures on how many generated queries the theorems' premises actually
hold: `(hyps wf=<0|1> schema=<0|1> args=<0|1> conforms=<0|1> notrigger=<0|1>)`. -/
namespace TF.Driver
open TF TF.Engine

def handleEngineHyps : Handler
  | "hyps", [schema, data, _text, ir, args] => do
    let d ← parseData schema data
    let q ← parseIR ir
    let a ← parseArgs args
    let s ← Frontend.parseSchemaView schema
    let b (x : Bool) : String := if x then "1" else "0"
    pure s!"(hyps wf={b (WFq q)} schema={b (SchemaOK s q)} args={b (ArgsOK q a)} conforms={b (Conforms s d)} notrigger={b (NoKnownTrigger d q a)})"
  | _, _ => none

end TF.Driver
