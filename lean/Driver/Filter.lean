import Driver.Loop
import TrustfallModel.Model.Filter
/-!
Driver commands for the filter operators (C07):

* `(filter <op> <left> <right>)` for the binary operators
  `eq neq lt le gt ge one_of not_one_of contains not_contains has_prefix not_has_prefix has_suffix
  not_has_suffix has_substring not_has_substring` (both dispatch tables select the same function
  for these; the tag table is evaluated);
* `(filter <op> <left> <right> <compiles:0|1> <matches:0|1>)` for `regex_slow not_regex_slow`
  (tag path) and `regex_opt not_regex_opt` (variable path): the driver has no regex engine, the
  two bits are the engine's verdict on this `(pattern, haystack)` pair and instantiate the model's
  `rx` parameter;
* `(filter is_null <v>)`, `(filter is_not_null <v>)`.

Answers: `1`, `0`, `panic`.
-/
namespace TF.Driver
open TF Sexp Filter

def renderOutcome : Outcome Bool → String
  | .ok true => "1"
  | .ok false => "0"
  | .panic => "panic"

def plainBinOp : String → Option BinOp
  | "eq" => some .equals
  | "neq" => some .notEquals
  | "lt" => some .lessThan
  | "le" => some .lessThanOrEqual
  | "gt" => some .greaterThan
  | "ge" => some .greaterThanOrEqual
  | "one_of" => some .oneOf
  | "not_one_of" => some .notOneOf
  | "contains" => some .contains
  | "not_contains" => some .notContains
  | "has_prefix" => some .hasPrefix
  | "not_has_prefix" => some .notHasPrefix
  | "has_suffix" => some .hasSuffix
  | "not_has_suffix" => some .notHasSuffix
  | "has_substring" => some .hasSubstring
  | "not_has_substring" => some .notHasSubstring
  | _ => none

def regexOp : String → Option (ArgPath × BinOp)
  | "regex_slow" => some (.tagged, .regexMatches)
  | "not_regex_slow" => some (.tagged, .notRegexMatches)
  | "regex_opt" => some (.static, .regexMatches)
  | "not_regex_opt" => some (.static, .notRegexMatches)
  | _ => none

def unaryOp : String → Option UnOp
  | "is_null" => some .isNull
  | "is_not_null" => some .isNotNull
  | _ => none

def bit : Sexp → Option Bool
  | .atom "0" => some false
  | .atom "1" => some true
  | _ => none

/-- The engine's verdict as an `rx`: every pattern compiles iff `compiles`, every haystack matches
iff `isMatch` (only one pattern and one haystack occur in a request). -/
def rxOfBits (compiles isMatch : Bool) : RegexEngine :=
  fun _ => if compiles then some (fun _ => isMatch) else none

def handleFilter : String → List Sexp → Option String
  | "filter", [.atom op, v] => do
    let u ← unaryOp op
    let x ← toValue v
    pure (if applyUnary u x then "1" else "0")
  | "filter", [.atom op, l, r] => do
    let b ← plainBinOp op
    let x ← toValue l
    let y ← toValue r
    pure (renderOutcome (applyBinary (fun _ => none) .tagged b x y))
  | "filter", [.atom op, l, r, c, m] => do
    let (path, b) ← regexOp op
    let x ← toValue l
    let y ← toValue r
    let compiles ← bit c
    let isMatch ← bit m
    pure (renderOutcome (applyBinary (rxOfBits compiles isMatch) path b x y))
  | _, _ => none

end TF.Driver
