import Driver.Loop
import TrustfallModel.Model.Filter
/-!
Driver commands for the filter operators (C07):

* `(filter <op> <left> <right>)` for the binary operators
  `eq neq lt le gt ge one_of not_one_of contains not_contains has_prefix not_has_prefix has_suffix
  not_has_suffix has_substring not_has_substring` (both dispatch tables select the same function
  for these; the tag table is evaluated);
* `(filter <op> <left> <right> <compiles:0|1> <matches:0|1>)` for `regex_slow not_regex_slow`
  (tag path) and `regex_opt not_regex_opt` (variable path): the driver has no regex engine, the
  two bits are the engine's verdict on this `(pattern, haystack)` pair and instantiate the model's
  `rx` parameter;
* `(filter is_null <v>)`, `(filter is_not_null <v>)`;
* `(tagged-stream <op> <pair>…)`: a whole stream of contexts through ONE tag-path filter stage
  (`Filter.taggedStreamAnswer`); `<pair>` is `(p <left> <right|none>)` for the plain binary
  operators and `(p <left> <right|none> <compiles> <matches>)` for `regex_slow not_regex_slow`;
  `none` is `TaggedValue::NonexistentOptional`; the bits of all pairs together instantiate ONE
  `rx` for the stream (`rxOfTable`);
* `(static-stream <op> <right> <left>…)` for the plain binary operators and
  `(static-stream <op> <right> <compiles> (h <left> <matches>)…)` for `regex_opt not_regex_opt`:
  a stream of left values against one query-variable value through ONE variable-path stage
  (`Filter.staticStreamAnswer`).

Answers: `1`, `0`, `panic`; streams: `(bits b…)` (one bit per context, 1 = survived) or `panic`.
-/
namespace TF.Driver
open TF Sexp Filter

def renderOutcome : Outcome Bool → String
  | .ok true => "1"
  | .ok false => "0"
  | .panic => "panic"

def plainBinOp : String → Option BinOp
  | "eq" => some .equals
  | "neq" => some .notEquals
  | "lt" => some .lessThan
  | "le" => some .lessThanOrEqual
  | "gt" => some .greaterThan
  | "ge" => some .greaterThanOrEqual
  | "one_of" => some .oneOf
  | "not_one_of" => some .notOneOf
  | "contains" => some .contains
  | "not_contains" => some .notContains
  | "has_prefix" => some .hasPrefix
  | "not_has_prefix" => some .notHasPrefix
  | "has_suffix" => some .hasSuffix
  | "not_has_suffix" => some .notHasSuffix
  | "has_substring" => some .hasSubstring
  | "not_has_substring" => some .notHasSubstring
  | _ => none

def regexOp : String → Option (ArgPath × BinOp)
  | "regex_slow" => some (.tagged, .regexMatches)
  | "not_regex_slow" => some (.tagged, .notRegexMatches)
  | "regex_opt" => some (.static, .regexMatches)
  | "not_regex_opt" => some (.static, .notRegexMatches)
  | _ => none

def unaryOp : String → Option UnOp
  | "is_null" => some .isNull
  | "is_not_null" => some .isNotNull
  | _ => none

def bit : Sexp → Option Bool
  | .atom "0" => some false
  | .atom "1" => some true
  | _ => none

/-- The engine's verdict as an `rx`: every pattern compiles iff `compiles`, every haystack matches
iff `isMatch` (only one pattern and one haystack occur in a request). -/
def rxOfBits (compiles isMatch : Bool) : RegexEngine :=
  fun _ => if compiles then some (fun _ => isMatch) else none

/-- One observation of the regex engine carried by a stream request. -/
structure RxEntry where
  pattern : Bytes
  haystack : Bytes
  compiles : Bool
  isMatch : Bool

/-- The engine's verdicts on the `(pattern, haystack)` pairs of one stream as ONE `rx` for the
whole stream: a pattern compiles iff its (first) entry says so, and then matches a haystack iff
the entry of that `(pattern, haystack)` says so.  (The harness takes the bits from the regex
crate, a function of `(pattern, haystack)`, so entries never contradict each other.) -/
def rxOfTable (t : List RxEntry) : RegexEngine := fun p =>
  match t.find? (fun e => e.pattern == p) with
  | none => none
  | some e =>
    if e.compiles then
      some fun h =>
        match t.find? (fun e => e.pattern == p && e.haystack == h) with
        | some e => e.isMatch
        | none => false
    else none

def renderBits : Outcome (List Bool) → String
  | .panic => "panic"
  | .ok bs => "(bits" ++ String.join (bs.map fun b => if b then " 1" else " 0") ++ ")"

def rightOperand : Sexp → Option (Option Value)
  | .atom "none" => some none
  | r => some <$> toValue r

/-- `(p <l> <r|none>)` or `(p <l> <r|none> <c> <m>)` (`withBits`). -/
def streamPair (withBits : Bool) : Sexp → Option (StreamPair × List RxEntry)
  | .list [.atom "p", l, r] =>
    if withBits then none else do
      let x ← toValue l
      let y ← rightOperand r
      pure ((x, y), [])
  | .list [.atom "p", l, r, c, m] =>
    if !withBits then none else do
      let x ← toValue l
      let y ← rightOperand r
      let compiles ← bit c
      let isMatch ← bit m
      match x, y with
      | .string h, some (.string pat) => pure ((x, y), [⟨pat, h, compiles, isMatch⟩])
      | _, _ => pure ((x, y), [])
  | _ => none

def streamPairs (withBits : Bool) : List Sexp → Option (List StreamPair × List RxEntry)
  | [] => some ([], [])
  | s :: rest => do
    let (p, es) ← streamPair withBits s
    let (ps, ess) ← streamPairs withBits rest
    pure (p :: ps, es ++ ess)

/-- `(h <l> <m>)` entries of a static regex stream. -/
def staticRegexLefts (pat : Value) (compiles : Bool) :
    List Sexp → Option (List Value × List RxEntry)
  | [] => some ([], [])
  | .list [.atom "h", l, m] :: rest => do
    let x ← toValue l
    let isMatch ← bit m
    let (xs, es) ← staticRegexLefts pat compiles rest
    match x, pat with
    | .string h, .string p => pure (x :: xs, ⟨p, h, compiles, isMatch⟩ :: es)
    | _, _ => pure (x :: xs, es)
  | _ => none

def handleFilter : String → List Sexp → Option String
  | "tagged-stream", .atom op :: pairs =>
    match plainBinOp op with
    | some b => do
      let (ps, _) ← streamPairs false pairs
      pure (renderBits (taggedStreamAnswer (fun _ => none) b ps))
    | none => do
      let (path, b) ← regexOp op
      if path != ArgPath.tagged then none
      let (ps, table) ← streamPairs true pairs
      pure (renderBits (taggedStreamAnswer (rxOfTable table) b ps))
  | "static-stream", .atom op :: r :: rest =>
    match plainBinOp op with
    | some b => do
      let y ← toValue r
      let xs ← toValues rest
      pure (renderBits (staticStreamAnswer (fun _ => none) b y xs))
    | none => do
      let (path, b) ← regexOp op
      if path != ArgPath.static then none
      match rest with
      | c :: lefts => do
        let y ← toValue r
        let compiles ← bit c
        let (xs, table) ← staticRegexLefts y compiles lefts
        -- the pattern's own verdict, so that it is there for an empty / all-null stream too
        -- (last: a real `(pattern, "")` observation, if any, is found before it)
        let table := match y with
          | .string p => table ++ [⟨p, [], compiles, false⟩]
          | _ => table
        pure (renderBits (staticStreamAnswer (rxOfTable table) b y xs))
      | [] => none
  | "filter", [.atom op, v] => do
    let u ← unaryOp op
    let x ← toValue v
    pure (if applyUnary u x then "1" else "0")
  | "filter", [.atom op, l, r] => do
    let b ← plainBinOp op
    let x ← toValue l
    let y ← toValue r
    pure (renderOutcome (applyBinary (fun _ => none) .tagged b x y))
  | "filter", [.atom op, l, r, c, m] => do
    let (path, b) ← regexOp op
    let x ← toValue l
    let y ← toValue r
    let compiles ← bit c
    let isMatch ← bit m
    pure (renderOutcome (applyBinary (rxOfBits compiles isMatch) path b x y))
  | _, _ => none

end TF.Driver
