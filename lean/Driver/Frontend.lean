import Driver.Loop
import TrustfallModel.Model.FrontendCheck
/-!
Driver commands of group `frontend` (C10).

`(parse-doc <doc>)` answers `panic` | `ok` | `(err <ParseErrorVariant>)`: the outcome class of
`graphql_query::query::parse_document` on the abstract document.
`(compile-doc <schema-id> <view> <doc>)` answers `panic` | `ok` | `(err parse <Variant>)` |
`(err frontend <Variant>…)`: the outcome class of `frontend::parse` minus the text parser
(`parse_doc` + the `IndexedQuery` conversion) against the schema described by `<view>`; the
`<schema-id>` only tells the harness which real schema to load.  When a field of the view declares a
parameter twice the answer is `(schema-rejected DuplicateFieldParameterDefinition)`: since the repair
of F-C10-5 `Schema::parse` rejects such a text, so there is no schema to compile against (the model's
`compile` on such a view is still the kernel-checked witness `TF.C10.paramDuplicate_witness`).
`(view-valid <schema-id> <view>)` answers `1`/`0`: whether the view satisfies the hypothesis
`ValidSchemaView` of the totality theorems (decided by `validSchemaViewB`).
`(text-nopanic <hex>)` answers the constant `nopanic` (the byte-level stream explores the external
text parser, which is not modelled; the implementation answers `nopanic` or `panic`).

Document encoding (shared with `harness/src/bin/frontend.rs`); every name / string is the lowercase
hex of its UTF-8 bytes (`-` = empty), an absent alias / type condition is `~`:
```
doc   := (doc <ops> (<frag>…))
ops   := (single <op>) | (multi (<name> <op>)…)
op    := (op q|m|s <number of variable definitions> (<dir>…) (<sel>…))
frag  := (frag <name> <typecond> (<dir>…) (<sel>…))
sel   := (f <alias|~> <name> (<arg>…) (<dir>…) (<sel>…)) | (sp <name> (<dir>…))
       | (in <typecond|~> (<dir>…) (<sel>…))
arg   := (<name> <value>)            dir := (d <name> (<arg>…))
value := (v <name>) | n | (i <int>) | (fl <text>) | (s <str>) | (b 0|1) | (e <name>)
       | (l <value>…) | (o (<name> <value>)…)
```
Schema view (names are plain atoms: GraphQL identifiers):
```
view  := (schema <queryType> (<scalar>…) (<type>…))
type  := (t <name> 0|1 (<implemented interface>…) (<field>…))       1 = interface
field := (<name> <ty> (<param>…))        param := (<name> <ty> 0|1)  1 = has a default value
ty    := (<base> <f0> <f1> …)            fi = 1 iff level i (outermost first) is nullable
```
-/
namespace TF.Driver
open TF Sexp TF.FE

/-- hex of UTF-8 bytes → `String`. -/
def hexStr (a : String) : Option String := do
  let bytes ← atomBytes a
  String.fromUTF8? (ByteArray.mk bytes.toArray)

mutual
def toGValue : Sexp → Option GValue
  | .atom "n" => some .null
  | .list [.atom "v", .atom x] => GValue.var <$> hexStr x
  | .list [.atom "i", .atom x] => (fun i => GValue.num (.int i)) <$> x.toInt?
  | .list [.atom "fl", .atom x] => (fun t => GValue.num (.float t)) <$> hexStr x
  | .list [.atom "s", .atom x] => GValue.str <$> hexStr x
  | .list [.atom "b", .atom x] => some (.bool (x == "1"))
  | .list [.atom "e", .atom x] => GValue.enum <$> hexStr x
  | .list (.atom "l" :: xs) => GValue.list <$> toGValues xs
  | .list (.atom "o" :: kvs) => (fun (p : List String × List GValue) => GValue.object p.1 p.2) <$> toGFields kvs
  | _ => none
def toGValues : List Sexp → Option (List GValue)
  | [] => some []
  | x :: xs => do
    let v ← toGValue x
    let vs ← toGValues xs
    pure (v :: vs)
def toGFields : List Sexp → Option (List String × List GValue)
  | [] => some ([], [])
  | .list [.atom k, v] :: rest => do
    let k ← hexStr k
    let v ← toGValue v
    let (ks, vs) ← toGFields rest
    pure (k :: ks, v :: vs)
  | _ => none
end

def toArg : Sexp → Option Arg
  | .list [.atom n, v] => do
    let n ← hexStr n
    let v ← toGValue v
    pure ⟨n, v⟩
  | _ => none

def toDirective : Sexp → Option Directive
  | .list [.atom "d", .atom n, .list args] => do
    let n ← hexStr n
    let as ← args.mapM toArg
    pure ⟨n, as⟩
  | _ => none

def optName (a : String) : Option (Option String) :=
  if a == "~" then some none else some <$> hexStr a

mutual
def toSelection : Sexp → Option Selection
  | .list [.atom "f", .atom alias, .atom name, .list args, .list dirs, .list sels] => do
    let alias ← optName alias
    let name ← hexStr name
    let args ← args.mapM toArg
    let dirs ← dirs.mapM toDirective
    let sels ← toSelections sels
    pure (.field ⟨alias, name, args, dirs⟩ sels)
  | .list [.atom "sp", .atom name, .list dirs] => do
    let name ← hexStr name
    let dirs ← dirs.mapM toDirective
    pure (.spread name dirs)
  | .list [.atom "in", .atom tc, .list dirs, .list sels] => do
    let tc ← optName tc
    let dirs ← dirs.mapM toDirective
    let sels ← toSelections sels
    pure (.inline tc dirs sels)
  | _ => none
def toSelections : List Sexp → Option (List Selection)
  | [] => some []
  | x :: xs => do
    let s ← toSelection x
    let ss ← toSelections xs
    pure (s :: ss)
end

def toOperation : Sexp → Option Operation
  | .list [.atom "op", .atom k, .atom nv, .list dirs, .list sels] => do
    let kind ← if k == "q" then some OpKind.query else if k == "m" then some .mutation
      else if k == "s" then some .subscription else none
    let nv ← nv.toNat?
    let dirs ← dirs.mapM toDirective
    let sels ← toSelections sels
    pure ⟨kind, nv, dirs, sels⟩
  | _ => none

def toFragment : Sexp → Option Fragment
  | .list [.atom "frag", .atom n, .atom tc, .list dirs, .list sels] => do
    let n ← hexStr n
    let tc ← hexStr tc
    let dirs ← dirs.mapM toDirective
    let sels ← toSelections sels
    pure ⟨n, tc, dirs, sels⟩
  | _ => none

def toOps : Sexp → Option Ops
  | .list [.atom "single", op] => Ops.single <$> toOperation op
  | .list (.atom "multi" :: ops) =>
    Ops.multiple <$> ops.mapM fun
      | .list [.atom n, op] => do
        let n ← hexStr n
        let op ← toOperation op
        pure (n, op)
      | _ => none
  | _ => none

def toDoc : Sexp → Option Doc
  | .list [.atom "doc", ops, .list frags] => do
    let ops ← toOps ops
    let frags ← frags.mapM toFragment
    pure ⟨ops, frags⟩
  | _ => none

def renderParseErr (e : ParseErr) : String := (repr e).pretty.replace "TF.FE.ParseErr." ""
def renderFrontErr (e : FrontErr) : String := (repr e).pretty.replace "TF.FE.FrontErr." ""

def toFTy : Sexp → Option FTy
  | .list (.atom base :: .atom f0 :: flags) => do
    let inner ← flags.mapM fun | .atom f => some (f == "1") | _ => none
    pure ⟨base, f0 == "1", inner⟩
  | _ => none

def toParamDef : Sexp → Option ParamDef
  | .list [.atom n, ty, .atom d] => do
    let t ← toFTy ty
    pure ⟨n, t, d == "1"⟩
  | _ => none

def toFieldDef : Sexp → Option FieldDef
  | .list [.atom n, ty, .list params] => do
    let t ← toFTy ty
    let ps ← params.mapM toParamDef
    pure ⟨n, t, ps⟩
  | _ => none

def toAtoms (l : List Sexp) : Option (List String) :=
  l.mapM fun | .atom a => some a | _ => none

def toTypeDef : Sexp → Option TypeDef
  | .list [.atom "t", .atom n, .atom i, .list impls, .list fields] => do
    let is ← toAtoms impls
    let fs ← fields.mapM toFieldDef
    pure ⟨n, i == "1", is, fs⟩
  | _ => none

def toSchemaView : Sexp → Option SchemaView
  | .list [.atom "schema", .atom q, .list scalars, .list types] => do
    let ss ← toAtoms scalars
    let ts ← types.mapM toTypeDef
    pure ⟨q, ss, ts⟩
  | _ => none

def renderCompile (r : Res CompileErr Unit) : String :=
  match r with
  | .ok _ => "ok"
  | .err (.parse e) => s!"(err parse {renderParseErr e})"
  | .err (.frontend es) => "(err frontend " ++ " ".intercalate (es.map renderFrontErr) ++ ")"
  | .panic _ => "panic"

/-- Some field of the view declares the same parameter name twice: such a schema text is rejected by
`Schema::parse` (`DuplicateFieldParameterDefinition`) since the repair of F-C10-5. -/
def viewDeclaresParamTwice (view : SchemaView) : Bool :=
  view.types.any fun t => t.fields.any fun f => !decide (f.params.map (·.name)).Nodup

def handleFrontend : String → List Sexp → Option String
  | "parse-doc", [d] => do
    let doc ← toDoc d
    pure (match parseDocument doc with
      | .ok _ => "ok"
      | .err e => s!"(err {renderParseErr e})"
      | .panic _ => "panic")
  | "compile-doc", [.atom _, v, d] => do
    let view ← toSchemaView v
    let doc ← toDoc d
    -- since the repair of F-C10-5 `Schema::parse` rejects a schema text in which a field declares a
    -- parameter twice (`DuplicateFieldParameterDefinition`, modelled in `Model/SchemaDoc.lean`,
    -- `TF.C19.accepted_params_distinct`): there is no `Schema` to compile against
    pure (if viewDeclaresParamTwice view then "(schema-rejected DuplicateFieldParameterDefinition)"
      else renderCompile (compile view doc))
  | "compile-site", [.atom _, v, d] => do
    -- developer aid: the panic site
    let view ← toSchemaView v
    let doc ← toDoc d
    pure (match compile view doc with
      | .panic s => (repr s).pretty
      | r => renderCompile r)
  | "view-valid", [.atom _, v] => do
    let view ← toSchemaView v
    pure (if validSchemaViewB view then "1" else "0")
  | "text-nopanic", [.atom _] => some "nopanic"
  | _, _ => none

end TF.Driver
