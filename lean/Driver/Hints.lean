import Driver.Loop
import Driver.Cand
import Driver.Engine
import TrustfallModel.Model.Hints
/-!
Driver commands of the `hints` group (C05, C04).  See ENGINE_PROTOCOL.md for the shapes of `<schema>`,
`<data>`, `<ir>`, `<args>`.

* `(required <schema> <query text hex> <ir> <args>)` → `(req (<vid> <prop>…)…)`: for every Vid of the
  query in increasing Vid order, the model of `VertexInfo::required_properties` in the order the code
  reports them.  (`<schema>`, the text and `<args>` are not consulted by the model.)
* `(req-exec <schema> <data> <query text hex> <ir> <args>)` → the rows, exactly like `exec` (the
  implementation runs the query under the wrapper adapter that records the required-properties check
  of every `resolve_property` call; the oracle lives in the harness).
* `(hints <schema> <query text hex> <ir> <args>)` → `(hints (v <vid> (static (<prop> <cand>)…)
  (dyn (<prop> <op> <(ctx <vid> <field>)|(fcount <eid>)> <initial cand>)…) (mand <eid>…))…)` in Vid order: what the root `ResolveInfo` (not completed) and the
  `NeighborInfo`s reached from it through `edges_with_name(..).destination()` report; candidates in
  the syntax of `Driver/Cand.lean`; `(v <vid> panic)` when a hint method panics.
* `(points <schema> <data> <query text hex> <ir> <args> (eids <eid>…))` → `(points (start <vid> …)
  (e <eid> <vid> …)…)`: the same report for the hint object of each resolution point
  (`ResolveInfo` of the starting vertices; `ResolveEdgeInfo::destination()` of each listed edge).
* `(tag-cand <ctx|count> <op> <nonexistent | (some <value>)> <initial candidate>)` → the candidate
  `DynamicallyResolvedValue::resolve` computes for one context (`candidateOfTag`).
* `(prune-exec <schema> <data> <query text hex> <ir> <args>)` → the rows of the interpreter under
  the model's `pruneAdapter` (the implementation answers the rows of the plain run).
* `(static-cand <schema> <query text hex> <ir> <args> <vid> <prop>)` → the static candidate the hint
  object of the resolution point of `<vid>` reports for `<prop>` (`-`: none);
  `(mandatory <schema> <query text hex> <ir> <args> <vid>)` → `(mand <edge name>…)`.
-/
namespace TF.Driver
open TF TF.Engine

def insertNat (n : Nat) : List Nat → List Nat
  | [] => [n]
  | x :: xs => if n ≤ x then n :: x :: xs else x :: insertNat n xs

def sortNats (l : List Nat) : List Nat := l.foldr insertNat []

def renderRequired (ir : IRQuery) : String :=
  "(req" ++ String.join ((sortNats (IRQuery.allVids ir)).map fun vid =>
    s!" ({vid}" ++ String.join ((requiredProps ir vid).map fun p => " " ++ p) ++ ")") ++ ")"

def insertName (n : Name) : List Name → List Name
  | [] => [n]
  | x :: xs => if n ≤ x then n :: x :: xs else x :: insertName n xs

def sortNames (l : List Name) : List Name := l.foldr insertName []

def renderBareOp : Filter.BinOp → String
  | .equals => "eq"
  | .notEquals => "neq"
  | .lessThan => "lt"
  | .lessThanOrEqual => "le"
  | .greaterThan => "gt"
  | .greaterThanOrEqual => "ge"
  | .oneOf => "one_of"
  | _ => "?"

def renderTagRef : FieldRef → String
  | .ctx vid field _ => s!"(ctx {vid} {field})"
  | .fcount eid _ => s!"(fcount {eid})"

/-- `(static …) (dyn (<prop> <op> <tag>)…) (mand …)` of the hint object `i` whose vertex `v` lives in `comp` -/
def infoReport (args : List (Name × Value)) (comp : Component) (v : IRVertex) (i : VInfo) : String :=
  let props := sortNames (filterSubjects v)
  let body : R String := do
    let st ← mapR (fun p => (staticallyRequired args i v p).map fun c => (p, c)) props
    let dy ← mapR (fun p => (dynamicallyRequired args i v p).map fun c => (p, c)) props
    let es ← mandatoryEdges args comp i
    let stS := String.join (st.filterMap fun (p, c) => c.map fun c => s!" ({p} {renderCandidate c})")
    let dyS := String.join (dy.filterMap fun (p, c) => c.map fun (d : DynChoice) =>
      s!" ({p} {renderBareOp d.op} {renderTagRef d.field} {renderCandidate d.initial})")
    let mdS := String.join ((sortNats (es.map (·.eid))).map fun e => s!" {e}")
    pure s!"(static{stS}) (dyn{dyS}) (mand{mdS})"
  match body with
  | .ok s => s
  | _ => "panic"

/-- the component an `EdgeInfo`'s destination lives in -/
def compOfEdge (comp : Component) (e : EInfo) : Component :=
  match comp.folds.find? (·.eid == e.eid) with
  | some f => f.component
  | none => comp

/-- all hint objects reachable from `i` by `edges_with_name(..).destination()` -/
def walkInfos (args : List (Name × Value)) : Nat → Component → VInfo → List (Vid × String)
  | 0, _, _ => []
  | fuel + 1, comp, i =>
    let here := match comp.vertex? i.vid with
      | some v => [(i.vid, infoReport args comp v i)]
      | none => [(i.vid, "panic")]
    let es := (outgoingNames comp i.vid).flatMap fun name =>
      match edgesWithName args comp i name with
      | .ok es => es
      | _ => []
    here ++ es.flatMap fun e => walkInfos args fuel (compOfEdge comp e) e.destination

def insertPair (p : Vid × String) : List (Vid × String) → List (Vid × String)
  | [] => [p]
  | x :: xs => if p.1 ≤ x.1 then p :: x :: xs else x :: insertPair p xs

def renderHints (ir : IRQuery) (args : List (Name × Value)) : String :=
  let l := (walkInfos args 64 ir.rootComponent (VInfo.resolve ir.rootComponent.root false)).foldr insertPair []
  "(hints" ++ String.join (l.map fun (vid, r) => s!" (v {vid} {r})") ++ ")"

/-- the hint object of the resolution point of Eid `eid`, with its vertex and component -/
def directPoint (ir : IRQuery) (eid : Eid) : Option (VInfo × Component × IRVertex) := do
  let i ← destinationOf ir eid
  let (comp, v) ← locate ir i.vid
  pure (i, comp, v)

def renderPoints (ir : IRQuery) (args : List (Name × Value)) (eids : List Eid) : String :=
  let root := ir.rootComponent.root
  let start := match ir.rootComponent.vertex? root with
    | some v => s!" (start {root} {infoReport args ir.rootComponent v (VInfo.resolve root false)})"
    | none => ""
  "(points" ++ start ++ String.join (eids.map fun e =>
    match directPoint ir e with
    | some (i, comp, v) => s!" (e {e} {i.vid} {infoReport args comp v i})"
    | none => s!" (e {e} -)") ++ ")"

def parseBareOp : String → Option Filter.BinOp
  | "eq" => some .equals
  | "neq" => some .notEquals
  | "lt" => some .lessThan
  | "le" => some .lessThanOrEqual
  | "gt" => some .greaterThan
  | "ge" => some .greaterThanOrEqual
  | "one_of" => some .oneOf
  | _ => none

/-- the hint object of the resolution point that produces the vertices of `vid` -/
def pointOfVid (ir : IRQuery) (vid : Vid) : Option (VInfo × Component × IRVertex) :=
  if vid == ir.rootComponent.root then
    (ir.rootComponent.vertex? vid).map fun v => (VInfo.resolve vid false, ir.rootComponent, v)
  else directPoint ir (vid - 1)

def handleHints : Handler
  | "required", [_schema, _text, ir, _args] => do
    let q ← parseIR ir
    pure (renderRequired q)
  | "required", [_schema, _text, ir] => do
    let q ← parseIR ir
    pure (renderRequired q)
  | "req-exec", [schema, data, _text, ir, args] => execLike schema data ir args
  | "hints", [_schema, _text, ir, args] => do
    let q ← parseIR ir
    let a ← parseArgs args
    pure (renderHints q a)
  | "points", [_schema, _data, _text, ir, args, .list (.atom "eids" :: eids)] => do
    let q ← parseIR ir
    let a ← parseArgs args
    let es ← listMapM atomNat? eids
    pure (renderPoints q a es)
  | "tag-cand", [.atom path, .atom op, tagged, initial] => do
    let o ← parseBareOp op
    let ni ← if path == "ctx" then some true else if path == "count" then some false else none
    let t ← match tagged with
      | .atom "nonexistent" => some Tagged.nonexistent
      | .list [.atom "some", v] => (Sexp.toValue v).map Tagged.some
      | _ => none
    match ← toCandidate initial with
    | .panic => pure "panic"
    | .ok init =>
      match candidateOfTag ni o t init with
      | .ok c => pure (renderCandidate c)
      | _ => pure "panic"
  | "prune-exec", [schema, data, _text, ir, args] => do
    let d ← parseData schema data
    let q ← parseIR ir
    let a ← parseArgs args
    match validateArgs q.variables a with
    | .ok none => pure (renderR (interpret { Env.ofData d a with adapter := pruneAdapter q a d } q))
    | .ok (some errs) => pure ("(err args " ++ " ".intercalate errs ++ ")")
    | .panic _ => pure "panic"
    | .fuel => pure "out-of-fuel"
  | "static-cand", [_schema, _text, ir, args, vid, .atom prop] => do
    let q ← parseIR ir
    let a ← parseArgs args
    let vid ← atomNat? vid
    let (i, _, v) ← pointOfVid q vid
    match staticallyRequired a i v prop with
    | .ok (some c) => pure (renderCandidate c)
    | .ok none => pure "-"
    | _ => pure "panic"
  | "mandatory", [_schema, _text, ir, args, vid] => do
    let q ← parseIR ir
    let a ← parseArgs args
    let vid ← atomNat? vid
    let (i, comp, _) ← pointOfVid q vid
    match mandatoryEdges a comp i with
    | .ok es => pure ("(mand" ++ String.join (es.map fun e => " " ++ e.name) ++ ")")
    | _ => pure "panic"
  | _, _ => none

end TF.Driver
