import Driver.Loop
import Driver.Cand
import Driver.Engine
import TrustfallModel.Model.Hints
/-!
Driver commands of the `hints` group (C05, C04).  See ENGINE_PROTOCOL.md for the shapes of `<schema>`,
`<data>`, `<ir>`, `<args>`.

* `(required <schema> <query text hex> <ir> <args>)` → `(req (<vid> <prop>…)…)`: for every Vid of the
  query in increasing Vid order, the model of `VertexInfo::required_properties` in the order the code
  reports them.  (`<schema>`, the text and `<args>` are not consulted by the model.)
* `(req-exec <schema> <data> <query text hex> <ir> <args>)` → the rows, exactly like `exec` (the
  implementation runs the query under the wrapper adapter that records the required-properties check
  of every `resolve_property` call; the oracle lives in the harness).
-/
namespace TF.Driver
open TF TF.Engine

def insertNat (n : Nat) : List Nat → List Nat
  | [] => [n]
  | x :: xs => if n ≤ x then n :: x :: xs else x :: insertNat n xs

def sortNats (l : List Nat) : List Nat := l.foldr insertNat []

def renderRequired (ir : IRQuery) : String :=
  "(req" ++ String.join ((sortNats (allVids ir)).map fun vid =>
    s!" ({vid}" ++ String.join ((requiredProps ir vid).map fun p => " " ++ p) ++ ")") ++ ")"

def handleHints : Handler
  | "required", [_schema, _text, ir, _args] => do
    let q ← parseIR ir
    pure (renderRequired q)
  | "required", [_schema, _text, ir] => do
    let q ← parseIR ir
    pure (renderRequired q)
  | "req-exec", [schema, data, _text, ir, args] => execLike schema data ir args
  | _, _ => none

end TF.Driver
