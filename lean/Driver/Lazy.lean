import Driver.Engine
import TrustfallModel.Model.Lazy
/-! Driver command of C03: `(demand <schema> <data> <text> <ir> <args>)` answers
`(pulls p1 … pK)`: for the k-th result row, the number of starting vertices the lazy top-level
machine has pulled when it hands that row out (`Lazy.pullsFor`). -/
namespace TF.Driver
open TF TF.Engine

def blockSizes (env : Env) (q : IRQuery) : List VertexId → R (List Nat)
  | [] => .ok []
  | v :: vs => do
    let rows ← interpretFrom env q [v]
    let rest ← blockSizes env q vs
    pure (rows.length :: rest)

def handleLazy : Handler
  | "demand", [schema, data, _text, ir, args] => do
    let d ← parseData schema data
    let q ← parseIR ir
    let a ← parseArgs args
    let env : Env := Env.ofData d a
    let starts := d.start q.rootName q.rootParams
    -- the pipeline is built (and may panic, e.g. on an invalid regex variable) even when there is no
    -- starting vertex at all
    match (interpretFrom env q []).bind (fun _ => blockSizes env q starts) with
    | .ok sizes =>
      let idx := List.range sizes.length
      let per : Nat → List Unit := fun i => List.replicate (sizes.getD i 0) ()
      let total := sizes.foldl (· + ·) 0
      let pulls := (List.range total).map fun k => Lazy.pullsFor per idx (k + 1)
      pure ("(pulls" ++ String.join (pulls.map fun p => s!" {p}") ++ ")")
    | .panic _ => pure "panic"
    | .fuel => pure "out-of-fuel"
  | _, _ => none

end TF.Driver
