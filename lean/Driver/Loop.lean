import TrustfallModel.Model.Sexp
/-!
Shared driver loop: one request per line (an s-expression `(cmd args…)`), one canonical answer per
line.  Unknown or unparsable requests answer `bad-op` (never a default value).
-/
namespace TF.Driver
open TF

abbrev Handler := String → List Sexp → Option String

def dispatch (handlers : List Handler) (line : String) : String :=
  match Sexp.parse line with
  | some (Sexp.list (Sexp.atom cmd :: args)) =>
    match handlers.findSome? (fun h => h cmd args) with
    | some out => out
    | none => "bad-op"
  | _ => "bad-op"

partial def loop (handlers : List Handler) (hin hout : IO.FS.Stream) : IO Unit := do
  let line ← hin.getLine
  if line.isEmpty then return ()
  hout.putStrLn (dispatch handlers line)
  loop handlers hin hout

def run (handlers : List Handler) : IO Unit := do
  let hin ← IO.getStdin
  let hout ← IO.getStdout
  loop handlers hin hout

end TF.Driver
