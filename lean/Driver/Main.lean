import Driver.Values
/-!
Native driver: one request per line (an s-expression `(cmd args…)`), one canonical answer per line.
Unknown or unparsable requests answer `bad-op` (never a default value).
-/
open TF TF.Driver

def handlers : List (String → List Sexp → Option String) :=
  [handleValues]

def dispatch (line : String) : String :=
  match Sexp.parse line with
  | some (Sexp.list (Sexp.atom cmd :: args)) =>
    match handlers.findSome? (fun h => h cmd args) with
    | some out => out
    | none => "bad-op"
  | _ => "bad-op"

partial def loop (hin : IO.FS.Stream) (hout : IO.FS.Stream) : IO Unit := do
  let line ← hin.getLine
  if line.isEmpty then return ()
  hout.putStrLn (dispatch line)
  loop hin hout

def main : IO Unit := do
  let hin ← IO.getStdin
  let hout ← IO.getStdout
  loop hin hout
