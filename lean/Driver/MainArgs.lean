import Driver.Args
/-! Driver for group `args` (C12). -/
def main : IO Unit := TF.Driver.run [TF.Driver.handleArgs]
