import Driver.Autotraits
def main : IO Unit := TF.Driver.run [TF.Driver.handleAutotraits]
