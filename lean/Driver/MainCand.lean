import Driver.Cand
/-! Driver for group `cand` (C06). -/
def main : IO Unit := TF.Driver.run [TF.Driver.handleCand]
