import Driver.Carrier
/-! Driver for group `carrier` (C02). -/
def main : IO Unit := TF.Driver.run [TF.Driver.handleCarrier]
