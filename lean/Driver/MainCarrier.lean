import Driver.Loop
/-! Driver for group `carrier`: replace `[]` by this group's handlers. -/
def main : IO Unit := TF.Driver.run []
