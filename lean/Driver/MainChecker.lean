import Driver.Checker
/-! Driver for group `checker` (C25). -/
def main : IO Unit := TF.Driver.run [TF.Driver.handleChecker]
