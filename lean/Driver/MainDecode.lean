import Driver.Decode
def main : IO Unit := TF.Driver.run [TF.Driver.handleDecode]
