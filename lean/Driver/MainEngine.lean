import Driver.Engine
import Driver.C01Hyps
import Driver.EngineHyps
def main : IO Unit := TF.Driver.run [TF.Driver.handleC01Hyps, TF.Driver.handleEngineHyps, TF.Driver.handleEngine]
