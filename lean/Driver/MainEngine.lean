import Driver.Engine
def main : IO Unit := TF.Driver.run [TF.Driver.handleEngine]
