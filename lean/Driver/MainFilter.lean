import Driver.Filter
/-! Driver for group `filter`. -/
def main : IO Unit := TF.Driver.run [TF.Driver.handleFilter]
