import Driver.Loop
/-! Driver for group `filter`: replace `[]` by this group's handlers. -/
def main : IO Unit := TF.Driver.run []
