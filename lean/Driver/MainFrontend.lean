import Driver.Frontend
/-! Driver for group `frontend` (C10). -/
def main : IO Unit := TF.Driver.run [TF.Driver.handleFrontend]
