import Driver.Loop
import Driver.Hints
/-! Driver for group `hints` (C05, C04). -/
def main : IO Unit := TF.Driver.run [TF.Driver.handleHints]
