import Driver.Lazy
def main : IO Unit := TF.Driver.run [TF.Driver.handleLazy, TF.Driver.handleEngine]
