import Driver.Pyvalue
def main : IO Unit := TF.Driver.run [TF.Driver.handlePyvalue]
