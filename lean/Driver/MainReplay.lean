import Driver.Replay
/-! Driver for group `replay`. -/
def main : IO Unit := TF.Driver.run [TF.Driver.handleReplay]
