import Driver.Schema
/-! Driver for group `schema` (C19, C20). -/
def main : IO Unit := TF.Driver.run [TF.Driver.handleSchema]
