import Driver.Stubgen
/-! Driver for group `stubgen` (C26). -/
def main : IO Unit := TF.Driver.run [TF.Driver.handleStubgen]
