import Driver.Toir
def main : IO Unit := TF.Driver.run [TF.Driver.handleToir]
