import Driver.Loop
/-! Driver for group `ty`: replace `[]` by this group's handlers. -/
def main : IO Unit := TF.Driver.run []
