import Driver.Ty
/-! Driver for group `ty` (C17, C16). -/
def main : IO Unit := TF.Driver.run [TF.Driver.handleTy, TF.Driver.handleSerial]
