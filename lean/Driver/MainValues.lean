import Driver.Values
def main : IO Unit := TF.Driver.run [TF.Driver.handleValues]
