import Driver.Loop
import TrustfallModel.Model.PyValue
/-!
Driver commands for `PyValue` (C27).

Python objects: `none`, `(pb 0|1)`, `(pi <int>)`, `(pf <key>)`, `pnan`/`pinf`/`pninf`, `(ps <hex>)`,
`(pl …)`, `other`/`(other <what>)`, `(sub <how> <py>)` = instance of a subclass of the built-in
type of `<py>` (str / int / float / list subclass, Enum mixins), classified as its base kind;
`(sub tuple (pl …))` = a tuple, which is not a list (`other`).

* `(py-from <py>)` → `(ok <value>)` | `(err nonfinite|mixed|unsupported)`   — `fromPy`
* `(py-rt <py>)`   → `(ok <py>)` | `(panic <kind>)`                          — `fromPy` then `toPy`
  (a property value returned by a Python adapter that fails to convert is a Rust panic in the shim)
* `(py-to <value>)` → `<py>` | `panic`                                       — `toPy` (`Enum` is `todo!()`)
* `(e2e-… … (args (<name> <py>)…))` → `accepted` | `(rejected <kind>)`: the argument dictionary is
  converted entry by entry in the given order, the first failing entry decides; the rows of an
  end-to-end run are outside the model (checked by the harness oracle against the Rust engine).
-/
namespace TF.Driver
open TF Sexp PyValue

mutual
def toPyObj : Sexp → Option Py
  | atom "none" => some .none
  | atom "pnan" => some .floatNonFinite
  | atom "pinf" => some .floatNonFinite
  | atom "pninf" => some .floatNonFinite
  | atom "other" => some .other
  | list [atom "other", atom _] => some .other
  -- an instance of a subclass of a built-in type is classified the way the extractors classify it:
  -- `extract::<i64/u64/f64/String>` and `cast::<PyList>` accept subclasses (`PyLong_Check`,
  -- `PyFloat_Check`, `PyUnicode_Check`, `PyList_Check` are subclass checks), `is_instance_of::<PyInt>`
  -- is true for int subclasses; a tuple is not a list
  | list [atom "sub", atom "tuple", _] => some .other
  | list [atom "sub", atom _, p] => toPyObj p
  | list [atom "pb", atom x] => some (.bool (x == "1"))
  | list [atom "pi", atom x] => Py.int <$> x.toInt?
  | list [atom "pf", atom x] => Py.float <$> x.toInt?
  | list [atom "ps", atom x] => Py.str <$> atomBytes x
  | list (atom "pl" :: xs) => Py.list <$> toPyObjs xs
  | _ => none
def toPyObjs : List Sexp → Option (List Py)
  | [] => some []
  | x :: xs => do
    let p ← toPyObj x
    let ps ← toPyObjs xs
    pure (p :: ps)
end

mutual
def renderPy : Py → String
  | .none => "none"
  | .bool b => if b then "(pb 1)" else "(pb 0)"
  | .int z => s!"(pi {z})"
  | .float k => s!"(pf {k})"
  | .floatNonFinite => "pnan"
  | .str s => s!"(ps {bytesToHex s})"
  | .list l => "(pl" ++ renderPys l ++ ")"
  | .other => "other"
def renderPys : List Py → String
  | [] => ""
  | x :: xs => " " ++ renderPy x ++ renderPys xs
end

def renderErr : Err → String
  | .nonFinite => "nonfinite"
  | .mixedList => "mixed"
  | .unsupported => "unsupported"

/-- `to_query_arguments`: `extract::<BTreeMap<String, FieldValue>>` walks the dict in order. -/
def argsOutcome : List Sexp → Option String
  | [] => some "accepted"
  | list [atom _, p] :: rest => do
    let o ← toPyObj p
    match fromPy o with
    | .error e => pure s!"(rejected {renderErr e})"
    | .ok _ => argsOutcome rest
  | _ => none

def findArgs : List Sexp → Option (List Sexp)
  | [] => none
  | list (atom "args" :: xs) :: _ => some xs
  | _ :: rest => findArgs rest

def handlePyvalue : String → List Sexp → Option String
  | "py-from", [p] => do
    let o ← toPyObj p
    match fromPy o with
    | .ok v => pure s!"(ok {v.render})"
    | .error e => pure s!"(err {renderErr e})"
  | "py-rt", [p] => do
    let o ← toPyObj p
    match fromPy o with
    | .error e => pure s!"(panic {renderErr e})"
    | .ok v =>
      match toPy v with
      | some p' => pure s!"(ok {renderPy p'})"
      | none => pure "(panic todo)"
  | "py-to", [v] => do
    let x ← toValue v
    match toPy x with
    | some p => pure (renderPy p)
    | none => pure "panic"
  | cmd, args =>
    if cmd.startsWith "e2e-" then do
      let xs ← findArgs args
      argsOutcome xs
    else none

end TF.Driver
