import Driver.Engine
import TrustfallModel.Model.Replay
/-!
Driver commands of the replay group (C15).

`(replay-exec <schema> <data> <text hex> <ir> <args>)` — the implementation side executes the query
through `AdapterTap`, serialises and deserialises the trace and replays it through
`TraceReaderAdapter`; the model's answer is the rows of the list-level interpreter
(`TF.Driver.handleEngine`, which knows `replay-exec`).
-/
namespace TF.Driver

def handleReplay : Handler := handleEngine

end TF.Driver
