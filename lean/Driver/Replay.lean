import Driver.Engine
import TrustfallModel.Model.Replay
import TrustfallModel.Model.ReplayInterp
/-!
Driver commands of the replay group (C15).

`(replay-exec <schema> <data> <text hex> <ir> <args>)` — the implementation side executes the query
directly, through `AdapterTap`, serialises and deserialises the trace and replays it through
`TraceReaderAdapter`; the model's answer is the rows of the list-level interpreter, computed twice:
directly, and by `record`ing the table of the adapter answers the run asks for and `replay`ing from
that table alone.  If the two disagree, or the recording does not become complete, the answer is
`(model-replay-mismatch …)`, which no implementation answer equals.

Everything else is delegated to `handleEngine`.
-/
namespace TF.Driver
open TF TF.Engine

/-- upper bound on the number of distinct adapter calls recorded for one request -/
def recordFuel : Nat := 20000

def replayExec (schema data ir args : Sexp) : Option String := do
  let d ← parseData schema data
  let q ← parseIR ir
  let a ← parseArgs args
  match validateArgs q.variables a with
  | .ok none =>
    let env := Env.ofData d a
    let direct := renderR (interpret env q)
    let (table, complete) := record env q recordFuel []
    let replayed := renderR (replay env table q)
    if complete && replayed == direct then pure direct
    else pure s!"(model-replay-mismatch complete={complete} calls={table.length})"
  | .ok (some errs) => pure ("(err args " ++ " ".intercalate errs ++ ")")
  | .panic _ => pure "panic"
  | .fuel => pure "out-of-fuel"

def handleReplay : Handler
  | "replay-exec", [schema, data, _text, ir, args] => replayExec schema data ir args
  /- number of distinct adapter calls of the run (diagnostics) -/
  | "replay-calls", [schema, data, _text, ir, args] => do
    let d ← parseData schema data
    let q ← parseIR ir
    let a ← parseArgs args
    let (table, complete) := record (Env.ofData d a) q recordFuel []
    pure s!"(calls {table.length} {complete})"
  | cmd, xs => handleEngine cmd xs

end TF.Driver
