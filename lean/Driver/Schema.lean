import Driver.Loop
import TrustfallModel.Model.SchemaAdapter
/-!
Driver commands of group `schema`.

`(schema-new <doc>)` (C19) answers `panic` | `ok` | `(err e…)` with the error variants rendered as
`(Variant key…)` and sorted as strings (the multiset of errors; their order belongs to C14).

Document encoding (shared with `harness/src/bin/schema.rs`):
```
doc   := (doc def…)
def   := (schema Q) | (directive n) | (scalar n) | (type n (impl…) (field…))
       | (interface n (impl…) (field…)) | (unsupported kind n)
field := (n ty (arg…))
arg   := (n ty default)          default := - | bad | (d value)
ty    := (Base f0 f1 … fk)       fi ∈ {0,1}: non-null flag of level i, outermost first
```
-/
namespace TF.Driver
open TF Sexp TF.SchemaDoc

/-- `(Base f0 … fk)` → `PTy`. -/
def toPTy : Sexp → Option PTy
  | .list (.atom b :: flags) =>
    let rec go : List Sexp → Option PTy
      | [.atom f] => some (.named b (f == "1"))
      | .atom f :: rest => (go rest).map (fun inner => PTy.list inner (f == "1"))
      | _ => none
    go flags
  | _ => none

def toDefault : Sexp → Option (Option DefaultVal)
  | .atom "-" => some none
  | .atom "bad" => some (some .bad)
  | .list [.atom "d", v] => (toValue v).map (fun x => some (.val x))
  | _ => none

def toArg : Sexp → Option Arg
  | .list [.atom n, ty, d] => do
    let t ← toPTy ty
    let dv ← toDefault d
    pure { name := n, ty := t, default := dv }
  | _ => none

def toField : Sexp → Option Field
  | .list [.atom n, ty, .list args] => do
    let t ← toPTy ty
    let as ← args.mapM toArg
    pure { name := n, ty := t, args := as }
  | _ => none

def toNames (l : List Sexp) : Option (List Name) :=
  l.mapM fun | .atom a => some a | _ => none

def toDef : Sexp → Option Def
  | .list [.atom "schema", .atom q] => some (.schema q)
  | .list [.atom "directive", .atom n] => some (.directive n)
  | .list [.atom "scalar", .atom n] => some (.scalar n)
  | .list [.atom "unsupported", .atom _, .atom n] => some (.unsupported n)
  | .list [.atom k, .atom n, .list impls, .list fields] =>
    if k == "type" || k == "interface" then do
      let is ← toNames impls
      let fs ← fields.mapM toField
      pure (.type { name := n, isInterface := k == "interface", implements := is, fields := fs })
    else none
  | _ => none

def toDoc : Sexp → Option Doc
  | .list (.atom "doc" :: defs) => defs.mapM toDef
  | _ => none

def renderNames (l : List Name) : String := "(" ++ " ".intercalate l ++ ")"

def renderErr : SchemaErr → String
  | .invalidTypeWidening f t i ty pty =>
    s!"(InvalidTypeWideningOfInheritedField {f} {t} {i} {ty.display} {pty.display})"
  | .invalidParamNarrowing f t i p ty pty =>
    s!"(InvalidTypeNarrowingOfInheritedFieldParameter {f} {t} {i} {p} {ty.display} {pty.display})"
  | .inheritedFieldMissingParameters f t i ps =>
    s!"(InheritedFieldMissingParameters {f} {t} {i} {renderNames ps})"
  | .inheritedFieldUnexpectedParameters f t i ps =>
    s!"(InheritedFieldUnexpectedParameters {f} {t} {i} {renderNames ps})"
  | .invalidDefaultValue t f p ty => s!"(InvalidDefaultValueForFieldParameter {t} {f} {p} {ty.display})"
  | .circularImplements ts => s!"(CircularImplementsRelationships {renderNames ts})"
  | .missingTransitive t i j => s!"(MissingTransitiveInterfaceImplementation {t} {i} {j})"
  | .missingRequiredField t i f ty => s!"(MissingRequiredField {t} {i} {f} {ty.display})"
  | .ambiguousFieldOrigin t f ty os => s!"(AmbiguousFieldOrigin {t} {f} {ty.display} {renderNames os})"
  | .propertyFieldWithParameters t f ty ps =>
    s!"(PropertyFieldWithParameters {t} {f} {ty.display} {renderNames ps})"
  | .invalidEdgeType t f ty => s!"(InvalidEdgeType {t} {f} {ty.display})"
  | .unknownPropertyOrEdgeType f ty => s!"(UnknownPropertyOrEdgeType {f} {ty.display})"
  | .propertyFieldOnRoot t f ty => s!"(PropertyFieldOnRootQueryType {t} {f} {ty.display})"
  | .edgePointsToRoot t f ty => s!"(EdgePointsToRootQueryType {t} {f} {ty.display})"
  | .reservedFieldName t f => s!"(ReservedFieldName {t} {f})"
  | .reservedTypeName t => s!"(ReservedTypeName {t})"
  | .implementingNonExistentType t i => s!"(ImplementingNonExistentType {t} {i})"
  | .implementingNonInterface t i => s!"(ImplementingNonInterface {t} {i})"
  | .duplicateFieldDefinition t f => s!"(DuplicateFieldDefinition {t} {f})"
  | .duplicateTypeDefinition t => s!"(DuplicateTypeOrInterfaceDefinition {t})"
  | .duplicateDirectiveDefinition n => s!"(DuplicateDirectiveDefinition {n})"
  | .duplicateScalarDefinition n => s!"(DuplicateScalarDefinition {n})"
  | .duplicateSchemaDefinition => "(DuplicateSchemaDefinition)"
  | .missingSchemaDefinition => "(MissingSchemaDefinition)"
  | .undefinedQueryType n => s!"(UndefinedQueryType {n})"
  | .queryTypeNotAnObject n => s!"(QueryTypeNotAnObject {n})"
  | .builtinScalarRedefinition n => s!"(BuiltinScalarRedefinition {n})"
  | .duplicateFieldParameterDefinition t f p => s!"(DuplicateFieldParameterDefinition {t} {f} {p})"

/-- Strings sorted by byte order (rendered errors / rows are ASCII). -/
def sortStrings (l : List String) : List String :=
  (l.toArray.qsort (fun a b => a < b)).toList

def renderSchemaNew (doc : Doc) : String :=
  match Schema.new doc with
  | .panic _ => "panic"
  | .ok (.ok _) => "ok"
  | .ok (.error es) => "(err " ++ " ".intercalate (sortStrings (es.map renderErr)) ++ ")"

/-! `(introspect <query> <doc>)` (C20): the rows of one fixed introspection query over the schema
built from `<doc>`, each row `(row (output cell)…)` with outputs sorted by name, rows sorted as
strings; cells: `n` | `(s hex)` | `(b 0|1)` | `(json value)`.  `invalid` when the document is not
accepted, `panic` when validation or a resolver panics. -/

def toQueryId : Sexp → Option QueryId
  | .atom "types" => some .types
  | .atom "implements" => some .implements
  | .atom "implementer" => some .implementer
  | .atom "properties" => some .properties
  | .atom "edges" => some .edges
  | .atom "params" => some .params
  | .atom "entrypoints" => some .entrypoints
  | .atom "entry-params" => some .entryParams
  | .atom "schema-types" => some .schemaTypes
  | .atom "schema-entrypoints" => some .schemaEntrypoints
  | .atom "typenames" => some .typenames
  | .atom "optional-implements" => some .optionalImplements
  | .list [.atom "by-name", .atom n] => some (.byName n)
  | .list (.atom "one-of" :: ns) => QueryId.oneOf <$> toNames ns
  | _ => none

def renderCell : Cell → String
  | .null => "n"
  | .str s => s!"(s {Sexp.bytesToHex s.toUTF8.toList})"
  | .bool b => if b then "(b 1)" else "(b 0)"
  | .json v => s!"(json {v.render})"

def renderRow (r : Row) : String :=
  "(row " ++ " ".intercalate (sortStrings (r.map fun (k, c) => s!"({k} {renderCell c})")) ++ ")"

def renderIntrospect (q : QueryId) (doc : Doc) : String :=
  match Schema.new doc with
  | .panic _ => "panic"
  | .ok (.error _) => "invalid"
  | .ok (.ok s) =>
    match introspect s q with
    | .panic _ => "panic"
    | .ok rows => "(rows" ++ String.join ((sortStrings (rows.map renderRow)).map (" " ++ ·)) ++ ")"

def handleSchema : String → List Sexp → Option String
  | "schema-new", [d] => renderSchemaNew <$> toDoc d
  | "introspect", [q, d] => do
    let qid ← toQueryId q
    let doc ← toDoc d
    pure (renderIntrospect qid doc)
  | "adapter-invariants", [d] => do
    -- `check_adapter_invariants` only panics when an invariant is broken; the model's adapter
    -- satisfies the contract (`TF.C20.schema_adapter_honest`), so the answer is `ok` on valid schemas
    let doc ← toDoc d
    pure (match Schema.new doc with
      | .panic _ => "panic"
      | .ok (.error _) => "invalid"
      | .ok (.ok _) => "ok")
  | _, _ => none

end TF.Driver
