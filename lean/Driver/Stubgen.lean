import Driver.Loop
import TrustfallModel.Model.Stubgen
/-!
Driver commands for the stub generator's naming logic (C26):

* `(mangle snake|variant|escape <hex name>)` → hex of the mangled name (`panic` for `variant` of the
  empty name);
* `(stub-check <schema>)` → `ok` | `(conflict vertex A B)` | `(conflict field T A B)` |
  `(conflict entrypoint A B)` |
  `panic:unsupported-type` | `panic:pretty-print`;
* `(stub-params <schema>)` → the emitted `let <ident>: <type> = parameters.get(…)…` statements (layout removed,
  sorted, joined by `;;`; `-` if none) or `not-generated:<stub-check answer>`;
* `(stub-compile <schema>)` → `compiles` | `compile-error` | `not-generated:<stub-check answer>` — the
  model's *prediction* from names alone (rustc is not modelled).

`<schema>` = `(schema (root (entry Name Type (param Type default|-)…)…)
                      (type|interface Name (implements I…) (prop n Type)|(edge n Type (param Type default|-)…) …)…)`
-/
namespace TF.Driver
open TF Sexp TF.Stubgen

def bytesToName (b : Bytes) : Name := b.map fun x => Char.ofNat x.toNat
def nameToBytes (n : Name) : Bytes := n.map fun c => UInt8.ofNat c.toNat
def nameToString (n : Name) : String := String.ofList n

def sgParam : Sexp → Option Param
  | .list [.atom n, .atom ty, .atom _] => some ⟨n.toList, ty.toList⟩
  | _ => none

def sgEntry : Sexp → Option EdgeDef
  | .list (.atom "entry" :: .atom n :: .atom _ :: ps) => do
    let ps ← ps.mapM sgParam
    pure ⟨n.toList, ps⟩
  | _ => none

/-- one field: `inl` property name, `inr` edge -/
def sgField : Sexp → Option (Name ⊕ EdgeDef)
  | .list [.atom "prop", .atom n, .atom _] => some (.inl n.toList)
  | .list (.atom "edge" :: .atom n :: .atom _ :: ps) => do
    let ps ← ps.mapM sgParam
    pure (.inr ⟨n.toList, ps⟩)
  | _ => none

def sgType : Sexp → Option VType
  | .list (.atom _kind :: .atom n :: .list (.atom "implements" :: _) :: fs) => do
    let fs ← fs.mapM sgField
    let props := fs.filterMap fun f => match f with | .inl p => some p | .inr _ => none
    let edges := fs.filterMap fun f => match f with | .inl _ => none | .inr e => some e
    pure ⟨n.toList, props, edges⟩
  | _ => none

def sgSchema : Sexp → Option Schema
  | .list (.atom "schema" :: .list (.atom "root" :: es) :: ts) => do
    let es ← es.mapM sgEntry
    let ts ← ts.mapM sgType
    pure ⟨es, ts⟩
  | _ => none

def renderOutcome : Outcome → String
  | .ok => "ok"
  | .conflictVertex a b => s!"(conflict vertex {nameToString a} {nameToString b})"
  | .conflictField t a b => s!"(conflict field {nameToString t} {nameToString a} {nameToString b})"
  | .conflictEntrypoint a b => s!"(conflict entrypoint {nameToString a} {nameToString b})"
  | .panicUnsupportedType => "panic:unsupported-type"
  | .panicPrettyPrint => "panic:pretty-print"

def handleStubgen : String → List Sexp → Option String
  | "mangle", [.atom f, .atom h] => do
    let n := bytesToName (← atomBytes h)
    match f with
    | "snake" => pure (bytesToHex (nameToBytes (toLowerSnakeCase n)))
    | "variant" =>
      match upperCaseVariantName n with
      | some v => pure (bytesToHex (nameToBytes v))
      | none => pure "panic"
    | "escape" => pure (bytesToHex (nameToBytes (escapedRustName n)))
    | _ => none
  | "stub-check", [s] => do
    let S ← sgSchema s
    pure (renderOutcome (stubCheck S))
  | "stub-compile", [s] => do
    let S ← sgSchema s
    match stubCheck S with
    | .ok => pure (if (compileCauses S).isEmpty then "compiles" else "compile-error")
    | o => pure ("not-generated:" ++ renderOutcome o)
  | "stub-params", [s] => do
    let S ← sgSchema s
    match stubCheck S with
    | .ok =>
      let stmts := (emittedParamStatements S).map fun o =>
        match o with
        | some t => String.ofList (t.filter fun c => c != ' ' && c != '{' && c != '}')
        | none => "?"
      let sorted := (stmts.toArray.qsort (fun a b => a < b)).toList
      pure (if sorted.isEmpty then "-" else ";;".intercalate sorted)
    | o => pure ("not-generated:" ++ renderOutcome o)
  | _, _ => none

end TF.Driver
