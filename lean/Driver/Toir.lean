import Driver.Loop
import TrustfallModel.Model.Frontend
import TrustfallModel.Model.IRWF
/-! Driver commands of the `toir` group (C11):
* `(compile <schema> <tree>)` → `toIR` rendered in the `(ir …)` syntax of ENGINE_PROTOCOL.md, or
  `(err <variant>)`;
* `(accepts <schema> <tree>)` → `1`/`0`: `toIR` succeeds;
* `(spec-wf <schema> <tree> <ir>)` → `1`/`0`: the decidable `WF` on a (real) IR;
* `(indexed <schema> <tree> <ir>)` → `1`/`0`: the model of `IndexedQuery::try_from(ir).is_ok()`;
* `(outs <schema> <tree> <ir>)` → `(outs (<name> <ty> <vid>)…)`: the model of
  `IndexedQuery.outputs`.
(The implementation side uses `<schema> <tree>` to check that `<ir>` is the real IR of the tree.) -/
namespace TF.Driver
open TF TF.Engine TF.Frontend

def sx (items : List String) : String := "(" ++ " ".intercalate items ++ ")"

def renderTy (t : QTy) : String :=
  sx ("T" :: t.base :: t.nulls.map fun b => if b then "1" else "0")

def renderParams (ps : Params) : String :=
  sx ("params" :: ps.map fun (n, v) => sx [n, v.render])

def renderFieldRef : FieldRef → String
  | .ctx v f t => sx ["ctx", toString v, f, renderTy t]
  | .fcount e r => sx ["fcount", toString e, toString r]

def renderOp : FOp → String
  | .un .isNull => "is_null"
  | .un .isNotNull => "is_not_null"
  | .bin .equals => "eq"
  | .bin .notEquals => "neq"
  | .bin .lessThan => "lt"
  | .bin .lessThanOrEqual => "le"
  | .bin .greaterThan => "gt"
  | .bin .greaterThanOrEqual => "ge"
  | .bin .contains => "contains"
  | .bin .notContains => "not_contains"
  | .bin .oneOf => "one_of"
  | .bin .notOneOf => "not_one_of"
  | .bin .hasPrefix => "has_prefix"
  | .bin .notHasPrefix => "not_has_prefix"
  | .bin .hasSuffix => "has_suffix"
  | .bin .notHasSuffix => "not_has_suffix"
  | .bin .hasSubstring => "has_substring"
  | .bin .notHasSubstring => "not_has_substring"
  | .bin .regexMatches => "regex"
  | .bin .notRegexMatches => "not_regex"

def renderLeft : Left → String
  | .loc f t => sx ["local", f, renderTy t]
  | .count => "count"

def renderArg : Option Arg → String
  | none => "-"
  | some (.var n t) => sx ["var", n, renderTy t]
  | some (.tag r) => sx ["tag", renderFieldRef r]

def renderFilter (f : IRFilter) : String := sx [renderOp f.op, renderLeft f.left, renderArg f.right]

def renderOptName : Option Name → String
  | some n => n
  | none => "-"

def renderVertex (v : IRVertex) : String :=
  sx ["v", toString v.vid, v.typeName, renderOptName v.coercedFrom,
    sx ("filters" :: v.filters.map renderFilter)]

def renderEdge (e : IREdge) : String :=
  sx ["e", toString e.eid, toString e.fromVid, toString e.toVid, e.name, renderParams e.params,
    if e.optional then "1" else "0",
    match e.recursive with
    | none => "-"
    | some r => sx ["rec", toString r.depth, renderOptName r.coerceTo]]

def renderOutput (o : OutputDef) : String := sx [o.name, toString o.vid, o.field, renderTy o.ty]

mutual
def renderComponent : Component → String
  | .mk root vs es fs os =>
    sx ["comp", toString root, sx ("vertices" :: vs.map renderVertex),
      sx ("edges" :: es.map renderEdge), sx ("folds" :: renderFolds fs),
      sx ("outputs" :: os.map renderOutput)]
def renderFolds : List Fold → List String
  | [] => []
  | .mk e f t n ps comp imports fouts post :: rest =>
    sx ["fold", toString e, toString f, toString t, n, renderParams ps, renderComponent comp,
      sx ("imports" :: imports.map renderFieldRef),
      sx ("fouts" :: fouts.map fun o => sx [o, "count"]),
      sx ("post" :: post.map renderFilter)] :: renderFolds rest
end

/-- The `(ir …)` text of ENGINE_PROTOCOL.md (what `engine::ir_sexp::ir_to_sexp` prints). -/
def renderIR (q : IRQuery) : String :=
  sx ["ir", sx ["root", q.rootName, renderParams q.rootParams],
    sx ("vars" :: q.variables.map fun (n, t) => sx [n, renderTy t]),
    renderComponent q.rootComponent]

def renderOuts (os : List (Name × QTy × Vid)) : String :=
  sx ("outs" :: os.map fun (n, t, v) => sx [n, renderTy t, toString v])

def bit (b : Bool) : String := if b then "1" else "0"

def handleToir : Handler
  | "compile", [schema, tree] => do
    let S ← parseSchemaView schema
    let q ← Spec.parseQuery tree
    match toIR S q with
    | .ok ir => pure (renderIR ir)
    | .error e => pure (sx ["err", e.name])
  | "accepts", [schema, tree] => do
    let S ← parseSchemaView schema
    let q ← Spec.parseQuery tree
    match toIR S q with
    | .ok _ => pure "1"
    | .error _ => pure "0"
  | "spec-wf", [_schema, _tree, ir] => do
    let q ← parseIR ir
    pure (bit (WF q))
  | "indexed", [_schema, _tree, ir] => do
    let q ← parseIR ir
    pure (bit (indexedOk q))
  | "outs", [_schema, _tree, ir] => do
    let q ← parseIR ir
    pure (renderOuts (outputsOf q))
  | _, _ => none

end TF.Driver
