import Driver.Loop
import TrustfallModel.Model.Serial
/-!
Driver commands for `Ty` (C17).  A type travels structurally as `(T <hex base name> n0 n1 … nk)`:
nullability flags (`1` nullable, `0` non-null) from the outermost level to the base, so `k` is the
number of list levels and neither side depends on the other's text rendering.  Both sides build the
type with `new_named_type` + `new_list_type` (innermost first); with more than 30 list levels that
construction panics and the answer to any command is `panic`.

  (ty-mk t)            → (T …)                    echo through construction + accessors
  (ty-info t)          → n=<nullable> l=<is_list> b=<hex base>
  (ty-intersect a b)   → none | (T …)
  (ty-sub parent child)→ 1 | 0                    parent.is_scalar_only_subtype(child)
  (ty-eqnull a b)      → 1 | 0
  (ty-valid t v)       → 1 | 0 | panic
  (ty-display t)       → hex of the text
  (ty-parse <hex>)     → err | (T …) | panic
  (ty-aslist t)        → none | (T …)
  (ty-withnull t 0|1)  → (T …)
  (ty-orderable t)     → 1 | 0

C16:
  (ty-roundtrip t)         → err | (T …) | panic   parse(display t)  (= serde of `Type`)
  (tv-roundtrip v)         → err | <value>          FieldValue → TransparentValue → untagged JSON → back
  (tv-roundtrip-lossy v)   → same, float leaves rendered `(f _)`   (stream of floats hit by F-28)
  (fv-serde v)             → <value>                tagged serde of FieldValue: the model says identity
  (fv-serde-lossy v)       → same, float leaves rendered `(f _)`
  (ir-roundtrip <hex>)     → ok                     implementation-only stream (derived serde of the IR)
-/
namespace TF.Driver
open TF Sexp Ty

def flagOf : Sexp → Option Bool
  | atom "1" => some true
  | atom "0" => some false
  | _ => none

def flagsOf : List Sexp → Option (List Bool)
  | [] => some []
  | x :: xs => do
    let f ← flagOf x
    let fs ← flagsOf xs
    pure (f :: fs)

/-- Build the type the way the harness does: `new_named_type`, then `new_list_type` per level. -/
def toTy : Sexp → Option (Outcome Ty)
  | list (atom "T" :: atom b :: flags) => do
    let base ← atomBytes b
    let fl ← flagsOf flags
    match fl.reverse with
    | [] => none
    | last :: outer =>
      some (outer.foldl
        (fun acc n => match acc with
          | .ok t => newListType t n
          | .panic => .panic)
        (.ok (newNamedType base last)))
  | _ => none

def shapeFlags : Shape → List Bool
  | .named n => [n]
  | .list n s => n :: shapeFlags s

/-- Render through the accessors `nullable` / `as_list` (that is what `Shape.decode` iterates). -/
def renderTy (t : Ty) : String :=
  "(T " ++ bytesToHex t.base ++
    String.join ((shapeFlags t.shape).map fun n => if n then " 1" else " 0") ++ ")"

def bit (b : Bool) : String := if b then "1" else "0"

def renderOptTy : Option Ty → String
  | none => "none"
  | some t => renderTy t

/-- Run `f` on a constructed type; construction panic ⇒ `panic`. -/
def with1 (a : Sexp) (f : Ty → String) : Option String := do
  match ← toTy a with
  | .ok t => pure (f t)
  | .panic => pure "panic"

def with2 (a b : Sexp) (f : Ty → Ty → String) : Option String := do
  let x ← toTy a
  let y ← toTy b
  match x, y with
  | .ok t, .ok u => pure (f t u)
  | _, _ => pure "panic"

def handleTy : String → List Sexp → Option String
  | "ty-mk", [a] => with1 a renderTy
  | "ty-info", [a] => with1 a fun t =>
      s!"n={bit t.nullable} l={bit t.isList} b={bytesToHex t.base}"
  | "ty-intersect", [a, b] => with2 a b fun t u =>
      match intersect t u with
      | .ok r => renderOptTy r
      | .panic => "panic"
  | "ty-sub", [a, b] => with2 a b fun t u => bit (isScalarOnlySubtype t u)
  | "ty-eqnull", [a, b] => with2 a b fun t u => bit (equalIgnoringNullability t u)
  | "ty-valid", [a, v] => do
    let val ← toValue v
    with1 a fun t => bit (isValidValue t val)
  | "ty-display", [a] => with1 a fun t => bytesToHex (display t)
  | "ty-parse", [atom h] => do
    let text ← atomBytes h
    match parse text with
    | .ok none => pure "err"
    | .ok (some t) => pure (renderTy t)
    | .panic => pure "panic"
  | "ty-aslist", [a] => with1 a fun t => renderOptTy t.asList
  | "ty-withnull", [a, atom n] => with1 a fun t => renderTy (withNullability t (n == "1"))
  | "ty-orderable", [a] => with1 a fun t => bit (isOrderable t)
  | _, _ => none

mutual
/-- Canonical text of a value with every float leaf masked. -/
def renderMasked : Value → String
  | .float64 _ => "(f _)"
  | .list l => "(l" ++ renderMaskedList l ++ ")"
  | v => Value.render v
def renderMaskedList : List Value → String
  | [] => ""
  | x :: xs => " " ++ renderMasked x ++ renderMaskedList xs
end

def handleSerial : String → List Sexp → Option String
  | "ty-roundtrip", [a] => with1 a fun t =>
      match parse (display t) with
      | .ok none => "err"
      | .ok (some u) => renderTy u
      | .panic => "panic"
  | "tv-roundtrip", [v] => do
    let val ← toValue v
    match Serial.transparentRoundtrip val with
    | some w => pure (Value.render w)
    | none => pure "err"
  | "tv-roundtrip-lossy", [v] => do
    let val ← toValue v
    match Serial.transparentRoundtrip val with
    | some w => pure (renderMasked w)
    | none => pure "err"
  | "fv-serde", [v] => Value.render <$> toValue v
  | "fv-serde-lossy", [v] => renderMasked <$> toValue v
  | "ir-roundtrip", [atom _] => some "ok"
  | _, _ => none

end TF.Driver
