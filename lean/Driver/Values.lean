import Driver.Loop
/-! Driver commands for `Value` (C08): `(cmp a b)`, `(eq a b)`. -/
namespace TF.Driver
open TF Sexp

def handleValues : String → List Sexp → Option String
  | "cmp", [a, b] => do
    let x ← toValue a
    let y ← toValue b
    pure (renderOrdering (Value.cmp x y))
  | "eq", [a, b] => do
    let x ← toValue a
    let y ← toValue b
    pure (if x == y then "1" else "0")
  | "echo", [a] => Value.render <$> toValue a
  | _, _ => none

end TF.Driver
