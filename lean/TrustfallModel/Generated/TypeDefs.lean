/-
GENERATED — do not edit.  Regenerated on every `./check C24` run (cfg/C24.json `lean_pre`) by
`harness/src/bin/autotraits_gen.rs` from /repo's current working tree:
  trustfall_core/src/ir/mod.rs
  trustfall_core/src/ir/indexed.rs
  trustfall_core/src/ir/value.rs
  trustfall_core/src/ir/types/base.rs
  trustfall_core/src/ir/types/named_typed.rs
  trustfall_core/src/schema/mod.rs
  trustfall_core/src/interpreter/mod.rs
Every struct / enum / type alias of these files as field type expressions, sorted by name;
plus every `static` / `thread_local!` of the whole crate (trustfall_core/src, outside cfg(test)).
-/
import TrustfallModel.Model.AutoTraits

namespace TF.Generated
open TF.AutoTraits

/-- `Argument` enum (ir/mod.rs) -/
def def_Argument : TypeDef :=
  { name := "Argument", params := [], kind := "enum", src := "ir/mod.rs",
    fields := [
      ⟨"Tag.0", .path "FieldRef" []⟩,
      ⟨"Variable.0", .path "VariableRef" []⟩] }

/-- `ContextField` struct (ir/mod.rs) -/
def def_ContextField : TypeDef :=
  { name := "ContextField", params := [], kind := "struct", src := "ir/mod.rs",
    fields := [
      ⟨"vertex_id", .path "Vid" []⟩,
      ⟨"field_name", .path "Arc" [.path "str" []]⟩,
      ⟨"field_type", .path "Type" []⟩] }

/-- `ContextIterator` alias (interpreter/mod.rs) -/
def def_ContextIterator : TypeDef :=
  { name := "ContextIterator", params := ["VertexT"], kind := "alias", src := "interpreter/mod.rs",
    fields := [
      ⟨"alias", .path "VertexIterator" [.path "DataContext" [.path "VertexT" []]]⟩] }

/-- `ContextOutcomeIterator` alias (interpreter/mod.rs) -/
def def_ContextOutcomeIterator : TypeDef :=
  { name := "ContextOutcomeIterator", params := ["VertexT", "OutcomeT"], kind := "alias", src := "interpreter/mod.rs",
    fields := [
      ⟨"alias", .path "Box" [.dynTrait false false]⟩] }

/-- `DataContext` struct (interpreter/mod.rs) -/
def def_DataContext : TypeDef :=
  { name := "DataContext", params := ["Vertex"], kind := "struct", src := "interpreter/mod.rs",
    fields := [
      ⟨"active_vertex", .path "Option" [.path "Vertex" []]⟩,
      ⟨"vertices", .path "BTreeMap" [.path "Vid" [], .path "Option" [.path "Vertex" []]]⟩,
      ⟨"values", .path "Vec" [.path "FieldValue" []]⟩,
      ⟨"suspended_vertices", .path "Vec" [.path "Option" [.path "Vertex" []]]⟩,
      ⟨"folded_contexts", .path "BTreeMap" [.path "Eid" [], .path "Option" [.path "Vec" [.path "DataContext" [.path "Vertex" []]]]]⟩,
      ⟨"folded_values", .path "BTreeMap" [.tuple [.path "Eid" [], .path "Arc" [.path "str" []]], .path "Option" [.path "ValueOrVec" []]]⟩,
      ⟨"piggyback", .path "Option" [.path "Vec" [.path "DataContext" [.path "Vertex" []]]]⟩,
      ⟨"imported_tags", .path "BTreeMap" [.path "FieldRef" [], .path "TaggedValue" []]⟩] }

/-- `EdgeKind` enum (ir/indexed.rs) -/
def def_EdgeKind : TypeDef :=
  { name := "EdgeKind", params := [], kind := "enum", src := "ir/indexed.rs",
    fields := [
      ⟨"Regular.0", .path "Arc" [.path "IREdge" []]⟩,
      ⟨"Fold.0", .path "Arc" [.path "IRFold" []]⟩] }

/-- `EdgeParameters` struct (ir/mod.rs) -/
def def_EdgeParameters : TypeDef :=
  { name := "EdgeParameters", params := [], kind := "struct", src := "ir/mod.rs",
    fields := [
      ⟨"contents", .path "Arc" [.path "BTreeMap" [.path "Arc" [.path "str" []], .path "FieldValue" []]]⟩] }

/-- `Eid` struct (ir/mod.rs) -/
def def_Eid : TypeDef :=
  { name := "Eid", params := [], kind := "struct", src := "ir/mod.rs",
    fields := [
      ⟨"0", .path "NonZeroUsize" []⟩] }

/-- `FieldOrigin` enum (schema/mod.rs) -/
def def_FieldOrigin : TypeDef :=
  { name := "FieldOrigin", params := [], kind := "enum", src := "schema/mod.rs",
    fields := [
      ⟨"SingleAncestor.0", .path "Arc" [.path "str" []]⟩,
      ⟨"MultipleAncestors.0", .path "BTreeSet" [.path "Arc" [.path "str" []]]⟩] }

/-- `FieldRef` enum (ir/mod.rs) -/
def def_FieldRef : TypeDef :=
  { name := "FieldRef", params := [], kind := "enum", src := "ir/mod.rs",
    fields := [
      ⟨"ContextField.0", .path "ContextField" []⟩,
      ⟨"FoldSpecificField.0", .path "FoldSpecificField" []⟩] }

/-- `FieldValue` enum (ir/value.rs) -/
def def_FieldValue : TypeDef :=
  { name := "FieldValue", params := [], kind := "enum", src := "ir/value.rs",
    fields := [
      ⟨"Int64.0", .path "i64" []⟩,
      ⟨"Uint64.0", .path "u64" []⟩,
      ⟨"Float64.0", .path "f64" []⟩,
      ⟨"String.0", .path "Arc" [.path "str" []]⟩,
      ⟨"Boolean.0", .path "bool" []⟩,
      ⟨"Enum.0", .path "Arc" [.path "str" []]⟩,
      ⟨"List.0", .path "Arc" [.slice (.path "FieldValue" [])]⟩] }

/-- `FiniteF64` struct (ir/value.rs) -/
def def_FiniteF64 : TypeDef :=
  { name := "FiniteF64", params := [], kind := "struct", src := "ir/value.rs",
    fields := [
      ⟨"0", .path "f64" []⟩] }

/-- `FoldSpecificField` struct (ir/mod.rs) -/
def def_FoldSpecificField : TypeDef :=
  { name := "FoldSpecificField", params := [], kind := "struct", src := "ir/mod.rs",
    fields := [
      ⟨"fold_eid", .path "Eid" []⟩,
      ⟨"fold_root_vid", .path "Vid" []⟩,
      ⟨"kind", .path "FoldSpecificFieldKind" []⟩] }

/-- `FoldSpecificFieldKind` enum (ir/mod.rs) -/
def def_FoldSpecificFieldKind : TypeDef :=
  { name := "FoldSpecificFieldKind", params := [], kind := "enum", src := "ir/mod.rs",
    fields := [] }

/-- `IREdge` struct (ir/mod.rs) -/
def def_IREdge : TypeDef :=
  { name := "IREdge", params := [], kind := "struct", src := "ir/mod.rs",
    fields := [
      ⟨"eid", .path "Eid" []⟩,
      ⟨"from_vid", .path "Vid" []⟩,
      ⟨"to_vid", .path "Vid" []⟩,
      ⟨"edge_name", .path "Arc" [.path "str" []]⟩,
      ⟨"parameters", .path "EdgeParameters" []⟩,
      ⟨"optional", .path "bool" []⟩,
      ⟨"recursive", .path "Option" [.path "Recursive" []]⟩] }

/-- `IRFold` struct (ir/mod.rs) -/
def def_IRFold : TypeDef :=
  { name := "IRFold", params := [], kind := "struct", src := "ir/mod.rs",
    fields := [
      ⟨"eid", .path "Eid" []⟩,
      ⟨"from_vid", .path "Vid" []⟩,
      ⟨"to_vid", .path "Vid" []⟩,
      ⟨"edge_name", .path "Arc" [.path "str" []]⟩,
      ⟨"parameters", .path "EdgeParameters" []⟩,
      ⟨"component", .path "Arc" [.path "IRQueryComponent" []]⟩,
      ⟨"imported_tags", .path "Vec" [.path "FieldRef" []]⟩,
      ⟨"fold_specific_outputs", .path "BTreeMap" [.path "Arc" [.path "str" []], .path "FoldSpecificFieldKind" []]⟩,
      ⟨"post_filters", .path "Vec" [.path "Operation" [.path "FoldSpecificFieldKind" [], .path "Argument" []]]⟩] }

/-- `IRQuery` struct (ir/mod.rs) -/
def def_IRQuery : TypeDef :=
  { name := "IRQuery", params := [], kind := "struct", src := "ir/mod.rs",
    fields := [
      ⟨"root_name", .path "Arc" [.path "str" []]⟩,
      ⟨"root_parameters", .path "EdgeParameters" []⟩,
      ⟨"root_component", .path "Arc" [.path "IRQueryComponent" []]⟩,
      ⟨"variables", .path "BTreeMap" [.path "Arc" [.path "str" []], .path "Type" []]⟩] }

/-- `IRQueryComponent` struct (ir/mod.rs) -/
def def_IRQueryComponent : TypeDef :=
  { name := "IRQueryComponent", params := [], kind := "struct", src := "ir/mod.rs",
    fields := [
      ⟨"root", .path "Vid" []⟩,
      ⟨"vertices", .path "BTreeMap" [.path "Vid" [], .path "IRVertex" []]⟩,
      ⟨"edges", .path "BTreeMap" [.path "Eid" [], .path "Arc" [.path "IREdge" []]]⟩,
      ⟨"folds", .path "BTreeMap" [.path "Eid" [], .path "Arc" [.path "IRFold" []]]⟩,
      ⟨"outputs", .path "BTreeMap" [.path "Arc" [.path "str" []], .path "ContextField" []]⟩] }

/-- `IRVertex` struct (ir/mod.rs) -/
def def_IRVertex : TypeDef :=
  { name := "IRVertex", params := [], kind := "struct", src := "ir/mod.rs",
    fields := [
      ⟨"vid", .path "Vid" []⟩,
      ⟨"type_name", .path "Arc" [.path "str" []]⟩,
      ⟨"coerced_from_type", .path "Option" [.path "Arc" [.path "str" []]]⟩,
      ⟨"filters", .path "Vec" [.path "Operation" [.path "LocalField" [], .path "Argument" []]]⟩] }

/-- `IndexedQuery` struct (ir/indexed.rs) -/
def def_IndexedQuery : TypeDef :=
  { name := "IndexedQuery", params := [], kind := "struct", src := "ir/indexed.rs",
    fields := [
      ⟨"ir_query", .path "IRQuery" []⟩,
      ⟨"vids", .path "BTreeMap" [.path "Vid" [], .path "Arc" [.path "IRQueryComponent" []]]⟩,
      ⟨"eids", .path "BTreeMap" [.path "Eid" [], .path "EdgeKind" []]⟩,
      ⟨"outputs", .path "BTreeMap" [.path "Arc" [.path "str" []], .path "Output" []]⟩] }

/-- `InterpretedQuery` struct (interpreter/mod.rs) -/
def def_InterpretedQuery : TypeDef :=
  { name := "InterpretedQuery", params := [], kind := "struct", src := "interpreter/mod.rs",
    fields := [
      ⟨"indexed_query", .path "Arc" [.path "IndexedQuery" []]⟩,
      ⟨"arguments", .path "Arc" [.path "BTreeMap" [.path "Arc" [.path "str" []], .path "FieldValue" []]]⟩] }

/-- `InvalidIRQueryError` enum (ir/indexed.rs) -/
def def_InvalidIRQueryError : TypeDef :=
  { name := "InvalidIRQueryError", params := [], kind := "enum", src := "ir/indexed.rs",
    fields := [
      ⟨"GetBetterVariant.0", .path "i32" []⟩] }

/-- `LocalField` struct (ir/mod.rs) -/
def def_LocalField : TypeDef :=
  { name := "LocalField", params := [], kind := "struct", src := "ir/mod.rs",
    fields := [
      ⟨"field_name", .path "Arc" [.path "str" []]⟩,
      ⟨"field_type", .path "Type" []⟩] }

/-- `Modifiers` struct (ir/types/base.rs) -/
def def_Modifiers : TypeDef :=
  { name := "Modifiers", params := [], kind := "struct", src := "ir/types/base.rs",
    fields := [
      ⟨"mask", .path "u64" []⟩] }

/-- `Operation` enum (ir/mod.rs) -/
def def_Operation : TypeDef :=
  { name := "Operation", params := ["LeftT", "RightT"], kind := "enum", src := "ir/mod.rs",
    fields := [
      ⟨"IsNull.0", .path "LeftT" []⟩,
      ⟨"IsNotNull.0", .path "LeftT" []⟩,
      ⟨"Equals.0", .path "LeftT" []⟩,
      ⟨"Equals.1", .path "RightT" []⟩,
      ⟨"NotEquals.0", .path "LeftT" []⟩,
      ⟨"NotEquals.1", .path "RightT" []⟩,
      ⟨"LessThan.0", .path "LeftT" []⟩,
      ⟨"LessThan.1", .path "RightT" []⟩,
      ⟨"LessThanOrEqual.0", .path "LeftT" []⟩,
      ⟨"LessThanOrEqual.1", .path "RightT" []⟩,
      ⟨"GreaterThan.0", .path "LeftT" []⟩,
      ⟨"GreaterThan.1", .path "RightT" []⟩,
      ⟨"GreaterThanOrEqual.0", .path "LeftT" []⟩,
      ⟨"GreaterThanOrEqual.1", .path "RightT" []⟩,
      ⟨"Contains.0", .path "LeftT" []⟩,
      ⟨"Contains.1", .path "RightT" []⟩,
      ⟨"NotContains.0", .path "LeftT" []⟩,
      ⟨"NotContains.1", .path "RightT" []⟩,
      ⟨"OneOf.0", .path "LeftT" []⟩,
      ⟨"OneOf.1", .path "RightT" []⟩,
      ⟨"NotOneOf.0", .path "LeftT" []⟩,
      ⟨"NotOneOf.1", .path "RightT" []⟩,
      ⟨"HasPrefix.0", .path "LeftT" []⟩,
      ⟨"HasPrefix.1", .path "RightT" []⟩,
      ⟨"NotHasPrefix.0", .path "LeftT" []⟩,
      ⟨"NotHasPrefix.1", .path "RightT" []⟩,
      ⟨"HasSuffix.0", .path "LeftT" []⟩,
      ⟨"HasSuffix.1", .path "RightT" []⟩,
      ⟨"NotHasSuffix.0", .path "LeftT" []⟩,
      ⟨"NotHasSuffix.1", .path "RightT" []⟩,
      ⟨"HasSubstring.0", .path "LeftT" []⟩,
      ⟨"HasSubstring.1", .path "RightT" []⟩,
      ⟨"NotHasSubstring.0", .path "LeftT" []⟩,
      ⟨"NotHasSubstring.1", .path "RightT" []⟩,
      ⟨"RegexMatches.0", .path "LeftT" []⟩,
      ⟨"RegexMatches.1", .path "RightT" []⟩,
      ⟨"NotRegexMatches.0", .path "LeftT" []⟩,
      ⟨"NotRegexMatches.1", .path "RightT" []⟩] }

/-- `Output` struct (ir/indexed.rs) -/
def def_Output : TypeDef :=
  { name := "Output", params := [], kind := "struct", src := "ir/indexed.rs",
    fields := [
      ⟨"name", .path "Arc" [.path "str" []]⟩,
      ⟨"value_type", .path "Type" []⟩,
      ⟨"vid", .path "Vid" []⟩] }

/-- `Recursive` struct (ir/mod.rs) -/
def def_Recursive : TypeDef :=
  { name := "Recursive", params := [], kind := "struct", src := "ir/mod.rs",
    fields := [
      ⟨"depth", .path "NonZeroUsize" []⟩,
      ⟨"coerce_to", .path "Option" [.path "Arc" [.path "str" []]]⟩] }

/-- `Schema` struct (schema/mod.rs) -/
def def_Schema : TypeDef :=
  { name := "Schema", params := [], kind := "struct", src := "schema/mod.rs",
    fields := [
      ⟨"schema", .path "SchemaDefinition" []⟩,
      ⟨"query_type", .path "ObjectType" []⟩,
      ⟨"directives", .path "HashMap" [.path "Arc" [.path "str" []], .path "DirectiveDefinition" []]⟩,
      ⟨"scalars", .path "HashMap" [.path "Arc" [.path "str" []], .path "TypeDefinition" []]⟩,
      ⟨"vertex_types", .path "HashMap" [.path "Arc" [.path "str" []], .path "TypeDefinition" []]⟩,
      ⟨"fields", .path "HashMap" [.tuple [.path "Arc" [.path "str" []], .path "Arc" [.path "str" []]], .path "FieldDefinition" []]⟩,
      ⟨"field_origins", .path "BTreeMap" [.tuple [.path "Arc" [.path "str" []], .path "Arc" [.path "str" []]], .path "FieldOrigin" []]⟩] }

/-- `SerializableContext` struct (interpreter/mod.rs) -/
def def_SerializableContext : TypeDef :=
  { name := "SerializableContext", params := ["Vertex"], kind := "struct", src := "interpreter/mod.rs",
    fields := [
      ⟨"active_vertex", .path "Option" [.path "Vertex" []]⟩,
      ⟨"vertices", .path "BTreeMap" [.path "Vid" [], .path "Option" [.path "Vertex" []]]⟩,
      ⟨"values", .path "Vec" [.path "FieldValue" []]⟩,
      ⟨"suspended_vertices", .path "Vec" [.path "Option" [.path "Vertex" []]]⟩,
      ⟨"folded_contexts", .path "BTreeMap" [.path "Eid" [], .path "Option" [.path "Vec" [.path "DataContext" [.path "Vertex" []]]]]⟩,
      ⟨"folded_values", .path "BTreeMap" [.tuple [.path "Eid" [], .path "Arc" [.path "str" []]], .path "Option" [.path "ValueOrVec" []]]⟩,
      ⟨"piggyback", .path "Option" [.path "Vec" [.path "DataContext" [.path "Vertex" []]]]⟩,
      ⟨"imported_tags", .path "BTreeMap" [.path "FieldRef" [], .path "TaggedValue" []]⟩] }

/-- `TaggedValue` enum (interpreter/mod.rs) -/
def def_TaggedValue : TypeDef :=
  { name := "TaggedValue", params := [], kind := "enum", src := "interpreter/mod.rs",
    fields := [
      ⟨"Some.0", .path "FieldValue" []⟩] }

/-- `TransformationKind` enum (ir/mod.rs) -/
def def_TransformationKind : TypeDef :=
  { name := "TransformationKind", params := [], kind := "enum", src := "ir/mod.rs",
    fields := [] }

/-- `TransparentValue` enum (ir/value.rs) -/
def def_TransparentValue : TypeDef :=
  { name := "TransparentValue", params := [], kind := "enum", src := "ir/value.rs",
    fields := [
      ⟨"Int64.0", .path "i64" []⟩,
      ⟨"Uint64.0", .path "u64" []⟩,
      ⟨"Float64.0", .path "f64" []⟩,
      ⟨"String.0", .path "Arc" [.path "str" []]⟩,
      ⟨"Boolean.0", .path "bool" []⟩,
      ⟨"Enum.0", .path "Arc" [.path "str" []]⟩,
      ⟨"List.0", .path "Arc" [.slice (.path "TransparentValue" [])]⟩] }

/-- `Type` struct (ir/types/base.rs) -/
def def_Type : TypeDef :=
  { name := "Type", params := [], kind := "struct", src := "ir/types/base.rs",
    fields := [
      ⟨"base", .path "Arc" [.path "str" []]⟩,
      ⟨"modifiers", .path "Modifiers" []⟩] }

/-- `TypeParseError` struct (ir/types/base.rs) -/
def def_TypeParseError : TypeDef :=
  { name := "TypeParseError", params := [], kind := "struct", src := "ir/types/base.rs",
    fields := [
      ⟨"invalid_type", .path "String" []⟩] }

/-- `ValueOrVec` enum (interpreter/mod.rs) -/
def def_ValueOrVec : TypeDef :=
  { name := "ValueOrVec", params := [], kind := "enum", src := "interpreter/mod.rs",
    fields := [
      ⟨"Value.0", .path "FieldValue" []⟩,
      ⟨"Vec.0", .path "Vec" [.path "ValueOrVec" []]⟩] }

/-- `VariableRef` struct (ir/mod.rs) -/
def def_VariableRef : TypeDef :=
  { name := "VariableRef", params := [], kind := "struct", src := "ir/mod.rs",
    fields := [
      ⟨"variable_name", .path "Arc" [.path "str" []]⟩,
      ⟨"variable_type", .path "Type" []⟩] }

/-- `VertexIterator` alias (interpreter/mod.rs) -/
def def_VertexIterator : TypeDef :=
  { name := "VertexIterator", params := ["VertexT"], kind := "alias", src := "interpreter/mod.rs",
    fields := [
      ⟨"alias", .path "Box" [.dynTrait false false]⟩] }

/-- `Vid` struct (ir/mod.rs) -/
def def_Vid : TypeDef :=
  { name := "Vid", params := [], kind := "struct", src := "ir/mod.rs",
    fields := [
      ⟨"0", .path "NonZeroUsize" []⟩] }

def typeDefs : Defs := [
  def_Argument,
  def_ContextField,
  def_ContextIterator,
  def_ContextOutcomeIterator,
  def_DataContext,
  def_EdgeKind,
  def_EdgeParameters,
  def_Eid,
  def_FieldOrigin,
  def_FieldRef,
  def_FieldValue,
  def_FiniteF64,
  def_FoldSpecificField,
  def_FoldSpecificFieldKind,
  def_IREdge,
  def_IRFold,
  def_IRQuery,
  def_IRQueryComponent,
  def_IRVertex,
  def_IndexedQuery,
  def_InterpretedQuery,
  def_InvalidIRQueryError,
  def_LocalField,
  def_Modifiers,
  def_Operation,
  def_Output,
  def_Recursive,
  def_Schema,
  def_SerializableContext,
  def_TaggedValue,
  def_TransformationKind,
  def_TransparentValue,
  def_Type,
  def_TypeParseError,
  def_ValueOrVec,
  def_VariableRef,
  def_VertexIterator,
  def_Vid
]

/-- Every `static` item / `thread_local!` block of trustfall_core/src compiled outside `#[cfg(test)]`
(module tree walked from lib.rs, function bodies included), sorted by file and name. -/
def statics : List StaticDef := [
  { name := "NON_NULL_INT_TYPE", kind := "static", mutable := false, src := "ir/mod.rs",
    ty := .path "OnceLock" [.path "Type" []] },
  { name := "TYPENAME_META_FIELD_ARC", kind := "static", mutable := false, src := "ir/mod.rs",
    ty := .path "OnceLock" [.path "Arc" [.path "str" []]] },
  { name := "BOOLEAN_TYPE_NAME", kind := "static", mutable := false, src := "ir/types/base.rs",
    ty := .ref false (.path "str" []) },
  { name := "FLOAT_TYPE_NAME", kind := "static", mutable := false, src := "ir/types/base.rs",
    ty := .ref false (.path "str" []) },
  { name := "INT_TYPE_NAME", kind := "static", mutable := false, src := "ir/types/base.rs",
    ty := .ref false (.path "str" []) },
  { name := "INT_TYPE_NAME_ARC", kind := "static", mutable := false, src := "ir/types/base.rs",
    ty := .path "OnceLock" [.path "Arc" [.path "str" []]] },
  { name := "STRING_TYPE_NAME", kind := "static", mutable := false, src := "ir/types/base.rs",
    ty := .ref false (.path "str" []) },
  { name := "STRING_TYPE_NAME_ARC", kind := "static", mutable := false, src := "ir/types/base.rs",
    ty := .path "OnceLock" [.path "Arc" [.path "str" []]] },
  { name := "BUILTIN_SCALARS", kind := "static", mutable := false, src := "schema/mod.rs",
    ty := .path "OnceLock" [.path "HashSet" [.ref false (.path "str" [])]] }]

end TF.Generated
