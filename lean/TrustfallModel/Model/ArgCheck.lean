/-
Model of argument validation: `InterpretedQuery::from_query_and_arguments` and
`validate_argument_type` (`trustfall_core/src/interpreter/mod.rs`), with the error type
`QueryArgumentsError` and its `From<Vec<QueryArgumentsError>>` (`interpreter/error.rs`), and of the
type "the query implies" for a variable: the running `Type::intersect` over its uses in
`fill_in_query_variables` (`frontend/mod.rs`).

Representation:
* `ir_query.variables : BTreeMap<Arc<str>, Type>` and `arguments : BTreeMap<Arc<str>, FieldValue>` are
  association lists *in the maps' iteration order* (the caller lists them in key order; nothing here
  depends on the order relation itself, only on the order of the list); `N` is the type of names;
* types are the mask-based `Ty` of `Model/Ty.lean`; `is_valid_value` is `Ty.isValidValue`, a total
  `Bool` function: a `FieldValue::Enum` is valid for no type, so an enum argument value is an
  ordinary `ArgumentTypeError` (history: the enum arm was `unimplemented!`, base.rs:380, and an enum
  leaf reached by the traversal was the outcome `panic` of `validate` — F-14, repaired);
* `ArgumentTypeError(name, type.to_string(), value)` keeps the type itself (its text is
  `Ty.display`) and the value.

(The file `Model/Args.lean` is the engine group's structural copy on `QTy`; `Model/ArgsQ.lean` and
`Proofs/ArgsBridge.lean` connect the two.)

Core Lean only (compiled into the native driver).
-/
import TrustfallModel.Model.Ty

namespace TF.Args
open TF Ty

/-- One element of the `errors` vector (`QueryArgumentsError` without `MultipleErrors`). -/
inductive ArgErr (N : Type) where
  /-- `ArgumentTypeError(variable_name, variable_type.to_string(), argument_value)` -/
  | argumentTypeError (name : N) (ty : Ty) (value : Value)
  /-- `MissingArguments(names)` -/
  | missingArguments (names : List N)
  /-- `UnusedArguments(names)` -/
  | unusedArguments (names : List N)
  deriving Repr

/-- `QueryArgumentsError` as returned: a single error, or `MultipleErrors(DisplayVec(v))`. -/
inductive ArgsError (N : Type) where
  | single (e : ArgErr N)
  | multiple (es : List (ArgErr N))
  deriving Repr

/-- `impl From<Vec<QueryArgumentsError>> for QueryArgumentsError`: `assert!(!v.is_empty())`. -/
def ArgsError.ofVec {N : Type} : List (ArgErr N) → Outcome (ArgsError N)
  | [] => .panic
  | [e] => .ok (.single e)
  | es => .ok (.multiple es)

/-- The `errors` vector an `ArgsError` was built from. -/
def ArgsError.errors {N : Type} : ArgsError N → List (ArgErr N)
  | .single e => [e]
  | .multiple es => es

variable {N : Type} [DecidableEq N]

/-- `arguments.get(name)`. -/
def getArg (args : List (N × Value)) (n : N) : Option Value :=
  match args.find? (fun kv => kv.1 == n) with
  | some kv => some kv.2
  | none => none

/-- `validate_argument_type`: `Ok(())` is `none`. -/
def validateArgumentType (name : N) (ty : Ty) (value : Value) : Option (ArgErr N) :=
  if isValidValue ty value then none else some (.argumentTypeError name ty value)

/-- The `for (variable_name, variable_type) in &variables` loop: the type errors pushed onto
`errors` and the names pushed onto `missing_arguments`, both in iteration order. -/
def checkVariables (args : List (N × Value)) : List (N × Ty) → List (ArgErr N) × List N
  | [] => ([], [])
  | (name, ty) :: rest =>
    let (errors, missing) := checkVariables args rest
    match getArg args name with
    | some value =>
      ((match validateArgumentType name ty value with | some e => e :: errors | none => errors),
        missing)
    | none => (errors, name :: missing)

/-- `arguments.keys().filter(|arg| !variables.contains_key(arg))`. -/
def unusedArguments (vars : List (N × Ty)) (args : List (N × Value)) : List N :=
  (args.map (·.1)).filter fun k => !(vars.any fun nt => nt.1 == k)

/-- `InterpretedQuery::from_query_and_arguments`: `ok (.ok ())` = accepted,
`ok (.error e)` = `Err(e)`.  The only panic site left is the `assert!(!v.is_empty())` of
`errors.into()`, which sits behind `errors.is_empty()` (`C12.validate_total`: never reached). -/
def validate (vars : List (N × Ty)) (args : List (N × Value)) : Outcome (Except (ArgsError N) Unit) :=
  let (errors, missing) := checkVariables args vars
  let errors := if missing.isEmpty then errors else errors ++ [.missingArguments missing]
  let unused := unusedArguments vars args
  let errors := if unused.isEmpty then errors else errors ++ [.unusedArguments unused]
  if errors.isEmpty then .ok (.ok ())
  else
    match ArgsError.ofVec errors with
    | .ok e => .ok (.error e)
    | .panic => .panic

/-! ### The type the query implies for a variable -/

/-- The loop body of `fill_in_query_variables` for the uses of one variable, in use order:
`existing_type` starts as the first use's type (`or_insert_with`), every use (the first included)
is intersected into it; an incompatible use pushes an error and leaves `existing_type` unchanged.
Result: the final `existing_type` and whether an error was pushed (then the frontend refuses the
query: there is no compiled query, hence no argument validation). -/
def inferLoop (existing : Ty) : List Ty → Outcome (Ty × Bool)
  | [] => .ok (existing, false)
  | use :: rest =>
    match intersect existing use with
    | .panic => .panic
    | .ok (some t) => inferLoop t rest
    | .ok none =>
      match inferLoop existing rest with
      | .panic => .panic
      | .ok (t, _) => .ok (t, true)

/-- Inferred type of a variable with uses `uses` (`none`: no use / incompatible uses). -/
def inferType : List Ty → Outcome (Option Ty)
  | [] => .ok none
  | first :: rest =>
    match inferLoop first (first :: rest) with
    | .panic => .panic
    | .ok (t, false) => .ok (some t)
    | .ok (_, true) => .ok none

end TF.Args
