/-
Argument validation as the engine sees it (`InterpretedQuery::from_query_and_arguments`,
`trustfall_core/src/interpreter/mod.rs`) and value validity on the structural type view `QTy`
(`Type::is_valid_value`, `ir/types/base.rs`).

* `validQ t v : Bool` — the *relation* "value `v` is valid for type `t`": `null` iff that level is
  nullable, lists element-wise against the tail of the flags, `Int64`/`Uint64` for a non-list `Int`,
  `Float64`/`String`/`Boolean` for their base names, enum values excluded (valid for no type).  It
  agrees with the mask-based `Ty.isValidValue` of `Model/Ty.lean` on all values
  (`Proofs/ArgsBridge.lean`: `validQ_iff`).
* `validValueR` / `validateArgs` — the function as executed (enum values: `false`; history: they
  were `unimplemented!` = `panic` before the repair of F-14; `all` short-circuits), a copy of the
  definitions the `exec` driver command uses (`Driver/Engine.lean`), with the local `let rec`s made
  top-level so that they can be reasoned about.
* `ArgsOK ir args` — "the engine accepts the argument values".

Core Lean only (compiled into the native driver).
-/
import TrustfallModel.Model.IR

namespace TF.Engine
open TF

mutual
/-- `validNulls flags base v`: `flags` from the outermost level to the base. -/
def validNulls : List Bool → Name → Value → Bool
  | [], _, _ => false
  | nullable :: rest, base, v =>
    match v with
    | .null => nullable
    | .enum _ => false
    | .list items => !rest.isEmpty && validNullsList rest base items
    | .int64 _ => rest.isEmpty && base == "Int"
    | .uint64 _ => rest.isEmpty && base == "Int"
    | .float64 _ => rest.isEmpty && base == "Float"
    | .string _ => rest.isEmpty && base == "String"
    | .boolean _ => rest.isEmpty && base == "Boolean"
def validNullsList : List Bool → Name → List Value → Bool
  | _, _, [] => true
  | flags, base, x :: xs => validNulls flags base x && validNullsList flags base xs
end

/-- `v` is a valid value of type `t`. -/
def validQ (t : QTy) (v : Value) : Bool := validNulls t.nulls t.base v

mutual
/-- `Type::is_valid_value` as executed (enum values: `false`; `all` short-circuits).  Never
`panic`/`fuel`; the result type `R` is kept for the callers. -/
def validValueR : List Bool → Name → Value → R Bool
  | [], _, _ => .ok false
  | nullable :: rest, base, v =>
    match v with
    | .null => .ok nullable
    | .enum _ => .ok false
    | .list items => if rest.isEmpty then .ok false else validValuesR rest base items
    | .int64 _ => .ok (rest.isEmpty && base == "Int")
    | .uint64 _ => .ok (rest.isEmpty && base == "Int")
    | .float64 _ => .ok (rest.isEmpty && base == "Float")
    | .string _ => .ok (rest.isEmpty && base == "String")
    | .boolean _ => .ok (rest.isEmpty && base == "Boolean")
def validValuesR : List Bool → Name → List Value → R Bool
  | _, _, [] => .ok true
  | flags, base, x :: xs =>
    match validValueR flags base x with
    | .ok true => validValuesR flags base xs
    | other => other
end

/-- The `ArgumentTypeError`s of the variables that have an argument, in variable order. -/
def argTypeErrs (args : List (Name × Value)) : List (Name × QTy) → R (List String)
  | [] => .ok []
  | (n, t) :: rest =>
    match args.find? (·.1 == n) with
    | some (_, v) =>
      match validValueR t.nulls t.base v with
      | .ok ok =>
        match argTypeErrs args rest with
        | .ok es => .ok (if ok then es else "ArgumentTypeError" :: es)
        | other => other
      | .panic s => .panic s
      | .fuel => .fuel
    | none => argTypeErrs args rest

/-- `InterpretedQuery::from_query_and_arguments`: the error variants in the order the code pushes
them, or `none` when the arguments are accepted. -/
def validateArgs (vars : List (Name × QTy)) (args : List (Name × Value)) : R (Option (List String)) :=
  match argTypeErrs args vars with
  | .ok es =>
    let missing := vars.any fun (n, _) => (args.find? (·.1 == n)).isNone
    let unused := args.any fun (n, _) => (vars.find? (·.1 == n)).isNone
    let all := es ++ (if missing then ["MissingArguments"] else []) ++
      (if unused then ["UnusedArguments"] else [])
    .ok (if all.isEmpty then none else some all)
  | .panic s => .panic s
  | .fuel => .fuel

/-- The engine accepts the argument values for this query. -/
def ArgsOK (ir : IRQuery) (args : List (Name × Value)) : Bool :=
  match validateArgs ir.variables args with
  | .ok none => true
  | _ => false

end TF.Engine
