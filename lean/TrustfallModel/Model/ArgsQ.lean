/-
Argument validation on the structural type view `QTy` of `Model/IR.lean` (base name as a `String`,
nullability flags outermost-first), defined *through* the mask-based model: a `QTy` is converted to
the `Ty` it denotes (`QTy.toTy`: UTF-8 bytes of the name, `Shape.encode` of the flags) and
`Args.validate` of `Model/ArgCheck.lean` is run on it.  `Proofs/ArgsBridge.lean` proves that the
engine group's structural copy (`Engine.validValueR`, `Engine.validateArgs` in `Model/Args.lean`)
computes the same thing.

Core Lean only (compiled into the native driver).
-/
import TrustfallModel.Model.IR
import TrustfallModel.Model.ArgCheck

namespace TF.Args
open TF Ty

/-- UTF-8 bytes of a name. -/
def nameBytes (s : String) : Bytes := s.toUTF8.data.toList

/-- Flags (outermost first, last = the base's own) to a shape.  A `QTy` always has at least one
flag; the empty list (not a type) is mapped to an arbitrary shape. -/
def shapeOfFlags : List Bool → Shape
  | [] => .named true
  | [n] => .named n
  | n :: m :: rest => .list n (shapeOfFlags (m :: rest))

/-- The mask-based type a `QTy` denotes. -/
def qtyToTy (q : Engine.QTy) : Ty := Ty.ofShape (nameBytes q.base) (shapeOfFlags q.nulls)

/-- `Type::is_valid_value` on a `QTy`. -/
def validValueQ (q : Engine.QTy) (v : Value) : Bool := isValidValue (qtyToTy q) v

/-- `InterpretedQuery::from_query_and_arguments` on `QTy`-typed variables. -/
def validateQ (vars : List (Engine.Name × Engine.QTy)) (args : List (Engine.Name × Value)) :
    Ty.Outcome (Except (ArgsError Engine.Name) Unit) :=
  validate (vars.map fun nq => (nq.1, qtyToTy nq.2)) args

/-- The variant names of the errors, in order (what `Engine.validateArgs` reports). -/
def ArgErr.variantName {N : Type} : ArgErr N → String
  | .argumentTypeError .. => "ArgumentTypeError"
  | .missingArguments _ => "MissingArguments"
  | .unusedArguments _ => "UnusedArguments"

end TF.Args
