/-
Structural derivation of the auto traits `Send` and `Sync` over type definitions extracted from the
Rust sources (C24), and the "no hash-ordered container" check over the same table (C14).

`Generated/TypeDefs.lean` (regenerated on every run by `harness/src/bin/autotraits_gen.rs` from
/repo's working tree) lists every struct / enum / type alias of the files that define `Schema`,
`IndexedQuery`, `IRQuery`, `FieldValue`, `Type`, `InterpretedQuery`, `DataContext` as field type
expressions.  `sendSync` computes `(Send, Sync)` of a type expression the way the language defines
auto traits: a struct/enum has the trait iff all its fields (of all variants) have it, with the
standard-library rules for the containers and cells that occur, coinductively for recursive types
(a type met again while it is being examined does not obstruct), and a *leaf table* for the external
`async_graphql_parser` AST types that `Schema` stores.  Unknown names are **not** Send/Sync
(conservative: a new external type has to be added to the leaf table, where the harness asserts it
at compile time).  rustc's real solver is not modelled; the harness cross-checks it
(`const _: fn() = || { ok::<Schema>(); … }` and a differential run over probe types).

Imports nothing outside core so that it compiles into the native driver.
-/
namespace TF.AutoTraits

/-- Rust type expressions as far as field types use them.  Paths keep their last segment only
(`std::sync::Arc<T>` ↦ `path "Arc" [T]`); lifetimes and const arguments are dropped. -/
inductive TyExpr where
  | path (name : String) (args : List TyExpr)
  /-- `&T` (`mutable = false`) / `&mut T` -/
  | ref (mutable : Bool) (t : TyExpr)
  /-- `*const T` / `*mut T` -/
  | ptr (t : TyExpr)
  | tuple (ts : List TyExpr)
  /-- `[T]` and `[T; N]` -/
  | slice (t : TyExpr)
  /-- `dyn Trait + …`: only whether `Send` / `Sync` are among the bounds matters -/
  | dynTrait (send sync : Bool)
  /-- `fn(…) -> …` pointers are `Send + Sync` -/
  | fnPtr
  /-- anything the extractor does not understand (never Send/Sync) -/
  | other (what : String)
  deriving Repr, Inhabited

structure Field where
  name : String
  ty : TyExpr
  deriving Repr, Inhabited

structure TypeDef where
  name : String
  /-- generic type parameters, in order -/
  params : List String
  /-- fields of the struct, or of all variants of the enum (`Variant.field`), or the aliased type -/
  fields : List Field
  /-- `struct` / `enum` / `alias`, and the file it came from -/
  kind : String
  src : String
  deriving Repr, Inhabited

abbrev Defs := List TypeDef

/-- `(Send, Sync)` -/
abbrev SS := Bool × Bool

def both (a b : SS) : SS := (a.1 && b.1, a.2 && b.2)
def allSS (l : List SS) : SS := l.foldl both (true, true)

def yes : SS := (true, true)
def no : SS := (false, false)

/-- Primitive and standard-library types without type parameters that occur as leaves. -/
def stdLeaves : List String :=
  ["bool", "char", "str", "String", "u8", "u16", "u32", "u64", "u128", "usize", "i8", "i16", "i32",
   "i64", "i128", "isize", "f32", "f64", "NonZeroUsize", "NonZeroU64", "NonZeroU32", "AtomicUsize",
   "AtomicBool", "AtomicU64", "Duration"]

/-- External leaf table: `async_graphql_parser::types` AST nodes stored inside `Schema`
(and `Name`/`Pos`/`Positioned` that occur in signatures).  Every entry is asserted
`Send + Sync` at compile time in `harness/src/bin/autotraits.rs`. -/
def externalLeaves : List String :=
  ["SchemaDefinition", "ObjectType", "DirectiveDefinition", "TypeDefinition", "FieldDefinition",
   "InputValueDefinition", "Name", "Pos"]

/-- Standard-library rules, given the `(Send, Sync)` of the type arguments. -/
def builtin (n : String) (as : List SS) : Option SS :=
  if stdLeaves.contains n || externalLeaves.contains n then some yes else
  match n, as with
  | "Arc", [t] => let b := t.1 && t.2; some (b, b)         -- Arc<T>: Send+Sync iff T: Send+Sync
  | "Rc", _ => some no
  | "Weak", _ => some no                                    -- (rc::Weak; sync::Weak is not used)
  | "Cell", [t] => some (t.1, false)
  | "RefCell", [t] => some (t.1, false)
  | "UnsafeCell", [t] => some (t.1, false)
  | "OnceCell", [t] => some (t.1, false)
  | "Mutex", [t] => some (t.1, t.1)
  | "RwLock", [t] => some (t.1, t.1 && t.2)
  | "OnceLock", [t] => some (t.1, t.1 && t.2)
  | "PhantomData", [t] => some t
  | "Box", [t] => some t
  | "Vec", [t] => some t
  | "VecDeque", [t] => some t
  | "Option", [t] => some t
  | "BTreeSet", [t] => some t
  | "HashSet", [t] => some t
  | "SmallVec", [t] => some t
  | "Positioned", [t] => some t                             -- async_graphql_parser::Positioned<T> { pos, node }
  | "BTreeMap", [k, v] => some (both k v)
  | "HashMap", [k, v] => some (both k v)
  | "Result", [t, e] => some (both t e)
  | _, _ => none

def findDef (defs : Defs) (n : String) : Option TypeDef := defs.find? (fun d => d.name == n)

def lookupEnv (env : List (String × SS)) (n : String) : Option SS :=
  (env.find? (fun e => e.1 == n)).map (·.2)

/-- `(Send, Sync)` of a type expression.
* `fuel` bounds the depth (exhausted ⇒ not Send/Sync, conservative);
* `vis` lists the (definition, argument traits) instances under examination: meeting one again is
  the coinductive hypothesis;
* `env` gives the traits of the generic parameters in scope. -/
def ssAux (defs : Defs) : Nat → List (String × List SS) → List (String × SS) → TyExpr → SS
  | 0, _, _, _ => no
  | fuel + 1, vis, env, t =>
    match t with
    | .path n args =>
      let as := args.map (ssAux defs fuel vis env)
      match args, lookupEnv env n with
      | [], some r => r
      | _, _ =>
        match findDef defs n with
        | some d =>
          if vis.contains (n, as) then yes
          else
            let env' := d.params.zip as
            if d.params.length != as.length then no
            else allSS (d.fields.map (fun f => ssAux defs fuel ((n, as) :: vis) env' f.ty))
        | none =>
          match builtin n as with
          | some r => r
          | none => no
    | .ref false t => let r := ssAux defs fuel vis env t; (r.2, r.2)    -- &T: Send iff T: Sync
    | .ref true t => ssAux defs fuel vis env t                           -- &mut T: like T
    | .ptr _ => no
    | .tuple ts => allSS (ts.map (ssAux defs fuel vis env))
    | .slice t => ssAux defs fuel vis env t
    | .dynTrait s y => (s, y)
    | .fnPtr => yes
    | .other _ => no

def defaultFuel : Nat := 64

def sendSync (defs : Defs) (t : TyExpr) : SS := ssAux defs defaultFuel [] [] t

/-- `sendSync` of a definition without type parameters, by name. -/
def sendSyncOf (defs : Defs) (name : String) : SS := sendSync defs (.path name [])

/-! ### hash-ordered containers (C14's obligation over the same table) -/

mutual
def mentionsHash : TyExpr → Bool
  | .path n args => n == "HashMap" || n == "HashSet" || mentionsHashList args
  | .ref _ t => mentionsHash t
  | .ptr t => mentionsHash t
  | .tuple ts => mentionsHashList ts
  | .slice t => mentionsHash t
  | _ => false
def mentionsHashList : List TyExpr → Bool
  | [] => false
  | t :: ts => mentionsHash t || mentionsHashList ts
end

def fieldsOf (defs : Defs) (n : String) : List Field :=
  match findDef defs n with
  | some d => d.fields
  | none => []

/-- The named definitions exist, have fields, and none of their field types mentions
`HashMap` / `HashSet`. -/
def mapsOrdered (defs : Defs) (names : List String) : Bool :=
  names.all fun n =>
    match findDef defs n with
    | some d => !d.fields.isEmpty && d.fields.all (fun f => !mentionsHash f.ty)
    | none => false

mutual
/-- names of definitions mentioned in a type expression -/
def mentioned : TyExpr → List String
  | .path n args => n :: mentionedList args
  | .ref _ t => mentioned t
  | .ptr t => mentioned t
  | .tuple ts => mentionedList ts
  | .slice t => mentioned t
  | _ => []
def mentionedList : List TyExpr → List String
  | [] => []
  | t :: ts => mentioned t ++ mentionedList ts
end

/-- Definitions reachable from `roots` through field types (`fuel` rounds of closure). -/
def reachable (defs : Defs) : Nat → List String → List String
  | 0, seen => seen
  | fuel + 1, seen =>
    let next := seen.flatMap fun n => (fieldsOf defs n).flatMap fun f => mentioned f.ty
    let fresh := (next.filter fun n => (findDef defs n).isSome && !seen.contains n).eraseDups
    if fresh.isEmpty then seen else reachable defs fuel (seen ++ fresh)

/-- No definition reachable from `roots` has a field mentioning `HashMap` / `HashSet`. -/
def hashFreeFrom (defs : Defs) (roots : List String) : Bool :=
  (reachable defs defaultFuel roots).all fun n => (fieldsOf defs n).all fun f => !mentionsHash f.ty

/-! ### interior mutability (a sufficient structural condition for "compiled queries are immutable
values") -/

/-- Cells and locks of the standard library: anything through which a `&T` can change state. -/
def interiorNames : List String :=
  ["Cell", "RefCell", "UnsafeCell", "OnceCell", "OnceLock", "LazyCell", "LazyLock", "Mutex", "RwLock",
   "Condvar", "Once", "Barrier"]

def isInteriorName (n : String) : Bool := interiorNames.contains n || n.startsWith "Atomic"

mutual
def mentionsInterior : TyExpr → Bool
  | .path n args => isInteriorName n || mentionsInteriorList args
  | .ref _ t => mentionsInterior t
  | .ptr t => mentionsInterior t
  | .tuple ts => mentionsInteriorList ts
  | .slice t => mentionsInterior t
  | _ => false
def mentionsInteriorList : List TyExpr → Bool
  | [] => false
  | t :: ts => mentionsInterior t || mentionsInteriorList ts
end

/-- The roots are defined, and no definition reachable from them has a field whose type mentions a
cell, a lock or an atomic: every value of these types is plain immutable data behind `&`. -/
def immutableFrom (defs : Defs) (roots : List String) : Bool :=
  roots.all (fun n => (findDef defs n).isSome) &&
  (reachable defs defaultFuel roots).all fun n => (fieldsOf defs n).all fun f => !mentionsInterior f.ty

/-! ### statics (a sufficient structural condition for "the engine keeps no shared mutable state
outside the values it is given") -/

/-- A `static` item or a `thread_local!` / `lazy_static!` block, as extracted from the source. -/
structure StaticDef where
  name : String
  /-- `static`, or the name of the (unexpanded) macro that declares it -/
  kind : String
  /-- `static mut` -/
  mutable : Bool
  src : String
  ty : TyExpr
  deriving Repr, Inhabited

/-- A static can only ever be written once (at initialisation): it is a plain `static` (not
`static mut`, not thread-local), and its type is `OnceLock<T>` / `LazyLock<T>` over a `T` free of
cells, locks and atomics, or is itself free of them. -/
def staticWriteOnce (defs : Defs) (s : StaticDef) : Bool :=
  s.kind == "static" && !s.mutable &&
  (match s.ty with
   | .path "OnceLock" [t] => !mentionsInterior t
   | .path "LazyLock" args => !mentionsInteriorList args
   | t => !mentionsInterior t) &&
  -- definitions of the table mentioned in the type are themselves immutable values
  (mentioned s.ty).all fun n => (findDef defs n).isNone || immutableFrom defs [n]

def staticsWriteOnce (defs : Defs) (l : List StaticDef) : Bool := l.all (staticWriteOnce defs)

end TF.AutoTraits
