/-
Model of `trustfall_core/src/interpreter/hints/candidates.rs` (non-test code, lines 1–546):
`CandidateValue<FieldValue>`, `Range<FieldValue>` and the operations `Range::new`, `Range::intersect`,
`Range::degenerate`, `Range::null_only`, `Range::contains`, `CandidateValue::intersect`,
`CandidateValue::exclude_single_value` (with `T = U = FieldValue`) and `CandidateValue::normalize`.

Conventions
* `&mut self` methods are functions returning the new `self`.
* `<`, `<=`, `>`, `>=` on `FieldValue` are the provided methods of `PartialOrd`, i.e. tests on
  `partial_cmp` = `Value.cmp` (`Cand.lt/le/gt/ge` below); `==`/`!=` on `FieldValue` is `Value.beq`.
* `Vec::contains(&x)` is `iter().any(|e| *e == *x)` (`Cand.containsV`); `Vec::retain(p)` is `List.filter p`.
* `T::default()` is `FieldValue::Null` (`#[default] Null`).
* `range.start_bound() == range.end_bound()` and `*range == Range::full()` use the *derived* `PartialEq`
  of `std::ops::Bound` / `Range`: same variant and payloads `==` by `FieldValue`'s `PartialEq`
  (`Bound.beq`, `Range.beq`).
* `Range::new` asserts that no bound is null: outcome `Cand.Outcome.panic`.  (No `TF.Outcome` existed in
  `Model/` when this file was written, so the outcome type is local: `TF.Cand.Outcome`.)
  The `debug_assert!(!x.is_null())` lines inside `Range::intersect` look only at bounds of ranges; since
  the fields are private and every constructor goes through the assertion of `Range::new`
  (or is `full`/`full_non_null`), no input can reach them; they are not modelled.
* `CandidateValue::intersect` calls itself once, "with operands reversed", when `self` is a `Range` and
  `other` is not.  The callee's `self` is then never a `Range`, so the recursion is exactly one level deep:
  it is modelled by the non-recursive `intersectArm` (the four non-`Range` arms of the `match`) followed by
  the callee's `normalize`, followed by the caller's `normalize`.

Imports only other Model files (compiled into the native driver).
-/
import TrustfallModel.Model.Value

namespace TF

namespace Cand

/-- `NullableValue::is_null` for `FieldValue`: `matches!(self, FieldValue::Null)`. -/
def isNull : Value → Bool
  | .null => true
  | _ => false

/-- `a < b`: `matches!(a.partial_cmp(b), Some(Less))`. -/
def lt (a b : Value) : Bool := Value.cmp a b == .lt
/-- `a <= b`: `matches!(a.partial_cmp(b), Some(Less | Equal))`. -/
def le (a b : Value) : Bool := Value.cmp a b != .gt
/-- `a > b`: `matches!(a.partial_cmp(b), Some(Greater))`. -/
def gt (a b : Value) : Bool := Value.cmp a b == .gt
/-- `a >= b`: `matches!(a.partial_cmp(b), Some(Greater | Equal))`. -/
def ge (a b : Value) : Bool := Value.cmp a b != .lt

/-- `vs.contains(&x)`: `vs.iter().any(|e| *e == *x)`. -/
def containsV (vs : List Value) (x : Value) : Bool := vs.any (fun e => Value.beq e x)

/-- Result of an operation that may hit an `assert!`. -/
inductive Outcome (α : Type) where
  | ok (a : α)
  | panic
  deriving Repr

end Cand

open Cand

/-- `std::ops::Bound<FieldValue>`. -/
inductive Bound where
  | included (v : Value)
  | excluded (v : Value)
  | unbounded
  deriving Repr, Inhabited

/-- `Range<FieldValue>` (private fields `start`, `end`, `null_included`). -/
structure Range where
  start : Bound
  end_ : Bound
  nullIncluded : Bool
  deriving Repr, Inhabited

/-- `CandidateValue<FieldValue>`. -/
inductive Candidate where
  | impossible
  | single (v : Value)
  | multiple (vs : List Value)
  | range (r : Range)
  | all
  deriving Repr, Inhabited

namespace Bound

/-- derived `PartialEq` of `Bound<&FieldValue>` / `Bound<FieldValue>`. -/
def beq : Bound → Bound → Bool
  | included a, included b => Value.beq a b
  | excluded a, excluded b => Value.beq a b
  | unbounded, unbounded => true
  | _, _ => false

/-- the bound's payload is null (what `Range::new` asserts against). -/
def isNullBound : Bound → Bool
  | included v => isNull v
  | excluded v => isNull v
  | unbounded => false

/-- first `match` of `Range::contains`: does the lower bound admit `item`? -/
def startOk (b : Bound) (item : Value) : Bool :=
  match b with
  | included start => le start item
  | excluded start => lt start item
  | unbounded => true

/-- second `match` of `Range::contains`: does the upper bound admit `item`? -/
def endOk (b : Bound) (item : Value) : Bool :=
  match b with
  | included end_ => le item end_
  | excluded end_ => lt item end_
  | unbounded => true

/-- The two `if let Bound::Included(incl) = … && incl.borrow() == value` statements of the `Range` arm of
`exclude_single_value` (same code for `start` and `end`): an included bound `==` to the value becomes
excluded, with the bound's own payload. -/
def dropIncluded (b : Bound) (value : Value) : Bound :=
  match b with
  | included incl => if Value.beq incl value then excluded incl else b
  | _ => b

/-- first `match` of `Range::intersect`: the new `self.start`. -/
def meetStart (self other : Bound) : Bound :=
  match self with
  | included start =>
    match other with
    | included otherStart => if lt start otherStart then other else self
    | excluded otherStart => if le start otherStart then other else self
    | unbounded => self
  | excluded start =>
    match other with
    | included otherStart => if lt start otherStart then other else self
    | excluded otherStart => if lt start otherStart then other else self
    | unbounded => self
  | unbounded => other

/-- second `match` of `Range::intersect`: the new `self.end`. -/
def meetEnd (self other : Bound) : Bound :=
  match self with
  | included end_ =>
    match other with
    | included otherEnd => if gt end_ otherEnd then other else self
    | excluded otherEnd => if ge end_ otherEnd then other else self
    | unbounded => self
  | excluded end_ =>
    match other with
    | included otherEnd => if gt end_ otherEnd then other else self
    | excluded otherEnd => if gt end_ otherEnd then other else self
    | unbounded => self
  | unbounded => other

end Bound

namespace Range
open Bound

/-- `Range::full()`. -/
def full : Range := ⟨.unbounded, .unbounded, true⟩
/-- `Range::full_non_null()`. -/
def fullNonNull : Range := ⟨.unbounded, .unbounded, false⟩

/-- derived `PartialEq` of `Range<FieldValue>`. -/
def beq (a b : Range) : Bool :=
  Bound.beq a.start b.start && Bound.beq a.end_ b.end_ && (a.nullIncluded == b.nullIncluded)

/-- `Range::new`: `assert!(!v.is_null())` on the start bound, then on the end bound. -/
def new (start end_ : Bound) (nullIncluded : Bool) : Outcome Range :=
  if start.isNullBound then .panic
  else if end_.isNullBound then .panic
  else .ok ⟨start, end_, nullIncluded⟩

/-- `Range::intersect`. -/
def intersect (self other : Range) : Range :=
  { start := meetStart self.start other.start
    end_ := meetEnd self.end_ other.end_
    nullIncluded := self.nullIncluded && other.nullIncluded }

/-- `Range::degenerate`. -/
def degenerate (self : Range) : Bool :=
  match self.start, self.end_ with
  | included l, included r => gt l r
  | included l, excluded r => ge l r
  | excluded l, included r => ge l r
  | excluded l, excluded r => ge l r
  | _, unbounded => false
  | unbounded, _ => false

/-- `Range::null_only`. -/
def nullOnly (self : Range) : Bool := self.nullIncluded && self.degenerate

/-- `Range::contains`. -/
def contains (self : Range) (item : Value) : Bool :=
  if isNull item then self.nullIncluded
  else startOk self.start item && endOk self.end_ item

end Range

namespace Candidate
open Bound Range

/-- `CandidateValue::normalize`. -/
def normalize (self : Candidate) : Candidate :=
  match self with
  | range r =>
    if r.nullOnly then single .null
    else if r.degenerate then impossible
    else if Bound.beq r.start r.end_ then
      if Range.beq r Range.full then all
      else
        match r.start with
        | included b => if r.nullIncluded then multiple [.null, b] else single b
        | _ => self
    else self
  | multiple values =>
    match values with
    | [] => impossible
    | [v] => single v
    | _ => self
  | _ => self

/-- The arms `Impossible`, `Single`, `Multiple`, `All` of the `match self` in
`CandidateValue::intersect`, before the final `normalize`.  (`self` is not a `Range`; for a `Range`
this function is never called and returns `self`.) -/
def intersectArm (self other : Candidate) : Candidate :=
  match self with
  | impossible => impossible
  | single val =>
    match other with
    | impossible => impossible
    | single o => if !(Value.beq val o) then impossible else self
    | multiple others => if !(containsV others val) then impossible else self
    | range others => if !(others.contains val) then impossible else self
    | all => self
  | multiple mult =>
    match other with
    | impossible => impossible
    | single o => if containsV mult o then single o else impossible
    | multiple others => multiple (mult.filter (fun value => containsV others value))
    | range others => multiple (mult.filter (fun value => others.contains value))
    | all => self
  | range _ => self
  | all => other

/-- `CandidateValue::intersect`. -/
def intersect (self other : Candidate) : Candidate :=
  match self with
  | range r =>
    match other with
    | range o => normalize (range (r.intersect o))
    | _ =>
      -- "We've already handled this case, just with operands reversed":
      -- `other.intersect(placeholder)` (arms + its own `normalize`), `*self = other`, then `normalize`.
      normalize (normalize (intersectArm other (range r)))
  | _ => normalize (intersectArm self other)

/-- `CandidateValue::exclude_single_value::<FieldValue>`. -/
def exclude (self : Candidate) (value : Value) : Candidate :=
  match self with
  | impossible => impossible
  | single s => if Value.beq s value then impossible else self
  | multiple mult => normalize (multiple (mult.filter (fun v => !(Value.beq v value))))
  | range r =>
    if isNull value then
      normalize (range { r with nullIncluded := false })
    else
      normalize (range { r with start := r.start.dropIncluded value, end_ := r.end_.dropIncluded value })
  | all => if isNull value then range Range.fullNonNull else all

/-- Membership: which values a candidate stands for.  `Impossible` none, `Single(s)` those `== s`,
`Multiple(vs)` those `==` to some element, `Range` by `Range::contains`, `All` every value. -/
def mem (v : Value) : Candidate → Bool
  | impossible => false
  | single s => Value.beq s v
  | multiple vs => containsV vs v
  | range r => r.contains v
  | all => true

/-- Well-formedness: what `Range::new` asserts — no range bound is null. -/
def wf : Candidate → Bool
  | range r => !r.start.isNullBound && !r.end_.isNullBound
  | _ => true

end Candidate

end TF
