/-
Model of the `QueryCarrier` take/put discipline of `trustfall_core/src/interpreter/execution.rs`
(and `filtering.rs::apply_filter`) under re-entrant pulls — the *operational* half of C02 that the
list-level interpreter (`Model/Interp.lean`) cannot exhibit — plus the re-batching wrapper of the
repo's batching fuzzer (`VariableChunkIterator`).

## What the Rust code does

`struct QueryCarrier { query: Option<InterpretedQuery> }` (execution.rs:22-25) is a one-slot cell.
Every engine → adapter call made while the pipeline is *built* is a bracket on the cell of the
pipeline under construction:

    let query = carrier.query.take().expect("query was not returned");      -- take
    let resolve_info = ResolveInfo::new(query, …);
    let it = adapter.resolve_…(iterator, …, &resolve_info);                  -- window
    carrier.query = Some(resolve_info.into_inner());                         -- put

During the window the adapter owns the upstream iterator and may pull it any number of times
(`VariableChunkIterator::new` pulls eagerly; that is how issue #205 was reproduced).  A pull runs
the lazy `map`/`filter_map` closures of the *earlier* stages.  Only two kinds of closure touch a
carrier: `compute_fold`'s `folded_iterator` closure (it calls `compute_component` for the fold's
inner component, i.e. builds a whole inner pipeline with its own brackets, and then drains it with
`collect_fold_elements`) and its `final_iterator` closure (one bracket per `@output` of the fold).
Each owns a `carrier.clone()` made at construction time (execution.rs:495 and :592).

## Inventory of carrier sites (file:line of the pinned tree)

| site                | take / put or peek                      | cell                                   |
|---------------------|-----------------------------------------|----------------------------------------|
| `startingVertices`  | put 50 (carrier starts `None`, line 41) | root                                   |
| `coercion`          | 80 / 83    `perform_coercion`           | cell of the pipeline being built       |
| `localField`        | 861 / 866  `compute_local_field_with_separate_value` (filter left operand; tag of the same vertex, filtering.rs:298) | same |
| `contextField`      | 794 / 817  `compute_context_field_with_separate_value` (filtering.rs:309) | same |
| `filterVariable`    | peek filtering.rs:281 `as_ref().expect`  | same                                   |
| `edgeNeighbors`     | 1026 / 1036 `expand_non_recursive_edge` | same                                   |
| `recNeighbors`      | 1162 / 1172 `perform_one_recursive_edge_expansion` | same                        |
| `recCoercion`       | 1110 / 1119 `expand_recursive_edge`     | same                                   |
| `foldImport`        | 432 / 441  `compute_fold`, imported context-field tags | same                    |
| `foldNeighbors`     | 480 / 490  `compute_fold`               | same                                   |
| clone #1            | 495 `carrier.clone()` → `folded_iterator` closure (544-549: `compute_component(…, &mut cloned_carrier, …)`) | new cell |
| `maxFoldLimit`      | peek 274 (called at 498)                | cell of the pipeline being built       |
| `minFoldLimit`      | peek 329 (called at 507)                | same                                   |
| post-filters        | 575-585 → `apply_filter`: `filterVariable` / `localField` / `contextField` | same |
| clone #2            | 592 `carrier.clone()` → `final_iterator` closure | new cell                      |
| `foldOutput`        | 661 / 669 inside the `final_iterator` closure | the closure's own clone (#2)     |
| `constructOutputs`  | 187 / 222  `construct_outputs`: ONE bracket spanning all `resolve_property` calls (205-214) | root |

(`hints/dynamic.rs:266` builds a fresh `QueryCarrier { query: Some(..) }` per hint call and runs one
`contextField` bracket on it; it is reached from adapter code, not from the pipeline, and is a
one-bracket plan on a fresh full cell.)

## The machine

A pipeline is a list of `Item`s in construction order.  Cells hold `Option Query`, abstracted to a
`Bool` ("full").  The adversary (every order-preserving adapter) is an explicit schedule, a
`List Nat` consumed left to right: inside a window, choice `n` activates the `n`-th closure created so
far in the pipeline under construction; an out-of-range choice (or the end of the schedule) closes
the window.  Activating a closure builds its body as a pipeline on the closure's cell (recursively,
with nested closures), then opens one window over the closures of that inner pipeline (the closure
draining it), then drops them.  All functions are total and structurally recursive on a fuel.

`closure (own := false)` is the hypothetical pre-#205 wiring: the closure works on the cell of the
pipeline that created it instead of on a clone.

How the machine is tied to the code (harness `bin/carrier.rs`): (i) `planOf` is re-derived in Rust
from the real `IRQuery` and compared textually; (ii) over a lazy adapter the real call log must be
"root pipeline's calls, then bursts = bodies of closures"; (iii) under batching adapters every resolver
call is bracketed in a log, the nested log is parsed by the grammar this machine assigns to
interleavings (pipeline = its calls, each with a window of activations of earlier closures;
activation = the body's pipeline, then a window over its closures) into an abstract schedule, and
`runStats` must serve exactly the activations the real run performed and read the schedule to its end.

Not modelled (assumptions, stated in the evidence): Rust closure capture itself; that a per-context
`neighbors` iterator and the fold's element vector do not pull the outer pipeline; a closure is
never re-entered while it runs (`FnMut` behind `&mut`).
-/
import TrustfallModel.Model.IR

namespace TF.Carrier
open TF TF.Engine

/-- The places where `execution.rs` / `filtering.rs` touch a carrier (see the table above). -/
inductive Site where
  | coercion
  | localField
  | contextField
  | filterVariable
  | edgeNeighbors
  | recNeighbors
  | recCoercion
  | foldImport
  | foldNeighbors
  | maxFoldLimit
  | minFoldLimit
  | foldOutput
  | constructOutputs
  deriving DecidableEq, Repr, Inhabited

def Site.name : Site → String
  | .coercion => "coercion"
  | .localField => "local-field"
  | .contextField => "context-field"
  | .filterVariable => "filter-variable"
  | .edgeNeighbors => "edge-neighbors"
  | .recNeighbors => "rec-neighbors"
  | .recCoercion => "rec-coercion"
  | .foldImport => "fold-import"
  | .foldNeighbors => "fold-neighbors"
  | .maxFoldLimit => "max-fold-limit"
  | .minFoldLimit => "min-fold-limit"
  | .foldOutput => "fold-output"
  | .constructOutputs => "construct-outputs"

/-- One construction step of a pipeline. -/
inductive Item where
  /-- `take; ⟨one adapter call per entry of `at`, each may pull upstream⟩; put` on the pipeline's
  cell; `at` = the `Vid` the `ResolveInfo` / `ResolveEdgeInfo` of each call is positioned at (used
  only to compare the plan with the real engine's call log) -/
  | call (s : Site) («at» : List Vid)
  /-- `carrier.query.as_ref().expect("query was not returned")` -/
  | peek (s : Site)
  /-- `carrier.clone()` moved into a pull-time closure whose body builds and drains the pipeline
  `body` on that clone (`own = true`), or — pre-#205 — on the creating pipeline's cell itself -/
  | closure (own : Bool) (body : List Item)
  deriving Inhabited

abbrev Pipeline := List Item

/-- A closure that exists at run time: its private cell (used when `own`) and its body. -/
structure Clo where
  own : Bool
  full : Bool
  body : Pipeline
  deriving Inhabited

abbrev Schedule := List Nat

/-- What is threaded through a run besides the cells: the rest of the adversary's schedule and the
number of `carrier.clone()`s that copied an empty cell (not a panic in Rust: the copy is `None` and
the *next take* on it panics). -/
structure St where
  sched : Schedule
  emptyClones : Nat
  /-- number of closure activations served so far (an observable of the run, used to check that an
  abstract schedule derived from a real engine trace is consumed the way it was meant) -/
  acts : Nat
  deriving Repr, Inhabited

inductive Outcome where
  /-- construction finished and every pull the schedule asked for was served -/
  | ok
  /-- `expect("query was not returned")` at this site -/
  | takeOnNone (s : Site)
  /-- no panic on this schedule, but some closure captured a clone of an empty carrier -/
  | cloneOfNone
  | outOfFuel
  deriving DecidableEq, Repr, Inhabited

def Outcome.render : Outcome → String
  | .ok => "ok"
  | .takeOnNone s => s!"(take-on-none {s.name})"
  | .cloneOfNone => "clone-of-none"
  | .outOfFuel => "out-of-fuel"

inductive Res (α : Type) where
  | ok (a : α)
  | fail (o : Outcome)

/-- The state after a piece of a run: the current pipeline's cell, its closures, the rest. -/
abbrev Cfg := Bool × List Clo × St

mutual
/-- Build the remaining items of a pipeline whose cell is `c` and whose closures so far are `cs`. -/
def construct : Nat → Pipeline → Bool → List Clo → St → Res Cfg
  | 0, _, _, _, _ => .fail .outOfFuel
  | _ + 1, [], c, cs, st => .ok (c, cs, st)
  | f + 1, .peek s :: rest, c, cs, st =>
    if c then construct f rest c cs st else .fail (.takeOnNone s)
  | f + 1, .call s vids :: rest, c, cs, st =>
    if c then
      -- take: the cell is empty while the adapter runs
      match windows f vids.length false cs st with
      | .ok (_, cs', st') => construct f rest true cs' st'      -- put: `carrier.query = Some(..)`
      | .fail o => .fail o
    else .fail (.takeOnNone s)
  | f + 1, .closure own body :: rest, c, cs, st =>
    -- `carrier.clone()` copies whatever the cell holds
    construct f rest c (cs ++ [⟨own, c, body⟩])
      (if own && !c then { st with emptyClones := st.emptyClones + 1 } else st)
/-- `k` adapter calls inside one bracket. -/
def windows : Nat → Nat → Bool → List Clo → St → Res Cfg
  | 0, _, _, _, _ => .fail .outOfFuel
  | _ + 1, 0, c, cs, st => .ok (c, cs, st)
  | f + 1, k + 1, c, cs, st =>
    match window f c cs st with
    | .ok (c', cs', st') => windows f k c' cs' st'
    | .fail o => .fail o
/-- One window: the adversary activates closures of `cs` until it chooses to stop. -/
def window : Nat → Bool → List Clo → St → Res Cfg
  | 0, _, _, _ => .fail .outOfFuel
  | f + 1, c, cs, st =>
    match st.sched with
    | [] => .ok (c, cs, st)
    | n :: s =>
      match cs[n]? with
      | none => .ok (c, cs, { st with sched := s })
      | some clo =>
        match activate f c clo { st with sched := s, acts := st.acts + 1 } with
        | .ok (c', clo', st') => window f c' (cs.set n clo') st'
        | .fail o => .fail o
/-- One invocation of a pull-time closure created by a pipeline whose cell currently is `c`:
returns that cell and the closure (its private cell) afterwards. -/
def activate : Nat → Bool → Clo → St → Res (Bool × Clo × St)
  | 0, _, _, _ => .fail .outOfFuel
  | f + 1, c, clo, st =>
    match construct f clo.body (if clo.own then clo.full else c) [] st with
    | .ok (cell, inner, st') =>
      -- `collect_fold_elements(computed_iterator, …)` / `for folded_context in output_iterator`
      match window f cell inner st' with
      | .ok (cell', _, st'') =>
        if clo.own then .ok (c, { clo with full := cell' }, st'') else .ok (cell', clo, st'')
      | .fail o => .fail o
    | .fail o => .fail o
end

/-- The ownership structure of one query: the items of the root pipeline.  `interpret_ir` starts
with `carrier = None` (line 41), calls `resolve_starting_vertices` with a `ResolveInfo` built from a
clone of the query and puts it into the carrier (line 50); everything after that is `items`; the
consumer then pulls the result iterator. -/
structure Plan where
  items : Pipeline
  deriving Inhabited

def run (p : Plan) (sched : Schedule) (fuel : Nat) : Outcome :=
  match construct fuel p.items true [] ⟨sched, 0, 0⟩ with
  | .ok (c, cs, st) =>
    match window fuel c cs st with
    | .ok (_, _, st') => if st'.emptyClones = 0 then .ok else .cloneOfNone
    | .fail o => o
  | .fail o => o

/-- The same run, reporting also how many closure activations were served and how much of the
schedule was left unread (`none` when the run failed). -/
def runStats (p : Plan) (sched : Schedule) (fuel : Nat) : Outcome × Option (Nat × Nat) :=
  match construct fuel p.items true [] ⟨sched, 0, 0⟩ with
  | .ok (c, cs, st) =>
    match window fuel c cs st with
    | .ok (_, _, st') =>
      (if st'.emptyClones = 0 then .ok else .cloneOfNone, some (st'.acts, st'.sched.length))
    | .fail o => (o, none)
  | .fail o => (o, none)

/-! ### the plan of an IR query (`execution.rs`, function by function) -/

/-- `apply_filter` (filtering.rs:256-341) for a filter evaluated at `currentVid` of a component with
vertices `vs`. -/
def filterItems (vs : List IRVertex) (currentVid : Vid) (f : IRFilter) : Pipeline :=
  match f.op with
  | .un _ => []                                        -- `attempt_apply_unary_filter` returns early
  | .bin _ =>
    match f.right with
    | some (.var _ _) => [.peek .filterVariable]         -- filtering.rs:281
    | some (.tag (.ctx vid _ _)) =>
      if vid == currentVid then [.call .localField [currentVid]]    -- filtering.rs:298 → execution.rs:861/866
      else if (vs.find? (·.vid == vid)).isSome then [.call .contextField [vid]]   -- execution.rs:794/817
      else []                                            -- imported tag: read from the context
    | some (.tag (.fcount _ _)) => []
    | none => []                                         -- `unreachable!`, no carrier access before it

/-- `apply_local_field_filter` (719-739): `compute_local_field` then `apply_filter`. -/
def localFilterItems (vs : List IRVertex) (vid : Vid) (f : IRFilter) : Pipeline :=
  .call .localField [vid] :: filterItems vs vid f

/-- `coerce_if_needed` + the local filters (106-117 and `perform_entry_into_new_vertex` 1047-1064). -/
def entryItems (vs : List IRVertex) (vid : Vid) : Pipeline :=
  match vs.find? (·.vid == vid) with
  | none => []                                           -- `component.vertices[&vid]` panics first
  | some v =>
    (if v.coercedFrom.isSome then [.call .coercion [vid]] else []) ++
      v.filters.flatMap (localFilterItems vs vid)

/-- the loop `for _ in 2..=max_depth` of `expand_recursive_edge` (1108-1144) -/
def recLevelItems (fromVid : Vid) (coerce : Bool) : Nat → Pipeline
  | 0 => []
  | k + 1 => (if coerce then [.call .recCoercion [fromVid]] else []) ++ .call .recNeighbors [fromVid] ::
      recLevelItems fromVid coerce k

/-- `expand_edge` (962-1006). -/
def edgeItems (vs : List IRVertex) (e : IREdge) : Pipeline :=
  (match e.recursive with
    | none => [.call .edgeNeighbors [e.fromVid]]
    | some r => .call .recNeighbors [e.fromVid] ::
        recLevelItems e.fromVid r.coerceTo.isSome (r.depth - 1)) ++
    entryItems vs e.toVid

/-- the first loop of `compute_fold` (422-472) -/
def importItems : List FieldRef → Pipeline
  | [] => []
  | .ctx vid _ _ :: rest => .call .foldImport [vid] :: importItems rest
  | .fcount _ _ :: rest => importItems rest

/-- The Eid-ordered merge of `compute_component` (126-177) on already planned stages. -/
def mergeItems : List (Eid × Pipeline) → List (Eid × Pipeline) → Nat → Pipeline
  | [], fs, _ => fs.flatMap (·.2)
  | es, [], _ => es.flatMap (·.2)
  | e :: es, f :: fs, fuel + 1 =>
    if f.1 > e.1 then e.2 ++ mergeItems es (f :: fs) fuel
    else if f.1 < e.1 then f.2 ++ mergeItems (e :: es) fs fuel
    else []                                              -- `Ordering::Equal => unreachable!()`
  | _ :: _, _ :: _, 0 => []

mutual
/-- `compute_component` (97-180). -/
def compItems (own : Bool) : Component → Pipeline
  | .mk root vs es fs _ =>
    entryItems vs root ++
      mergeItems (es.map fun e => (e.eid, edgeItems vs e)) (foldsItems own vs fs) (es.length + fs.length)
/-- `compute_fold` (413-717) for each fold of a component with vertices `vs`. -/
def foldsItems (own : Bool) (vs : List IRVertex) : List Fold → List (Eid × Pipeline)
  | [] => []
  | .mk eid fromVid _ _ _ comp imports _ post :: rest =>
    (eid,
      importItems imports ++
      [.call .foldNeighbors [fromVid],
       .closure own (compItems own comp),                                    -- clone #1, line 495
       .peek .maxFoldLimit, .peek .minFoldLimit] ++
      post.flatMap (filterItems vs fromVid) ++
      [.closure own (comp.outputs.map fun o => .call .foldOutput [o.vid])])        -- clone #2, line 592
      :: foldsItems own vs rest
end

/-- `interpret_ir` after line 50: `compute_component` on the root, then `construct_outputs`
(one bracket, one `resolve_property` call per root output). -/
def planOfWith (own : Bool) (ir : IRQuery) : Plan :=
  ⟨compItems own ir.rootComponent ++ [.call .constructOutputs (ir.rootComponent.outputs.map (·.vid))]⟩

/-- The plan of a query as the pinned code builds it: every fold closure owns a clone. -/
def planOf (ir : IRQuery) : Plan := planOfWith true ir

/-- The pre-#205 wiring of the same query: fold closures work on the pipeline's own cell. -/
def planPre205 (ir : IRQuery) : Plan := planOfWith false ir

mutual
/-- "every closure owns a clone" -/
def Item.allOwn : Item → Bool
  | .call _ _ => true
  | .peek _ => true
  | .closure own body => own && allOwnL body
def allOwnL : List Item → Bool
  | [] => true
  | i :: is => i.allOwn && allOwnL is
end

def Plan.allOwn (p : Plan) : Bool := allOwnL p.items

mutual
/-- number of construction steps of a pipeline, nested bodies included (for the fuel bound) -/
def Item.size : Item → Nat
  | .call _ vids => vids.length + 2
  | .peek _ => 1
  | .closure _ body => sizeL body + 3
def sizeL : List Item → Nat
  | [] => 1
  | i :: is => i.size + sizeL is
end

/-- A fuel that always suffices (`Proofs/Carrier.lean: fuel_adequate`). -/
def fuelFor (p : Plan) (sched : Schedule) : Nat := sched.length + sizeL p.items + 1

/-! ### the re-batching wrapper (`VariableChunkIterator`, execution.rs:1358-1404 = fuzz target) -/

/-- Cut a sequence into consecutive batches whose sizes are read from a schedule; when the schedule
is exhausted the rest is one batch.  A size-0 entry is an empty batch. -/
def chunk {α : Type} : Schedule → List α → List (List α)
  | _, [] => []
  | [], xs => [xs]
  | n :: s, x :: xs => (x :: xs).take n :: chunk s ((x :: xs).drop n)

/-- `next_chunk_size` (1377-1386): 2-bit digits of the `u64`, least significant first, `+ 1`;
the offset wraps after 32 digits. -/
def wordSize (w : Nat) (i : Nat) : Nat := ((w >>> (2 * (i % 32))) &&& 3) + 1

/-- The first `k` chunk sizes a `VariableChunkIterator` with `chunk_sequence = w` uses. -/
def wordSizes (w : Nat) (k : Nat) : Schedule := (List.range k).map (wordSize w)

/-- Sizes of the non-empty batches actually pulled from an `n`-element input. -/
def chunkSizes (sched : Schedule) (n : Nat) : List Nat :=
  ((chunk sched (List.range n)).map List.length).filter (· != 0)

end TF.Carrier
