/-
Model of `trustfall_core/src/interpreter/helpers/correctness.rs` (`check_adapter_invariants`).

What the real function does, and what is mirrored here:

* It runs three queries over the schema-of-schemas (`SchemaAdapter`) to enumerate
  - every vertex type except the root query type, with its *declared* properties (fields whose base
    type is not a vertex type), to which it chains the implicit `__typename` property;
  - every edge of those types together with its parameters' defaults (`EdgeParameter.default` is
    `Some` for a declared default and for a nullable parameter, `None` otherwise); an edge with at
    least one `None` default is skipped (`continue`) — the documented limitation;
  - every `(type_name, coerce_to)` pair where `coerce_to` lists `type_name` in its `implements`
    clause (schema validation forces the clause to be transitively closed, so these are all
    (interface, implementer) pairs).
  The result of this enumeration is the `SchemaView` below; the harness computes it from the schema
  it generated, *not* through `SchemaAdapter`, so the view is an independent description.
* For every such point it feeds the probe `make_contexts(8)` — nine contexts (`0..=count`), each with
  no active vertex and a value stack holding exactly `Int64(i)` — to the adapter's resolver and
  consumes the output: while iterating it asserts the payload (value is `Null` / neighbour iterator is
  empty / coercion is `false`), then asserts the number of returned contexts, then recomputes the
  order tags (`get_context_order_values`: last value of the stack via `as_i64`, stack of length one)
  and asserts they equal the probe's.  Every failed assertion is a panic.

Abstractions: a `DataContext` is reduced to its active vertex (an opaque id) and its value stack — the
checker reads nothing else; a neighbour iterator is the list of neighbour ids (only emptiness is
observed); a resolver is an *arbitrary function* from the input context list to an output list (the
`ResolveInfo` the checker fabricates and the default-valued edge parameters are fixed by the point, so
a function of `(type, field)` subsumes them).  Resolvers that panic or diverge are outside the model.

Imports only Model files.
-/
import TrustfallModel.Model.Value

namespace TF.Checker
open TF

abbrev Name := String

/-- The part of a `DataContext` the checker can observe. -/
structure Ctx where
  /-- active vertex (`None` = the vertex does not exist); vertices are opaque ids -/
  active : Option Nat
  /-- the `values` stack -/
  values : List Value
  deriving Inhabited

/-- An adapter: three resolvers, each an arbitrary function on the context list. -/
structure AdapterModel where
  resolveProperty : Name → Name → List Ctx → List (Ctx × Value)
  resolveNeighbors : Name → Name → List Ctx → List (Ctx × List Nat)
  resolveCoercion : Name → Name → List Ctx → List (Ctx × Bool)

/-- What the checker's three meta-queries return for a schema. -/
structure SchemaView where
  /-- per vertex type other than the root query type: its declared property names -/
  props : List (Name × List Name)
  /-- (type, edge, parameters as (name, has a default or is nullable)) -/
  edges : List (Name × Name × List (Name × Bool))
  /-- (type_name, coerce_to): `coerce_to` declares `implements type_name` -/
  coercions : List (Name × Name)

def typenameProperty : Name := "__typename"

/-- `let sample_size = 8;` -/
def sampleSize : Nat := 8

/-- `make_contexts(count)`: note `0..=count`, i.e. `count + 1` contexts. -/
def makeContexts (count : Nat) : List Ctx :=
  (List.range (count + 1)).map fun i => { active := none, values := [Value.int64 (Int64.ofNat i)] }

def probe : List Ctx := makeContexts sampleSize

/-- `FieldValue::as_i64`. -/
def asI64 : Value → Option Int64
  | .uint64 u => if u.toNat < 2 ^ 63 then some (Int64.ofNat u.toNat) else none
  | .int64 i => some i
  | _ => none

/-- One element of `get_context_order_values`; `none` = one of its three panics
(`no ordering value pushed`, `ordering value was not a number`, `more than one value in the values
stack`). -/
def orderKey (c : Ctx) : Option Int64 :=
  match c.values.getLast? with
  | none => none
  | some v =>
    match asI64 v with
    | none => none
    | some k => if c.values.length = 1 then some k else none

/-- `get_context_order_values` over a list (`none` = it panicked on some element). -/
def orderKeys : List Ctx → Option (List Int64)
  | [] => some []
  | c :: cs =>
    match orderKey c, orderKeys cs with
    | some k, some ks => some (k :: ks)
    | _, _ => none

/-- `initial_context_order = get_context_order_values(&initial_contexts)`: the tags `0 … 8`
(`Proofs/Checker.lean` proves `orderKeys probe = some probeOrder`). -/
def probeOrder : List Int64 := (List.range (sampleSize + 1)).map Int64.ofNat

/-- Which assertion fired. -/
inductive FailClass where
  /-- the payload assertion inside the loop (non-null value / neighbour / `true`) -/
  | payload
  /-- `assert_eq!(initial_contexts.len(), final_contexts.len(), …)` -/
  | count
  /-- a panic inside `get_context_order_values` on a returned context -/
  | ctxshape
  /-- `assert_eq!(initial_context_order, final_context_order, …)` -/
  | order
  deriving DecidableEq, Repr

inductive Verdict where
  | pass
  | fail (cls : FailClass)
  deriving DecidableEq, Repr

/-- The body of the per-point loop, generic in the payload: `bad` is the negated payload assertion. -/
def checkOutputs {α : Type} (bad : α → Bool) (out : List (Ctx × α)) : Verdict :=
  if out.any (fun p => bad p.2) then .fail .payload
  else if out.length ≠ probe.length then .fail .count
  else
    match orderKeys (out.map Prod.fst) with
    | none => .fail .ctxshape
    | some ks => if probeOrder = ks then .pass else .fail .order

/-- `assert_eq!(FieldValue::NULL, value)`: `FieldValue`'s `PartialEq` (only `Null` equals `Null`). -/
def badValue (v : Value) : Bool := !(Value.beq Value.null v)
/-- `assert!(neighbors.next().is_none())`. -/
def badNeighbors (ns : List Nat) : Bool := !ns.isEmpty
/-- `assert!(!value)`. -/
def badCoercion (b : Bool) : Bool := b

/-- The (type, property) points `check_properties_are_implemented` visits: declared properties in
order, then `__typename`, for every type. -/
def propPoints (S : SchemaView) : List (Name × Name) :=
  S.props.flatMap fun tp => (tp.2 ++ [typenameProperty]).map fun p => (tp.1, p)

/-- `parameter_defaults.contains(&None)` negated: every parameter has a default or is nullable. -/
def edgeCheckable (params : List (Name × Bool)) : Bool := params.all fun p => p.2

/-- The (type, edge) points `check_edges_are_implemented` visits. -/
def edgePoints (S : SchemaView) : List (Name × Name) :=
  (S.edges.filter fun e => edgeCheckable e.2.2).map fun e => (e.1, e.2.1)

/-- The (type, edge) points the checker documents as *not* checked. -/
def uncoveredEdgePoints (S : SchemaView) : List (Name × Name) :=
  (S.edges.filter fun e => !edgeCheckable e.2.2).map fun e => (e.1, e.2.1)

/-- The (type_name, coerce_to) points `check_type_coercions_are_implemented` visits. -/
def coercionPoints (S : SchemaView) : List (Name × Name) := S.coercions

def propVerdict (A : AdapterModel) (pt : Name × Name) : Verdict :=
  checkOutputs badValue (A.resolveProperty pt.1 pt.2 probe)
def edgeVerdict (A : AdapterModel) (pt : Name × Name) : Verdict :=
  checkOutputs badNeighbors (A.resolveNeighbors pt.1 pt.2 probe)
def coercionVerdict (A : AdapterModel) (pt : Name × Name) : Verdict :=
  checkOutputs badCoercion (A.resolveCoercion pt.1 pt.2 probe)

/-- All per-point verdicts in the order the three sub-checks run. -/
def verdicts (S : SchemaView) (A : AdapterModel) : List Verdict :=
  (propPoints S).map (propVerdict A) ++ (edgePoints S).map (edgeVerdict A)
    ++ (coercionPoints S).map (coercionVerdict A)

/-- The first assertion that fires (the real function panics there and stops), or `pass`. -/
def run (S : SchemaView) (A : AdapterModel) : Verdict :=
  match (verdicts S A).find? (fun v => v != .pass) with
  | some v => v
  | none => .pass

/-- `check_adapter_invariants` returns normally (`true`) / panics (`false`). -/
def check (S : SchemaView) (A : AdapterModel) : Bool := run S A == .pass

/-! ### The honest adapter and single-fault injection (used by the driver and by examples) -/

/-- The adapter contract on one resolver output: one output per input in the same order, and the
documented payload for every context without an active vertex (`dflt`); for contexts that do have a
vertex the payload is whatever `f` says. -/
def resolveWith {α : Type} (dflt : α) (f : Nat → α) (ctxs : List Ctx) : List (Ctx × α) :=
  ctxs.map fun c => (c, match c.active with | none => dflt | some v => f v)

/-- An adapter that honours the contract (its answers for existing vertices are irrelevant here). -/
def honestAdapter : AdapterModel where
  resolveProperty _ _ ctxs := resolveWith Value.null (fun v => Value.int64 (Int64.ofNat v)) ctxs
  resolveNeighbors _ _ ctxs := resolveWith [] (fun v => [v + 1]) ctxs
  resolveCoercion _ _ ctxs := resolveWith false (fun _ => true) ctxs

inductive ResolverKind where
  | prop | nbr | coerce
  deriving DecidableEq, Repr

inductive FaultKind where
  /-- wrong payload for the context at index 3: non-null value / one neighbour / `true` -/
  | payload
  /-- the context at index 3 is not returned -/
  | drop
  /-- the context at index 3 is returned twice -/
  | dup
  /-- the contexts at indices 3 and 4 are returned in the opposite order -/
  | swap
  /-- the context at index 3 is replaced by a fresh `DataContext::new(None)` (empty value stack); not
  one of the violations named by the property; exercises `get_context_order_values` -/
  | tamper
  deriving DecidableEq, Repr

structure Fault where
  resolver : ResolverKind
  typeName : Name
  field : Name
  kind : FaultKind

/-- Index at which every fault is injected. -/
def faultIndex : Nat := 3

def swapAt {β : Type} : Nat → List β → List β
  | 0, a :: b :: rest => b :: a :: rest
  | n + 1, a :: rest => a :: swapAt n rest
  | _, l => l

def dupAt {β : Type} : Nat → List β → List β
  | 0, a :: rest => a :: a :: rest
  | n + 1, a :: rest => a :: dupAt n rest
  | _, l => l

def setPayloadAt {α : Type} (x : α) : Nat → List (Ctx × α) → List (Ctx × α)
  | 0, (c, _) :: rest => (c, x) :: rest
  | n + 1, a :: rest => a :: setPayloadAt x n rest
  | _, l => l

def tamperAt {α : Type} : Nat → List (Ctx × α) → List (Ctx × α)
  | 0, (_, x) :: rest => ({ active := none, values := [] }, x) :: rest
  | n + 1, a :: rest => a :: tamperAt n rest
  | _, l => l

def applyFault {α : Type} (wrong : α) (k : FaultKind) (out : List (Ctx × α)) : List (Ctx × α) :=
  match k with
  | .payload => setPayloadAt wrong faultIndex out
  | .drop => out.eraseIdx faultIndex
  | .dup => dupAt faultIndex out
  | .swap => swapAt faultIndex out
  | .tamper => tamperAt faultIndex out

/-- The honest adapter with one fault injected at one (resolver, type, field). -/
def faultyAdapter (f : Fault) : AdapterModel where
  resolveProperty t p ctxs :=
    let out := honestAdapter.resolveProperty t p ctxs
    if f.resolver = .prop ∧ t = f.typeName ∧ p = f.field then
      applyFault (Value.int64 7) f.kind out else out
  resolveNeighbors t e ctxs :=
    let out := honestAdapter.resolveNeighbors t e ctxs
    if f.resolver = .nbr ∧ t = f.typeName ∧ e = f.field then
      applyFault [0] f.kind out else out
  resolveCoercion t c ctxs :=
    let out := honestAdapter.resolveCoercion t c ctxs
    if f.resolver = .coerce ∧ t = f.typeName ∧ c = f.field then
      applyFault true f.kind out else out

end TF.Checker
