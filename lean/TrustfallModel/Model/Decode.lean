/-
Model of `trustfall_core/src/serialization/{mod.rs,deserializers.rs}`: decoding a result row
(`BTreeMap<Arc<str>, FieldValue>`) or `&EdgeParameters` into a `#[derive(Deserialize)]` struct
(`TryIntoStruct::try_into_struct`).

What is modelled, and from where it was transcribed:

* `FieldValueDeserializer` (deserializers.rs): the hand-written methods `deserialize_i8/i16/i32/u8/u16/u32`
  (`try_into` on the `i64`/`u64` payload, everything else to `deserialize_any`), `deserialize_f32`
  (`v as f32` for `Float64`), `deserialize_tuple` (length check for lists, then `deserialize_any`),
  `deserialize_option` (`Null ↦ visit_none`, anything else `visit_some(self)`), `deserialize_ignored_any`
  (`visit_none`) and `deserialize_any` (`Null ↦ visit_none`, `Int64 ↦ visit_i64`, `Uint64 ↦ visit_u64`,
  `Float64 ↦ visit_f64`, `String ↦ visit_str`, `Boolean ↦ visit_bool`, `Enum ↦ todo!()` = **panic**,
  `List ↦ visit_seq` over serde's `SeqDeserializer`); every other `deserialize_*` is
  `forward_to_deserialize_any!`.
* serde's visitors for the target types (TRUSTED TRANSCRIPTION, serde_core 1.0.229,
  `src/de/impls.rs`): the integer visitor macros `num_self!`, `num_as_self!`, `int_to_int!`, `int_to_uint!`,
  `uint_to_self!` (lines 154–374) and the per-type tables that say which macro serves `visit_i64` /
  `visit_u64` for `i8 … u64, isize, usize` (lines 376–448), `f32`/`f64` (450–464: integers are accepted by
  `num_as_self!`, i.e. `v as f32/f64`), `i128`/`u128` (519–533); `BoolVisitor` (52–67), `UnitVisitor`
  (14–29: only `visit_unit`, which this deserializer never calls), `CharVisitor` (537–565: `visit_str`
  accepts exactly one `char`), `StringVisitor::visit_str`, `OptionVisitor`, `VecVisitor::visit_seq` (loop over
  `next_element` until `None`), the tuple visitors (1396–1432: one `next_element` per position,
  `invalid_length` when the sequence ends early); `Visitor`'s defaults in `src/de/mod.rs` (every
  `visit_*` that a visitor does not define is `Err(invalid_type)`), and the derived struct visitor
  (`visit_map`: known key ↦ decode the value, unknown key ↦ `IgnoredAny`, after the loop every field
  still unset goes through `serde::__private::de::missing_field`, which yields `None` for an `Option`
  field and an error otherwise).
* Platform: `isize`/`usize` are 64 bits wide.

Floats.  `float64 k` carries the order-preserving integer key of a finite `f64` (±0 identified).  A
decoded `f32` is carried as the key of the `f64` it widens to exactly, or `inf`/`negInf`.  The IEEE
conversions `i64/u64 as f64`, `i64/u64 as f32`, `f64 as f32` (round to nearest, ties to even; overflow to
infinity) are defined here concretely on keys (`i2d`, `i2s`, `d2s`) so that the driver can answer and the
correspondence run can check them; the C18 theorems about integers do not depend on them.

Imports nothing outside core (compiled into the native driver).
-/
import TrustfallModel.Model.Value

namespace TF
namespace Decode

/-! ## Targets -/

/-- Integer target types. -/
inductive IntTy where
  | i8 | i16 | i32 | i64 | u8 | u16 | u32 | u64 | isize | usize | i128 | u128
  deriving DecidableEq, Repr, Inhabited

namespace IntTy
def min : IntTy → Int
  | i8 => -128
  | i16 => -32768
  | i32 => -2147483648
  | i64 | isize => -9223372036854775808
  | i128 => -170141183460469231731687303715884105728
  | u8 | u16 | u32 | u64 | usize | u128 => 0

def max : IntTy → Int
  | i8 => 127
  | i16 => 32767
  | i32 => 2147483647
  | i64 | isize => 9223372036854775807
  | i128 => 170141183460469231731687303715884105727
  | u8 => 255
  | u16 => 65535
  | u32 => 4294967295
  | u64 | usize => 18446744073709551615
  | u128 => 340282366920938463463374607431768211455

/-- The six types for which `deserializers.rs` has its own method (`deserialize_i8` …
`deserialize_u32`); the others are forwarded to `deserialize_any`. -/
def narrow : IntTy → Bool
  | i8 | i16 | i32 | u8 | u16 | u32 => true
  | _ => false

def name : IntTy → String
  | i8 => "i8" | i16 => "i16" | i32 => "i32" | i64 => "i64"
  | u8 => "u8" | u16 => "u16" | u32 => "u32" | u64 => "u64"
  | isize => "isize" | usize => "usize" | i128 => "i128" | u128 => "u128"
end IntTy

/-- The number lies in the target's range. -/
abbrev fits (t : IntTy) (n : Int) : Prop := t.min ≤ n ∧ n ≤ t.max

/-- `intTarget bits signed`: the eight fixed-width targets named by the property. -/
def intTarget : Nat → Bool → IntTy
  | 8, true => .i8 | 16, true => .i16 | 32, true => .i32 | 8, false => .u8
  | 16, false => .u16 | 32, false => .u32 | _, true => .i64 | _, false => .u64

/-- Target-type grammar: the Rust types a struct field may have. -/
inductive Target where
  | int (t : IntTy)
  | f32
  | f64
  | bool
  | string
  | char
  | unit
  | option (t : Target)
  | vec (t : Target)
  | tuple (ts : List Target)
  deriving Repr, Inhabited

/-! ## Decoded values -/

/-- A decoded float: finite (as the key of the `f64` it is / widens to) or an infinity. -/
inductive Flt where
  | fin (k : Int)
  | inf
  | negInf
  deriving DecidableEq, Repr, Inhabited

/-- Decoded Rust values. `()` has no constructor: the decoder never produces one (see `decode`). -/
inductive Dec where
  | int (t : IntTy) (n : Int)
  | f64 (x : Flt)
  | f32 (x : Flt)
  | bool (b : Bool)
  | str (s : Bytes)
  | char (s : Bytes)
  | none
  | some (x : Dec)
  | list (xs : List Dec)
  | tuple (xs : List Dec)
  deriving Repr, Inhabited

/-- Failure modes: `Err(Error::Custom(_))`, or a Rust panic. -/
inductive Err where
  | invalid
  | panic
  deriving DecidableEq, Repr, Inhabited

abbrev Res := Except Err

/-! ## IEEE conversions on keys -/

/-- number of significant bits -/
def bitLen (m : Nat) : Nat := if m = 0 then 0 else Nat.log2 m + 1

structure FloatFmt where
  /-- precision (significant bits, including the implicit one) -/
  p : Nat
  /-- exponent of the last place of the smallest subnormal -/
  eminLsb : Int
  /-- largest exponent of a leading bit -/
  emax : Int

def fmt64 : FloatFmt := ⟨53, -1074, 1023⟩
def fmt32 : FloatFmt := ⟨24, -149, 127⟩

/-- a magnitude `q · 2^x` (`q > 0`), zero, or overflow -/
inductive Rounded where
  | zero
  | fin (q : Nat) (x : Int)
  | inf
  deriving Repr

/-- Round the magnitude `m · 2^x` to the format: nearest, ties to even; beyond the largest finite
value (after rounding) ↦ infinity; below half the smallest subnormal ↦ zero. -/
def roundTo (f : FloatFmt) (m : Nat) (x : Int) : Rounded :=
  if m = 0 then .zero else
  let e : Int := x + (bitLen m : Int) - 1
  let t : Int := Max.max (e - ((f.p : Int) - 1)) f.eminLsb
  if t ≤ x then
    if e > f.emax then .inf else .fin m x
  else
    let s : Nat := (t - x).toNat
    let q : Nat := m / 2 ^ s
    let r : Nat := m % 2 ^ s
    let half : Nat := 2 ^ (s - 1)
    let q' : Nat := if r > half ∨ (r = half ∧ q % 2 = 1) then q + 1 else q
    if q' = 0 then .zero
    else if t + (bitLen q' : Int) - 1 > f.emax then .inf
    else .fin q' t

/-- bit pattern (without sign) of the `f64` with magnitude `q · 2^x`, which must be exactly
representable -/
def encode64 (q : Nat) (x : Int) : Nat :=
  let l : Nat := bitLen q
  let e : Int := x + (l : Int) - 1
  if e < -1022 then
    q * 2 ^ (x + 1074).toNat
  else
    let mant : Nat := if l ≤ 53 then q * 2 ^ (53 - l) else q / 2 ^ (l - 53)
    (e + 1023).toNat * 2 ^ 52 + (mant - 2 ^ 52)

/-- magnitude `(m, x)` = `m · 2^x` of the finite `f64` with this bit pattern (without sign) -/
def decode64 (bits : Nat) : Nat × Int :=
  let e : Nat := bits / 2 ^ 52
  let f : Nat := bits % 2 ^ 52
  if e = 0 then (f, -1074) else (2 ^ 52 + f, (e : Int) - 1075)

def signed (neg : Bool) (bits : Nat) : Int := if neg then -(bits : Int) else (bits : Int)

def fltOfRounded (neg : Bool) : Rounded → Flt
  | .zero => .fin 0
  | .fin q x => .fin (signed neg (encode64 q x))
  | .inf => if neg then .negInf else .inf

/-- `n as f64` for an `i64`/`u64` number. -/
def i2d (n : Int) : Flt := fltOfRounded (n < 0) (roundTo fmt64 n.natAbs 0)

/-- `n as f32` for an `i64`/`u64` number. -/
def i2s (n : Int) : Flt := fltOfRounded (n < 0) (roundTo fmt32 n.natAbs 0)

/-- `x as f32` for the finite `f64` with key `k`. -/
def d2s (k : Int) : Flt :=
  let (m, x) := decode64 k.natAbs
  fltOfRounded (k < 0) (roundTo fmt32 m x)

/-- The integer a finite float (by key) is equal to, if it is an integer. -/
def fltInt? (k : Int) : Option Int :=
  let (m, x) := decode64 k.natAbs
  if 0 ≤ x then some (signed (k < 0) (m * 2 ^ x.toNat))
  else if m % 2 ^ (-x).toNat = 0 then some (signed (k < 0) (m / 2 ^ (-x).toNat))
  else none

/-! ## serde's integer visitors (transcribed) -/

/-- `TryFrom` between integer types: succeeds iff the number is in the destination's range and then
preserves it. -/
def tryFrom (t : IntTy) (n : Int) : Res Int := if fits t n then .ok n else .error .invalid

/-- `PrimitiveVisitor::visit_i64` of target `t` (impls.rs 376–448, 519–533). -/
def visitI64 (t : IntTy) (v : Int64) : Res Int :=
  match t with
  -- `num_self!(i64:visit_i64)`: `Ok(v)`
  | .i64 => .ok v.toInt
  -- `num_as_self!(i64:visit_i64)`: `Ok(v as i128)` (sign extension keeps the number)
  | .i128 => .ok v.toInt
  -- `int_to_int!(i64:visit_i64)`: `Self::Value::try_from(v as i64)`
  | .i8 | .i16 | .i32 | .isize => tryFrom t v.toInt
  -- `int_to_uint!(i64:visit_i64)`: `if 0 <= v { if let Ok(v) = Self::Value::try_from(v as u64) { return Ok(v) } } Err(..)`
  | .u8 | .u16 | .u32 | .u64 | .usize | .u128 =>
    if 0 ≤ v.toInt then tryFrom t v.toInt else .error .invalid

/-- `PrimitiveVisitor::visit_u64` of target `t`. -/
def visitU64 (t : IntTy) (v : UInt64) : Res Int :=
  match t with
  -- `num_self!(u64:visit_u64)`
  | .u64 => .ok v.toNat
  -- `num_as_self!(u64:visit_u64)`: `Ok(v as i128)` / `Ok(v as u128)` (zero extension)
  | .i128 | .u128 => .ok v.toNat
  -- `uint_to_self!(u64:visit_u64)`: `Self::Value::try_from(v as u64)`
  | .i8 | .i16 | .i32 | .i64 | .isize | .u8 | .u16 | .u32 | .usize => tryFrom t v.toNat

/-! ## The deserializer -/

/-- UTF-8: the string consists of exactly one `char` (`CharVisitor::visit_str`): the length
announced by the first byte is the whole length. Input is valid UTF-8. -/
def singleChar : Bytes → Bool
  | [] => false
  | b :: rest =>
    let n := if b.toNat < 0x80 then 1 else if b.toNat < 0xE0 then 2 else if b.toNat < 0xF0 then 3 else 4
    rest.length + 1 == n

/-- `visit_seq` of `Vec<T>`: elements in order, stopping at the first failure. -/
def mapE (f : Value → Res Dec) : List Value → Res (List Dec)
  | [] => .ok []
  | v :: vs =>
    match f v with
    | .ok x =>
      match mapE f vs with
      | .ok xs => .ok (x :: xs)
      | .error e => .error e
    | .error e => .error e

/-- What `deserialize_any` does with a value no visitor method of the target accepts: every kind is
an `invalid_type` error, except that `Enum` reaches `todo!()` first. -/
def reject : Value → Res Dec
  | .enum _ => .error .panic
  | _ => .error .invalid

mutual
/-- `T::deserialize(FieldValueDeserializer { value })`. -/
def decode : Target → Value → Res Dec
  /- integer targets -/
  | .int t, v =>
    match v with
    | .int64 i =>
      -- narrow: crate's `v.try_into()` then `visit_<t>` (`num_self!`); wide: `deserialize_any` → `visit_i64`
      match (if t.narrow then tryFrom t i.toInt else visitI64 t i) with
      | .ok n => .ok (.int t n)
      | .error e => .error e
    | .uint64 u =>
      match (if t.narrow then tryFrom t u.toNat else visitU64 t u) with
      | .ok n => .ok (.int t n)
      | .error e => .error e
    | v => reject v
  /- `deserialize_f64` → `deserialize_any`; f64's visitor: `visit_f64` identity, `visit_i64`/`visit_u64`
     `v as f64` -/
  | .f64, v =>
    match v with
    | .float64 k => .ok (.f64 (.fin k))
    | .int64 i => .ok (.f64 (i2d i.toInt))
    | .uint64 u => .ok (.f64 (i2d u.toNat))
    | v => reject v
  /- `deserialize_f32`: `Float64(v) ↦ visit_f32(v as f32)`, otherwise `deserialize_any`; f32's visitor
     takes `visit_i64`/`visit_u64` by `v as f32` -/
  | .f32, v =>
    match v with
    | .float64 k => .ok (.f32 (d2s k))
    | .int64 i => .ok (.f32 (i2s i.toInt))
    | .uint64 u => .ok (.f32 (i2s u.toNat))
    | v => reject v
  | .bool, v =>
    match v with
    | .boolean b => .ok (.bool b)
    | v => reject v
  | .string, v =>
    match v with
    | .string s => .ok (.str s)
    | v => reject v
  | .char, v =>
    match v with
    | .string s => if singleChar s then .ok (.char s) else .error .invalid
    | v => reject v
  /- `UnitVisitor` has only `visit_unit`; `deserialize_any` calls `visit_none` for `Null` -/
  | .unit, v => reject v
  /- `deserialize_option` -/
  | .option t, v =>
    match v with
    | .null => .ok .none
    | v =>
      match decode t v with
      | .ok x => .ok (.some x)
      | .error e => .error e
  /- `deserialize_seq` → `deserialize_any` → `visit_seq` -/
  | .vec t, v =>
    match v with
    | .list vs =>
      match mapE (decode t) vs with
      | .ok xs => .ok (.list xs)
      | .error e => .error e
    | v => reject v
  /- `deserialize_tuple(len)`: list of another length is an error; then `deserialize_any` -/
  | .tuple ts, v =>
    match v with
    | .list vs =>
      if ts.length ≠ vs.length then .error .invalid
      else
        match decodeTuple ts vs with
        | .ok xs => .ok (.tuple xs)
        | .error e => .error e
    | v => reject v
/-- the tuple visitor's `visit_seq`: one `next_element` per position -/
def decodeTuple : List Target → List Value → Res (List Dec)
  | [], _ => .ok []
  | _ :: _, [] => .error .invalid   -- `invalid_length`
  | t :: ts, v :: vs =>
    match decode t v with
    | .ok x =>
      match decodeTuple ts vs with
      | .ok xs => .ok (x :: xs)
      | .error e => .error e
    | .error e => .error e
end

/-! ## Rows -/

abbrev Name := Bytes

/-- A row / edge-parameter map: association list, keys pairwise distinct (`BTreeMap`). -/
abbrev Row := List (Name × Value)

/-- insertion into a list sorted by key (byte order = `Arc<str>`'s `Ord`) -/
def insertSorted (kv : Name × Value) : Row → Row
  | [] => [kv]
  | kv' :: rest =>
    if Value.cmpBytes kv.1 kv'.1 == .gt then kv' :: insertSorted kv rest else kv :: kv' :: rest

/-- `BTreeMap::into_iter` order -/
def sortRow (r : Row) : Row := r.foldr insertSorted []

def lookupTarget (fields : List (Name × Target)) (k : Name) : Option Target :=
  (fields.find? (fun f => f.1 == k)).map (·.2)

/-- The derived `visit_map` loop: entries in key order; a key naming a field decodes the value with
the field's type (first failure ends everything), any other key is skipped through
`deserialize_ignored_any` (which never fails and never looks at the value). -/
def decodePresent (fields : List (Name × Target)) : Row → Res (List (Name × Dec))
  | [] => .ok []
  | (k, v) :: rest =>
    match lookupTarget fields k with
    | some τ =>
      match decode τ v with
      | .ok x =>
        match decodePresent fields rest with
        | .ok out => .ok ((k, x) :: out)
        | .error e => .error e
      | .error e => .error e
    | none => decodePresent fields rest

def lookupDec (got : List (Name × Dec)) (k : Name) : Option Dec :=
  (got.find? (fun f => f.1 == k)).map (·.2)

/-- After the loop, in declaration order: a field that was seen takes its value; a field that was
not seen goes through `missing_field`: `None` for `Option<_>`, an error for every other type. -/
def assemble (got : List (Name × Dec)) : List (Name × Target) → Res (List (Name × Dec))
  | [] => .ok []
  | (k, τ) :: rest =>
    let here : Res Dec :=
      match lookupDec got k with
      | some x => .ok x
      | none =>
        match τ with
        | .option _ => .ok .none
        | _ => .error .invalid
    match here with
    | .ok x =>
      match assemble got rest with
      | .ok out => .ok ((k, x) :: out)
      | .error e => .error e
    | .error e => .error e

/-- `row.try_into_struct::<S>()` for a struct with the given fields (distinct names). -/
def decodeRow (fields : List (Name × Target)) (row : Row) : Res (List (Name × Dec)) :=
  match decodePresent fields (sortRow row) with
  | .ok got => assemble got fields
  | .error e => .error e

end Decode
end TF
