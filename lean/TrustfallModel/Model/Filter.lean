/-
Model of the `@filter` operators of `trustfall_core/src/interpreter/filtering.rs`, function by
function and branch by branch:

* `equals` (l. 16–47), the comparison-operator macro `make_comparison_op_func!` (l. 49–64) and the
  two slow-path macros `make_greater_than_func_slow_path!` / `make_less_than_func_slow_path!`
  (l. 66–130) with their four instantiations each (l. 132–139);
* `has_substring`, `has_prefix`, `has_suffix`, `one_of`, `contains` (l. 141–193);
* `regex_matches_slow_path`, `regex_matches_optimized` (l. 201–224), `is_null` (l. 241);
* the `not!` macro (l. 343) and the two dispatch tables `apply_filter_with_static_argument_value`
  (argument is a query variable; l. 403–472, including the regex precompilation with its two
  `expect`s) and `apply_filter_with_tagged_argument_value` (argument is a tag; l. 474–536).

Every `unreachable!` / `expect` is the explicit outcome `Outcome.panic`, never a default value.

Representation (as in `Model/Value.lean`): integers are real `Int64`/`UInt64`; a successful
`i64::try_from(u)` / `u64::try_from(i)` keeps the numeric value, it succeeds iff `u < 2^63` resp.
`0 ≤ i`; `i64`/`u64` comparisons are numeric comparisons of `toInt` / `toNat`.  Strings are their
UTF-8 bytes; `str` comparison is byte-lexicographic (`Value.cmpBytes`), `str::starts_with /
ends_with / contains` with a `&str` needle are the byte-level prefix / suffix / infix tests (valid
UTF-8 is self-synchronising).  `float64 k` carries the order-preserving integer key of a finite f64
(±0 identified), so `f64` `<` / `==` on finite floats is `<` / `=` on keys.  The regex engine is a
parameter `rx : Bytes → Option (Bytes → Bool)` (`none`: the pattern does not compile).

Core Lean only (compiled into the native driver).
-/
import TrustfallModel.Model.Value

namespace TF

/-- Result of running a piece of the implementation: a value, or a Rust panic
(`unreachable!`, `expect`, `unwrap`, `assert!`, index out of bounds …). -/
inductive Outcome (α : Type) where
  | ok (a : α)
  | panic
  deriving Repr, DecidableEq

namespace Outcome

instance {α : Type} : Inhabited (Outcome α) := ⟨panic⟩

def map {α β : Type} (f : α → β) : Outcome α → Outcome β
  | ok a => ok (f a)
  | panic => panic

def bind {α β : Type} : Outcome α → (α → Outcome β) → Outcome β
  | ok a, f => f a
  | panic, _ => panic

instance : Monad Outcome where
  pure := ok
  bind := bind

def isPanic {α : Type} : Outcome α → Bool
  | ok _ => false
  | panic => true

end Outcome

namespace Filter
open Value

/-! ### `equals` -/

mutual
/-- `filtering::equals`.
Row 1: equal discriminants, `(List, List)`: `l.len() == r.len() && zip.all(equals)`.
Rows 2, 3: different discriminants, the two mixed-integer arms (conversion attempts in the order
written).  Row 4: equal discriminants other than lists ⇒ `left == right` (`impl PartialEq`,
`Value.beq`); different discriminants other than mixed integers ⇒ `false`. -/
def equals : Value → Value → Bool
  | .list l, .list r => l.length == r.length && equalsZipAll l r
  | .uint64 l, .int64 r =>
    if l.toNat < 2 ^ 63 then
      -- `i64::try_from(l)` succeeded: `l == r` on i64
      ((l.toNat : Int) == r.toInt)
    else if 0 ≤ r.toInt then
      -- `u64::try_from(r)` succeeded: `l == r` on u64
      (l.toNat == r.toInt.toNat)
    else
      false
  | .int64 l, .uint64 r =>
    if 0 ≤ l.toInt then
      -- `u64::try_from(l)` succeeded
      (l.toInt.toNat == r.toNat)
    else if r.toNat < 2 ^ 63 then
      -- `i64::try_from(r)` succeeded
      (l.toInt == (r.toNat : Int))
    else
      false
  | a, b => if a.disc == b.disc then Value.beq a b else false
/-- `l.iter().zip(r.iter()).all(|(x, y)| equals(x, y))`: stops at the shorter list. -/
def equalsZipAll : List Value → List Value → Bool
  | x :: xs, y :: ys => equals x y && equalsZipAll xs ys
  | _, _ => true
end

/-! ### ordering comparisons -/

/-- The operator token `$op` the comparison macros are instantiated with. -/
inductive CmpOp where
  | gt | ge | lt | le
  deriving Repr, DecidableEq

namespace CmpOp
/-- `l $op r` on `i64` (and on finite `f64` through the key). -/
def onInt : CmpOp → Int → Int → Bool
  | gt, a, b => decide (a > b)
  | ge, a, b => decide (a ≥ b)
  | lt, a, b => decide (a < b)
  | le, a, b => decide (a ≤ b)
/-- `l $op r` on `u64`. -/
def onNat : CmpOp → Nat → Nat → Bool
  | gt, a, b => decide (a > b)
  | ge, a, b => decide (a ≥ b)
  | lt, a, b => decide (a < b)
  | le, a, b => decide (a ≤ b)
/-- `l $op r` on `str`, through `Ord::cmp` (byte-lexicographic). -/
def onOrdering : CmpOp → Ordering → Bool
  | gt, o => o == .gt
  | ge, o => o != .lt
  | lt, o => o == .lt
  | le, o => o != .gt
end CmpOp

/-- `make_greater_than_func_slow_path!($func, $op)`. -/
def slowPathGreater (op : CmpOp) : Value → Value → Outcome Bool
  | .int64 l, .uint64 r =>
    if 0 ≤ l.toInt then .ok (op.onNat l.toInt.toNat r.toNat)        -- `u64::try_from(l)` ok
    else if r.toNat < 2 ^ 63 then .ok (op.onInt l.toInt r.toNat)     -- `i64::try_from(r)` ok
    else if l.toInt < 0 then .ok false
    else .panic                                                       -- `unreachable!` l. 79
  | .uint64 l, .int64 r =>
    if l.toNat < 2 ^ 63 then .ok (op.onInt l.toNat r.toInt)          -- `i64::try_from(l)` ok
    else if 0 ≤ r.toInt then .ok (op.onNat l.toNat r.toInt.toNat)    -- `u64::try_from(r)` ok
    else if r.toInt < 0 then .ok true
    else .panic                                                       -- `unreachable!` l. 90
  | _, _ => .panic                                                    -- `unreachable!` l. 93

/-- `make_less_than_func_slow_path!($func, $op)`. -/
def slowPathLess (op : CmpOp) : Value → Value → Outcome Bool
  | .int64 l, .uint64 r =>
    if 0 ≤ l.toInt then .ok (op.onNat l.toInt.toNat r.toNat)
    else if r.toNat < 2 ^ 63 then .ok (op.onInt l.toInt r.toNat)
    else if l.toInt < 0 then .ok true
    else .panic                                                       -- `unreachable!` l. 112
  | .uint64 l, .int64 r =>
    if l.toNat < 2 ^ 63 then .ok (op.onInt l.toNat r.toInt)
    else if 0 ≤ r.toInt then .ok (op.onNat l.toNat r.toInt.toNat)
    else if r.toInt < 0 then .ok false
    else .panic                                                       -- `unreachable!` l. 123
  | _, _ => .panic                                                    -- `unreachable!` l. 126

/-- `make_comparison_op_func!($func, $op, $slow_path_handler)`. -/
def comparisonOp (op : CmpOp) (slow : Value → Value → Outcome Bool) :
    Value → Value → Outcome Bool
  | .null, _ => .ok false
  | _, .null => .ok false
  | .string l, .string r => .ok (op.onOrdering (cmpBytes l r))
  | .int64 l, .int64 r => .ok (op.onInt l.toInt r.toInt)
  | .uint64 l, .uint64 r => .ok (op.onNat l.toNat r.toNat)
  | .float64 l, .float64 r => .ok (op.onInt l r)
  | l, r => slow l r

def greaterThan : Value → Value → Outcome Bool := comparisonOp .gt (slowPathGreater .gt)
def greaterThanOrEqual : Value → Value → Outcome Bool := comparisonOp .ge (slowPathGreater .ge)
def lessThan : Value → Value → Outcome Bool := comparisonOp .lt (slowPathLess .lt)
def lessThanOrEqual : Value → Value → Outcome Bool := comparisonOp .le (slowPathLess .le)

/-! ### string operators -/

/-- `haystack.contains(needle)` for `&str` needle, on bytes: some suffix of the haystack starts
with the needle. -/
def isInfixOf (needle : Bytes) : Bytes → Bool
  | [] => needle.isPrefixOf []
  | x :: xs => needle.isPrefixOf (x :: xs) || isInfixOf needle xs

/-- The shape shared by `has_substring` / `has_prefix` / `has_suffix` (and the regex slow path). -/
def stringOp (f : Bytes → Bytes → Bool) : Value → Value → Outcome Bool
  | .string l, .string r => .ok (f l r)
  | .null, .string _ => .ok false
  | .string _, .null => .ok false
  | .null, .null => .ok false
  | _, _ => .panic                                                    -- `unreachable!`

/-- `has_substring`: `l.contains(r)`. -/
def hasSubstring : Value → Value → Outcome Bool := stringOp fun l r => isInfixOf r l
/-- `has_prefix`: `l.starts_with(r)`. -/
def hasPrefix : Value → Value → Outcome Bool := stringOp fun l r => r.isPrefixOf l
/-- `has_suffix`: `l.ends_with(r)`. -/
def hasSuffix : Value → Value → Outcome Bool := stringOp fun l r => r.isSuffixOf l

/-! ### collection operators -/

/-- The `for value in v.iter() { if left == value { return true; } } false` loop of `one_of`;
`==` is `impl PartialEq for FieldValue` (`Value.beq`), not `equals`. -/
def oneOfLoop (left : Value) : List Value → Bool
  | [] => false
  | value :: rest => if left == value then true else oneOfLoop left rest

/-- `one_of`. -/
def oneOf (left : Value) : Value → Outcome Bool
  | .null => .ok false
  | .list v => .ok (oneOfLoop left v)
  | _ => .panic                                                       -- `unreachable!` l. 186

/-- `contains(left, right) = one_of(right, left)`. -/
def contains (left right : Value) : Outcome Bool := oneOf right left

/-! ### regex -/

/-- The regex engine as a parameter: `rx pattern = none` when `Regex::new(pattern)` is an error,
otherwise `some m` with `m haystack = compiled.is_match(haystack)`. -/
abbrev RegexEngine := Bytes → Option (Bytes → Bool)

/-- `regex_matches_slow_path`: the pattern is compiled for every check; an invalid pattern means
"does not match". -/
def regexMatchesSlowPath (rx : RegexEngine) : Value → Value → Outcome Bool :=
  stringOp fun l r =>
    match rx r with
    | some m => m l       -- `Regex::new(r).map(|pattern| pattern.is_match(l))`
    | none => false       -- `.unwrap_or(false)`

/-- `regex_matches_optimized(left, regex)` with `regex` already compiled. -/
def regexMatchesOptimized (m : Bytes → Bool) : Value → Outcome Bool
  | .string l => .ok (m l)
  | .null => .ok false
  | _ => .panic                                                       -- `unreachable!` l. 222

/-- The precompilation in `apply_filter_with_static_argument_value` (l. 458–460, 464–466):
`Regex::new(right_value.as_str().expect("regex argument was not a string"))
   .expect("regex argument was not a valid regex")`. -/
def compileStaticRegex (rx : RegexEngine) : Value → Outcome (Bytes → Bool)
  | .string r =>
    match rx r with
    | some m => .ok m
    | none => .panic                                                  -- second `expect` (F-4)
  | _ => .panic                                                       -- first `expect`

/-! ### unary operators -/

/-- `is_null`. -/
def isNull : Value → Bool
  | .null => true
  | _ => false

/-! ### the `not!` macro and the dispatch tables -/

/-- `not!(f) = |l, r| !f(l, r)`: a panic of `f` propagates. -/
def notOp {ρ : Type} (f : Value → ρ → Outcome Bool) : Value → ρ → Outcome Bool :=
  fun l r => (f l r).map (!·)

/-- `equals` as an operator of the dispatch tables (it cannot panic on finite values). -/
def equalsOp (l r : Value) : Outcome Bool := .ok (equals l r)

/-- The binary variants of `ir::Operation`. -/
inductive BinOp where
  | equals | notEquals
  | lessThan | lessThanOrEqual | greaterThan | greaterThanOrEqual
  | contains | notContains
  | oneOf | notOneOf
  | hasPrefix | notHasPrefix
  | hasSuffix | notHasSuffix
  | hasSubstring | notHasSubstring
  | regexMatches | notRegexMatches
  deriving Repr, DecidableEq

/-- The unary variants of `ir::Operation`. -/
inductive UnOp where
  | isNull | isNotNull
  deriving Repr, DecidableEq

/-- `attempt_apply_unary_filter`: `IsNull ↦ is_null`, `IsNotNull ↦ |v| !is_null(v)`. -/
def applyUnary : UnOp → Value → Bool
  | .isNull, v => isNull v
  | .isNotNull, v => !isNull v

/-- The filter function chosen by `apply_filter_with_static_argument_value` (right operand: the
value of a query variable), applied to one `(left, right)` pair.  For the two regex operations the
pattern is compiled first (and only then is the left value looked at). -/
def applyStatic (rx : RegexEngine) : BinOp → Value → Value → Outcome Bool
  | .equals, l, r => equalsOp l r
  | .notEquals, l, r => notOp equalsOp l r
  | .lessThan, l, r => lessThan l r
  | .lessThanOrEqual, l, r => lessThanOrEqual l r
  | .greaterThan, l, r => greaterThan l r
  | .greaterThanOrEqual, l, r => greaterThanOrEqual l r
  | .contains, l, r => contains l r
  | .notContains, l, r => notOp contains l r
  | .oneOf, l, r => oneOf l r
  | .notOneOf, l, r => notOp oneOf l r
  | .hasPrefix, l, r => hasPrefix l r
  | .notHasPrefix, l, r => notOp hasPrefix l r
  | .hasSuffix, l, r => hasSuffix l r
  | .notHasSuffix, l, r => notOp hasSuffix l r
  | .hasSubstring, l, r => hasSubstring l r
  | .notHasSubstring, l, r => notOp hasSubstring l r
  | .regexMatches, l, r =>
    (compileStaticRegex rx r).bind fun pattern => regexMatchesOptimized pattern l
  | .notRegexMatches, l, r =>
    (compileStaticRegex rx r).bind fun pattern =>
      notOp (fun l (p : Bytes → Bool) => regexMatchesOptimized p l) l pattern

/-- The filter function chosen by `apply_filter_with_tagged_argument_value` (right operand: a tag
value that exists), applied to one `(left, right)` pair. -/
def applyTagged (rx : RegexEngine) : BinOp → Value → Value → Outcome Bool
  | .equals, l, r => equalsOp l r
  | .notEquals, l, r => notOp equalsOp l r
  | .lessThan, l, r => lessThan l r
  | .lessThanOrEqual, l, r => lessThanOrEqual l r
  | .greaterThan, l, r => greaterThan l r
  | .greaterThanOrEqual, l, r => greaterThanOrEqual l r
  | .contains, l, r => contains l r
  | .notContains, l, r => notOp contains l r
  | .oneOf, l, r => oneOf l r
  | .notOneOf, l, r => notOp oneOf l r
  | .hasPrefix, l, r => hasPrefix l r
  | .notHasPrefix, l, r => notOp hasPrefix l r
  | .hasSuffix, l, r => hasSuffix l r
  | .notHasSuffix, l, r => notOp hasSuffix l r
  | .hasSubstring, l, r => hasSubstring l r
  | .notHasSubstring, l, r => notOp hasSubstring l r
  | .regexMatches, l, r => regexMatchesSlowPath rx l r
  | .notRegexMatches, l, r => notOp (regexMatchesSlowPath rx) l r

/-- Where the right operand of a binary filter comes from. -/
inductive ArgPath where
  | static   -- query variable
  | tagged   -- tag
  deriving Repr, DecidableEq

def applyBinary (rx : RegexEngine) : ArgPath → BinOp → Value → Value → Outcome Bool
  | .static => applyStatic rx
  | .tagged => applyTagged rx

/-! ### a whole stream of contexts through ONE filter stage

`apply_filter_with_tagged_argument_value` / `apply_filter_with_static_argument_value` are called
once per filter and return an iterator adapter over *all* the contexts of the query; the closure
they build (`apply_filter_op_with_tagged_argument` / `…_static_argument`, l. 349–380) captures
only the operator function (and, on the variable path, the right value / the compiled regex).
The model of the stage is therefore the per-context decision mapped over the stream: nothing is
carried from one context to the next. -/

/-- One context of a stream as the filter stage sees it: the left value popped from
`ctx.values`, and the right operand — `some r` for `TaggedValue::Some(r)` (or the value of the
query variable), `none` for `TaggedValue::NonexistentOptional`. -/
abbrev StreamPair := Value × Option Value

/-- What the stage decides for one context (`true`: the context is passed on).
`let TaggedValue::Some(right_value) = tagged_value else { return Some(ctx); }` (l. 375–377): a
tag from an `@optional` scope that does not exist lets the context through without calling the
operator; otherwise `apply_filter_op` (the contexts of the stream have an active vertex, so
`within_nonexistent_optional()` is false) returns `filter_op(left, right)` — the same function
of one `(left, right)` pair that `applyBinary` models. -/
def pairDecision (rx : RegexEngine) (path : ArgPath) (op : BinOp) : StreamPair → Outcome Bool
  | (l, some r) => applyBinary rx path op l r
  | (_, none) => .ok true

/-- The decisions of one filter stage over a stream of contexts, in stream order. -/
def filterStream (rx : RegexEngine) (path : ArgPath) (op : BinOp) (ps : List StreamPair) :
    List (Outcome Bool) :=
  ps.map (pairDecision rx path op)

/-- Draining the stage's output iterator: a panic while deciding any context aborts the call
(what was produced before is lost with it); otherwise one bit per context. -/
def collectDecisions : List (Outcome Bool) → Outcome (List Bool)
  | [] => .ok []
  | .panic :: _ => .panic
  | .ok b :: rest => (collectDecisions rest).map (b :: ·)

/-- `verif_hooks::apply_tagged_stream`: all pairs through one
`apply_filter_with_tagged_argument_value` call, drained. -/
def taggedStreamAnswer (rx : RegexEngine) (op : BinOp) (ps : List StreamPair) :
    Outcome (List Bool) :=
  collectDecisions (filterStream rx .tagged op ps)

/-- `verif_hooks::apply_static_stream`: all left values against one right value through one
`apply_filter_with_static_argument_value` call, drained — as written: for the two regex
operations the pattern is compiled ONCE, when the stage is built and before the first context is
pulled (l. 458–460, 464–466), so an invalid pattern panics even on an empty stream; the other
operations only move `right_value` into the closure. -/
def staticStreamAnswer (rx : RegexEngine) (op : BinOp) (r : Value) (lefts : List Value) :
    Outcome (List Bool) :=
  match op with
  | .regexMatches =>
    (compileStaticRegex rx r).bind fun pattern =>
      collectDecisions (lefts.map fun l => regexMatchesOptimized pattern l)
  | .notRegexMatches =>
    (compileStaticRegex rx r).bind fun pattern =>
      collectDecisions (lefts.map fun l =>
        notOp (fun l (p : Bytes → Bool) => regexMatchesOptimized p l) l pattern)
  | op => collectDecisions (lefts.map fun l => applyStatic rx op l r)

end Filter
end TF
