/-
Model of the success path of the query frontend (`trustfall_core/src/frontend/{mod,tags,filters,
outputs,util,validation}.rs`) for the query-tree language of ENGINE_PROTOCOL.md:

  `toIR : SchemaView → Spec.Query → Except FrontendErr Engine.IRQuery`

The result is *exactly* the `IRQuery` the real frontend builds for the GraphQL text of the tree
(Vid/Eid numbering, vertex types and coercions, filters in the real order, completed edge
parameters, `Recursive{depth, coerce_to}`, folds with `imported_tags` in `Vec` order (a tag used
several times inside one fold is imported once: first occurrences, in their order),
fold-specific outputs, post-filters, component outputs, query-level variables).  This is checked
query by query against the real frontend by the harness (`(compile <schema> <tree>)`).

How the Rust control flow is laid out here (one `make_query_component` call):

* phase A = `fill_in_vertex_data`: the depth-first walk in selection order.  It allocates a Vid and
  an Eid per edge (`alloc`), registers tags (`registerTag`), collects outputs, and builds every
  folded sub-component completely (`make_fold` → recursive `make_query_component`) before it looks at
  later siblings.  Here: the mutually structurally recursive `fillNode` / `fillFields`, which return
  the pieces of the component as an `Acc` (all lists are in DFS order = Vid/Eid order).
* phase B = the `make_vertex` loop in Vid order: filters are only resolved here, i.e. after *all*
  tags of the component's own vertices are registered (`makeVertices` → `resolveFilter` →
  `refTag`).
* phase C (edge parameters, `get_recurse_implicit_coercion`) is a pure function of the schema and the
  source vertex' type; it is computed when the edge is met in phase A (the frontend fails iff any of
  its phases records an error, so on the success path the order does not matter).
* phase D = outputs (`sortOutputs`).

State threaded through everything: `St` = the two id counters, the tag table, the used-tag set.
The `TagHandler::component_imported_tags` stack is modelled as a *writer*: `refTag` emits an
`ImportEvent (k, r)` where `k = entry.path.len()`; the fold whose parent path has length `k`
(i.e. the fold directly below the defining component on the using path — stack slot `k - 1`)
keeps those events, in order, skipping a field that is already in the slot (`pushImport`), as its
`imported_tags`, and passes the others up.  This is the same list the stack slot receives (pushes
happen in the same order).

Errors: the real frontend accumulates errors and fails at the end; the model fails at the first
one.  Only "is it an error" is mirrored, not which variant (queries are compared only when the real
frontend accepts them).  Not modelled: aliases and implicit output/tag names (the tree language
always has explicit names), `@output`/`@filter`/`@tag` on edges, the 30-level list depth panic.
-/
import TrustfallModel.Model.Spec

namespace TF.Engine.QTy

/-- `Type::nullable` (top level). -/
def nullable (t : QTy) : Bool := t.nulls.headD true

/-- `Type::is_list`. -/
def isList (t : QTy) : Bool := 2 ≤ t.nulls.length

/-- `Type::as_list`: the element type of a list type. -/
def asList (t : QTy) : Option QTy :=
  match t.nulls with
  | _ :: b :: r => some ⟨t.base, b :: r⟩
  | _ => none

/-- `Type::new_list_type(inner, nullable)`. -/
def listOf (t : QTy) (n : Bool) : QTy := ⟨t.base, n :: t.nulls⟩

/-- `Type::with_nullability`. -/
def withNullability (t : QTy) (n : Bool) : QTy :=
  match t.nulls with
  | _ :: r => ⟨t.base, n :: r⟩
  | [] => t

/-- `Type::equal_ignoring_nullability`: same base, same list depth. -/
def eqIgnoringNullability (a b : QTy) : Bool :=
  a.base == b.base && a.nulls.length == b.nulls.length

/-- `Type::is_orderable` (looks at the base name only). -/
def isOrderable (t : QTy) : Bool := t.base == "Int" || t.base == "Float" || t.base == "String"

/-- `Type::intersect`: equal shape, nullability = AND per level. -/
def intersect (a b : QTy) : Option QTy :=
  if a.eqIgnoringNullability b then some ⟨a.base, List.zipWith (· && ·) a.nulls b.nulls⟩ else none

def levelsOk : List Bool → List Bool → Bool
  | [], [] => true
  | p :: ps, s :: ss => (p || !s) && levelsOk ps ss
  | _, _ => false

/-- `parent.is_scalar_only_subtype(maybe_subtype)`. -/
def isScalarOnlySubtype (parent sub : QTy) : Bool :=
  parent.base == sub.base && levelsOk parent.nulls sub.nulls

mutual
/-- `Type::is_valid_value` (`none`: the `unimplemented!` for enum values). -/
def validValue : List Bool → Name → Value → Option Bool
  | [], _, _ => some false
  | nullable :: rest, base, v =>
    match v with
    | .null => some nullable
    | .enum _ => none
    | .list items => if rest.isEmpty then some false else validValues rest base items
    | .int64 _ | .uint64 _ => some (rest.isEmpty && base == "Int")
    | .float64 _ => some (rest.isEmpty && base == "Float")
    | .string _ => some (rest.isEmpty && base == "String")
    | .boolean _ => some (rest.isEmpty && base == "Boolean")
def validValues : List Bool → Name → List Value → Option Bool
  | _, _, [] => some true
  | flags, base, x :: xs =>
    match validValue flags base x with
    | some true => validValues flags base xs
    | other => other
end

def isValidValue (t : QTy) (v : Value) : Option Bool := validValue t.nulls t.base v

end TF.Engine.QTy

namespace TF.Frontend
open TF TF.Engine TF.Spec

/-! ### the schema as the frontend sees it (the `(schema …)` s-expression) -/

structure ParamDecl where
  name : Name
  ty : QTy
  dflt : Option Value
  deriving Repr, Inhabited

structure EdgeInfo where
  name : Name
  target : Name
  ty : QTy
  params : List ParamDecl
  deriving Repr, Inhabited

structure TypeInfo where
  name : Name
  isIface : Bool
  /-- all STRICT supertypes, transitively closed (the `sub` section without the type itself) -/
  supers : List Name
  /-- own + inherited properties, without `__typename` -/
  props : List (Name × QTy)
  /-- own + inherited edges -/
  edges : List EdgeInfo
  deriving Repr, Inhabited

structure SchemaView where
  types : List TypeInfo
  roots : List EdgeInfo
  deriving Repr, Inhabited

namespace SchemaView

def type? (S : SchemaView) (n : Name) : Option TypeInfo := S.types.find? (·.name == n)

/-- `schema.vertex_types.contains_key`. -/
def isVertexType (S : SchemaView) (n : Name) : Bool := (S.type? n).isSome

def typenameTy : QTy := ⟨"String", [false]⟩

/-- Type of property `p` on vertex type `t` (`get_field_name_and_type_from_schema` for a property;
`__typename` is `String!` everywhere). -/
def propTy? (S : SchemaView) (t p : Name) : Option QTy :=
  if p == "__typename" then some typenameTy
  else
    match S.type? t with
    | some ti => (ti.props.find? (·.1 == p)).map (·.2)
    | none => none

/-- `get_edge_definition_from_schema`. -/
def edge? (S : SchemaView) (t e : Name) : Option EdgeInfo :=
  match S.type? t with
  | some ti => ti.edges.find? (·.name == e)
  | none => none

def root? (S : SchemaView) (e : Name) : Option EdgeInfo := S.roots.find? (·.name == e)

def supersOf (S : SchemaView) (t : Name) : List Name :=
  match S.type? t with
  | some ti => ti.supers
  | none => []

/-- `Schema::is_named_type_subtype(parent, maybe_subtype)` on vertex types. -/
def isSubtype (S : SchemaView) (parent sub : Name) : Bool :=
  S.isVertexType parent && S.isVertexType sub && (parent == sub || (S.supersOf sub).contains parent)

/-- `schema.field_origins[(t, e)]`: the topmost types among `t` and its supertypes that define `e`
(one element = `SingleAncestor`; valid schemas never have more). -/
def edgeOrigins (S : SchemaView) (t e : Name) : List Name :=
  (t :: S.supersOf t).filter fun x =>
    (S.edge? x e).isSome && (S.supersOf x).all fun y => (S.edge? y e).isNone

end SchemaView

/-! ### errors (only the fact of an error is compared with the real frontend) -/

inductive FrontendErr where
  | nonExistentPath
  | nonExistentType
  | cannotCoerceNonInterfaceType
  | cannotCoerceToUnrelatedType
  | missingRequiredEdgeParameter
  | unexpectedEdgeParameter
  | invalidEdgeParameterType
  | duplicatedEdgeParameter
  | enumParameterUnimplemented
  | recursingNonRecursableEdge
  | recursionToSubtype
  | edgeRecursionNeedingMultipleCoercions
  | ambiguousOriginEdgeRecursion
  | recurseDepthZero
  | undefinedTagInFilter
  | tagUsedOutsideItsFoldedSubquery
  | tagUsedBeforeDefinition
  | multipleTagsWithSameName
  | unusedTags
  | multipleOutputsWithSameName
  | filterTypeError
  | filterArgumentShape
  | incompatibleVariableTypeRequirements
  deriving Repr, DecidableEq, Inhabited

def FrontendErr.name : FrontendErr → String
  | .nonExistentPath => "NonExistentPath"
  | .nonExistentType => "NonExistentType"
  | .cannotCoerceNonInterfaceType => "CannotCoerceNonInterfaceType"
  | .cannotCoerceToUnrelatedType => "CannotCoerceToUnrelatedType"
  | .missingRequiredEdgeParameter => "MissingRequiredEdgeParameter"
  | .unexpectedEdgeParameter => "UnexpectedEdgeParameter"
  | .invalidEdgeParameterType => "InvalidEdgeParameterType"
  | .duplicatedEdgeParameter => "DuplicatedEdgeParameter"
  | .enumParameterUnimplemented => "EnumParameterUnimplemented"
  | .recursingNonRecursableEdge => "RecursingNonRecursableEdge"
  | .recursionToSubtype => "RecursionToSubtype"
  | .edgeRecursionNeedingMultipleCoercions => "EdgeRecursionNeedingMultipleCoercions"
  | .ambiguousOriginEdgeRecursion => "AmbiguousOriginEdgeRecursion"
  | .recurseDepthZero => "RecurseDepthZero"
  | .undefinedTagInFilter => "UndefinedTagInFilter"
  | .tagUsedOutsideItsFoldedSubquery => "TagUsedOutsideItsFoldedSubquery"
  | .tagUsedBeforeDefinition => "TagUsedBeforeDefinition"
  | .multipleTagsWithSameName => "MultipleTagsWithSameName"
  | .unusedTags => "UnusedTags"
  | .multipleOutputsWithSameName => "MultipleOutputsWithSameName"
  | .filterTypeError => "FilterTypeError"
  | .filterArgumentShape => "FilterArgumentShape"
  | .incompatibleVariableTypeRequirements => "IncompatibleVariableTypeRequirements"

abbrev M := Except FrontendErr

/-- `if c then Ok(()) else Err(e)`. -/
def check (c : Bool) (e : FrontendErr) : M Unit := if c then .ok () else .error e

/-- `opt.ok_or(e)`. -/
def orErr {α : Type} (o : Option α) (e : FrontendErr) : M α :=
  match o with
  | some a => .ok a
  | none => .error e

/-! ### state -/

/-- `tags::TagEntry`: the tagged field and the component path of its definition (root component's
root Vid first, then the root Vids of the enclosing folds). -/
structure TagEntry where
  name : Name
  field : FieldRef
  path : List Vid
  deriving Repr, Inhabited

/-- The mutable state of one `make_ir_for_query` run: `vid_maker`, `eid_maker`, `TagHandler::tags`
(in registration order; the Rust map is keyed by name and names are unique), `used_tags`. -/
structure St where
  nextVid : Vid
  nextEid : Eid
  tags : List TagEntry
  used : List Name
  deriving Repr, Inhabited

/-- `vid_maker.next()` and `eid_maker.next()` (always taken together, for one edge). -/
def St.alloc (st : St) : Vid × Eid × St :=
  (st.nextVid, st.nextEid, { st with nextVid := st.nextVid + 1, nextEid := st.nextEid + 1 })

/-- One push onto a slot of `TagHandler::component_imported_tags`: `(entry.path.len(), field)`.
The slot is that of the fold whose *parent* component path has that length. -/
abbrev ImportEvent := Nat × FieldRef

/-- `FieldRef::defined_at`. -/
def definedAt : FieldRef → Vid
  | .ctx v _ _ => v
  | .fcount _ root => root

/-- `FieldRef::field_type` (`FoldSpecificFieldKind::Count` has type `Int!`). -/
def countTy : QTy := ⟨"Int", [false]⟩

def fieldRefTy : FieldRef → QTy
  | .ctx _ _ t => t
  | .fcount _ _ => countTy

/-- `ComponentPath::is_parent`: `p` is a prefix of `q`. -/
def isPrefix : List Vid → List Vid → Bool
  | [], _ => true
  | _ :: _, [] => false
  | a :: p, b :: q => a == b && isPrefix p q

/-- `TagHandler::register_tag`. -/
def registerTag (path : List Vid) (name : Name) (field : FieldRef) (st : St) : M St :=
  if st.tags.any (·.name == name) then .error .multipleTagsWithSameName
  else .ok { st with tags := st.tags ++ [⟨name, field, path⟩] }

def registerTags (path : List Vid) : List (Name × FieldRef) → St → M St
  | [], st => .ok st
  | (n, f) :: rest, st => do
    let st1 ← registerTag path n f st
    registerTags path rest st1

/-- `TagHandler::reference_tag(name, use_path, use_vid)`: the tagged field, the import it causes
(none when the tag is defined in the using component itself), the state with the tag marked used. -/
def refTag (name : Name) (usePath : List Vid) (useVid : Vid) (st : St) :
    M (FieldRef × List ImportEvent × St) :=
  match st.tags.find? (·.name == name) with
  | none => .error .undefinedTagInFilter
  | some e =>
    if isPrefix e.path usePath then
      if definedAt e.field > useVid then .error .tagUsedBeforeDefinition
      else
        .ok (e.field,
          if e.path.length == usePath.length then [] else [(e.path.length, e.field)],
          { st with used := name :: st.used })
    else .error .tagUsedOutsideItsFoldedSubquery

/-! ### filters (`filters.rs`) -/

/-- `infer_variable_type`. -/
def inferVariableType (propTy : QTy) : Filter.BinOp → M QTy
  | .equals | .notEquals => .ok propTy
  | .lessThan | .lessThanOrEqual | .greaterThan | .greaterThanOrEqual =>
    .ok (propTy.withNullability false)
  | .contains | .notContains => orErr propTy.asList .filterTypeError
  | .oneOf | .notOneOf => .ok (propTy.listOf false)
  | .hasPrefix | .notHasPrefix | .hasSuffix | .notHasSuffix | .hasSubstring | .notHasSubstring
  | .regexMatches | .notRegexMatches => .ok ⟨"String", [false]⟩

def isStringTy (t : QTy) : Bool := !t.isList && t.base == "String"

/-- `operand_types_valid` for a binary operator. -/
def binTypesValid (left right : QTy) : Filter.BinOp → Bool
  | .equals | .notEquals => left.eqIgnoringNullability right
  | .lessThan | .lessThanOrEqual | .greaterThan | .greaterThanOrEqual =>
    left.isOrderable && right.isOrderable && left.eqIgnoringNullability right
  | .contains | .notContains =>
    match left.asList with
    | some inner => inner.eqIgnoringNullability right
    | none => false
  | .oneOf | .notOneOf =>
    match right.asList with
    | some inner => left.eqIgnoringNullability inner
    | none => false
  | .hasPrefix | .notHasPrefix | .hasSuffix | .notHasSuffix | .hasSubstring | .notHasSubstring
  | .regexMatches | .notRegexMatches => isStringTy left && isStringTy right

/-- A `@filter` waiting for phase B: left operand (name and type) and the directive. -/
structure PendingFilter where
  left : Left
  leftTy : QTy
  op : FOp
  arg : QArg
  deriving Repr, Inhabited

/-- `make_filter_expr`: build one filter at vertex `vid` of the component with path `path`. -/
def resolveFilter (path : List Vid) (vid : Vid) (pf : PendingFilter) (st : St) :
    M (IRFilter × List ImportEvent × St) :=
  match pf.op, pf.arg with
  | .un o, .none => do
    check pf.leftTy.nullable .filterTypeError
    pure (⟨.un o, pf.left, none⟩, [], st)
  | .bin o, .var n => do
    let vt ← inferVariableType pf.leftTy o
    check (binTypesValid pf.leftTy vt o) .filterTypeError
    pure (⟨.bin o, pf.left, some (.var n vt)⟩, [], st)
  | .bin o, .tag t => do
    let (r, ev, st1) ← refTag t path vid st
    check (binTypesValid pf.leftTy (fieldRefTy r) o) .filterTypeError
    pure (⟨.bin o, pf.left, some (.tag r)⟩, ev, st1)
  | _, _ => .error .filterArgumentShape

/-- The filters of one vertex (or the post-filters of one fold), in order. -/
def resolveFilters (path : List Vid) (vid : Vid) :
    List PendingFilter → St → M (List IRFilter × List ImportEvent × St)
  | [], st => .ok ([], [], st)
  | pf :: rest, st => do
    let (f, ev1, st1) ← resolveFilter path vid pf st
    let (fs, ev2, st2) ← resolveFilters path vid rest st1
    pure (f :: fs, ev1 ++ ev2, st2)

/-! ### edges: parameters and recursion -/

mutual
/-- `convert_number_to_field_value` on the literal a tree value is written as: the GraphQL text of
`(u 3)` and of `(i 3)` is `3`, which the frontend reads as `Int64` whenever it fits (`as_i64` is
tried before `as_u64`). -/
def normLiteral : Value → Value
  | .uint64 u => if u.toNat < 2 ^ 63 then .int64 (Int64.ofNat u.toNat) else .uint64 u
  | .list l => .list (normLiterals l)
  | v => v
def normLiterals : List Value → List Value
  | [] => []
  | x :: xs => normLiteral x :: normLiterals xs
end

def insertParam (kv : Name × Value) : Params → Params
  | [] => [kv]
  | x :: xs => if kv.1 < x.1 then kv :: x :: xs else x :: insertParam kv xs

/-- The declared-parameter loop of `make_edge_parameters`: explicit value (type-checked), else the
schema default, else `null` for a nullable parameter, else an error. -/
def declaredParams (explicit : Params) : List ParamDecl → M Params
  | [] => .ok []
  | d :: rest => do
    let v ← match explicit.find? (·.1 == d.name) with
      | some (_, w) =>
        let v := normLiteral w
        match d.ty.isValidValue v with
        | some true => pure v
        | some false => .error .invalidEdgeParameterType
        | none => .error .enumParameterUnimplemented
      | none =>
        match d.dflt with
        | some v => pure (normLiteral v)
        | none => if d.ty.nullable then pure Value.null else .error .missingRequiredEdgeParameter
    let ps ← declaredParams explicit rest
    pure (insertParam (d.name, v) ps)

def namesDistinct : List Name → Bool
  | [] => true
  | n :: rest => !rest.contains n && namesDistinct rest

/-- `make_edge_parameters`: the complete parameter tuple in name order (`BTreeMap`). -/
def completeParams (decl : List ParamDecl) (explicit : Params) : M Params := do
  check (namesDistinct (explicit.map (·.1))) .duplicatedEdgeParameter
  let ps ← declaredParams explicit decl
  check (explicit.all fun (n, _) => decl.any (·.name == n)) .unexpectedEdgeParameter
  pure ps

/-- `get_recurse_implicit_coercion` (cases 1–4d of the comment block above it). -/
def recurseCoercion (S : SchemaView) (source : Name) (edge : EdgeInfo) : M (Option Name) :=
  let dest := edge.target
  if !S.isSubtype dest source then
    if !S.isSubtype source dest then .error .recursingNonRecursableEdge   -- case 1
    else .error .recursionToSubtype                                      -- case 2
  else if source == dest then .ok none                                   -- case 3
  else
    match S.edge? dest edge.name with
    | some de =>
      if de.target == dest then .ok none                                 -- case 4a
      else .error .edgeRecursionNeedingMultipleCoercions                 -- case 4b
    | none =>
      match S.edgeOrigins source edge.name with
      | [ancestor] =>
        match S.edge? ancestor edge.name with
        | some ae =>
          if ae.target == dest then .ok (some ancestor)                  -- case 4c
          else .error .edgeRecursionNeedingMultipleCoercions
        | none => .error .nonExistentPath
      | _ => .error .ambiguousOriginEdgeRecursion                        -- case 4d

/-- The `recursive` field of an `IREdge`. -/
def recursiveOf (S : SchemaView) (source : Name) (edge : EdgeInfo) : Kind → M (Option Recursive)
  | .recurse d => do
    check (d != 0) .recurseDepthZero
    let c ← recurseCoercion S source edge
    pure (some ⟨d, c⟩)
  | _ => .ok none

def isOptionalKind : Kind → Bool
  | .optional => true
  | _ => false

/-! ### validation of a type coercion (`validation.rs::validate_field`) -/

/-- The post-coercion type of a scope of type `pre` with `... on c`. -/
def coerce (S : SchemaView) (pre : Name) : Option Name → M Name
  | none => do
    check (S.isVertexType pre) .nonExistentType
    pure pre
  | some c => do
    let pt ← orErr (S.type? pre) .nonExistentType
    check pt.isIface .cannotCoerceNonInterfaceType
    let ct ← orErr (S.type? c) .nonExistentType
    check (ct.supers.contains pre) .cannotCoerceToUnrelatedType
    pure c

/-! ### phase A: `fill_in_vertex_data` -/

/-- What `make_vertex` needs about one vertex. -/
structure VertexRec where
  vid : Vid
  typeName : Name
  coercedFrom : Option Name
  pending : List PendingFilter
  deriving Repr, Inhabited

/-- The pieces of one component collected by phase A; every list is in DFS order, which is the
order of the Rust `BTreeMap`s keyed by Vid/Eid. `events`: imports caused inside folded
sub-components (and by fold post-filters) that concern folds further up. -/
structure Acc where
  verts : List VertexRec := []
  edges : List IREdge := []
  folds : List Fold := []
  outs : List OutputDef := []
  events : List ImportEvent := []
  deriving Inhabited

def Acc.append (a b : Acc) : Acc :=
  ⟨a.verts ++ b.verts, a.edges ++ b.edges, a.folds ++ b.folds, a.outs ++ b.outs,
    a.events ++ b.events⟩

instance : Append Acc := ⟨Acc.append⟩

/-- The directives of the selections of property `n` among `fields`, concatenated in order. -/
def propDirs (n : Name) : List QField → List Dir
  | [] => []
  | .prop m dirs :: rest => if m == n then dirs ++ propDirs n rest else propDirs n rest
  | .edge .. :: rest => propDirs n rest

/-- `property_names_by_vertex[vid]`: the selected property names in order of first occurrence. -/
def propNames : List QField → List Name
  | [] => []
  | .prop m _ :: rest => m :: (propNames rest).filter (· != m)
  | .edge .. :: rest => propNames rest

def filterDirs (n : Name) (ty : QTy) : List Dir → List PendingFilter
  | [] => []
  | .filter op arg :: rest => ⟨.loc n ty, ty, op, arg⟩ :: filterDirs n ty rest
  | _ :: rest => filterDirs n ty rest

/-- The filters of a vertex in the order `make_vertex` emits them: by first occurrence of the
property name among the selections, then by selection, then by directive. -/
def nodeFilters (S : SchemaView) (ty : Name) (fields : List QField) : List PendingFilter :=
  (propNames fields).flatMap fun n =>
    match S.propTy? ty n with
    | some pty => filterDirs n pty (propDirs n fields)
    | none => []

def outputDirs (vid : Vid) (n : Name) (ty : QTy) : List Dir → List OutputDef
  | [] => []
  | .output o :: rest => ⟨o, vid, n, ty⟩ :: outputDirs vid n ty rest
  | _ :: rest => outputDirs vid n ty rest

def tagDirs (vid : Vid) (n : Name) (ty : QTy) : List Dir → List (Name × FieldRef)
  | [] => []
  | .tag t :: rest => (t, .ctx vid n ty) :: tagDirs vid n ty rest
  | _ :: rest => tagDirs vid n ty rest

def countFilters : List FDir → List PendingFilter
  | [] => []
  | .countFilter op arg :: rest => ⟨.count, countTy, op, arg⟩ :: countFilters rest
  | _ :: rest => countFilters rest

def countTags (eid : Eid) (root : Vid) : List FDir → List (Name × FieldRef)
  | [] => []
  | .countTag t :: rest => (t, .fcount eid root) :: countTags eid root rest
  | _ :: rest => countTags eid root rest

def insertName (n : Name) : List Name → List Name
  | [] => [n]
  | x :: xs => if n < x then n :: x :: xs else if n == x then x :: xs else x :: insertName n xs

/-- `fold_specific_outputs` (a `BTreeMap` keyed by output name). -/
def countOutputs : List FDir → List Name
  | [] => []
  | .countOutput o :: rest => insertName o (countOutputs rest)
  | _ :: rest => countOutputs rest

def insertOutput (o : OutputDef) : List OutputDef → List OutputDef
  | [] => [o]
  | x :: xs => if o.name < x.name then o :: x :: xs else x :: insertOutput o xs

/-- The component's `outputs` map in name order. -/
def sortOutputs (os : List OutputDef) : List OutputDef := os.foldr insertOutput []

/-- phase B for one vertex: `make_vertex`. -/
def makeVertex (path : List Vid) (v : VertexRec) (st : St) :
    M (IRVertex × List ImportEvent × St) := do
  let (fs, ev, st1) ← resolveFilters path v.vid v.pending st
  pure (⟨v.vid, v.typeName, v.coercedFrom, fs⟩, ev, st1)

/-- phase B: the `make_vertex` loop over the component's vertices in Vid order. -/
def makeVertices (path : List Vid) : List VertexRec → St → M (List IRVertex × List ImportEvent × St)
  | [], st => .ok ([], [], st)
  | v :: rest, st => do
    let (x, ev1, st1) ← makeVertex path v st
    let (xs, ev2, st2) ← makeVertices path rest st1
    pure (x :: xs, ev1 ++ ev2, st2)

/-- The rest of `make_query_component` after `fill_in_vertex_data`: phase B and the assembly of
the `IRQueryComponent`. Returns the component and ALL import events raised while it was built
(phase A's, then phase B's). -/
def finishComponent (path : List Vid) (root : Vid) (acc : Acc) (st : St) :
    M (Component × List ImportEvent × St) := do
  let (vs, ev, st1) ← makeVertices path acc.verts st
  pure (.mk root vs acc.edges acc.folds (sortOutputs acc.outs), acc.events ++ ev, st1)

/-- The derived `PartialEq` of `FieldRef` (all fields, the type included; the only
`FoldSpecificFieldKind` is `Count`). -/
def sameFieldRef : FieldRef → FieldRef → Bool
  | .ctx v f t, .ctx v' f' t' => v == v' && f == f' && decide (t = t')
  | .fcount e r, .fcount e' r' => e == e' && r == r'
  | _, _ => false

/-- `if !imported_tags.contains(&entry.field) { imported_tags.push(entry.field.clone()) }`. -/
def pushImport (slot : List FieldRef) (r : FieldRef) : List FieldRef :=
  if slot.any (sameFieldRef r) then slot else slot ++ [r]

/-- The events a fold whose parent path has length `k` keeps as its `imported_tags`: its slot
receives them in order, a field that is already in the slot is not pushed again (first occurrences
are kept, in the order of the first occurrences). -/
def importsAt (k : Nat) (evs : List ImportEvent) : List FieldRef :=
  (evs.filterMap fun (i, r) => if i == k then some r else none).foldl pushImport []

/-- The events it passes on to the folds above it. -/
def importsAbove (k : Nat) (evs : List ImportEvent) : List ImportEvent :=
  evs.filter fun (i, _) => i != k

mutual
/-- `fill_in_vertex_data` for the vertex `vid` (of pre-coercion type `pre`) of the component with
path `path`: the vertex itself, then its selections. -/
def fillNode (S : SchemaView) (path : List Vid) (vid : Vid) (pre : Name) :
    QNode → St → M (Acc × St)
  | .mk coerceTo fields, st => do
    let post ← coerce S pre coerceTo
    let (acc, st1) ← fillFields S path vid post fields st
    pure ({ verts := [⟨vid, post, coerceTo.map fun _ => pre, nodeFilters S post fields⟩] } ++ acc,
      st1)
/-- The loop over `current_field.connections` of `fill_in_vertex_data` at vertex `vid` whose
post-coercion type is `ty`. -/
def fillFields (S : SchemaView) (path : List Vid) (vid : Vid) (ty : Name) :
    List QField → St → M (Acc × St)
  | [], st => .ok ({}, st)
  | .prop n dirs :: rest, st => do
    -- "Processing a property": outputs, then tags
    let pty ← orErr (S.propTy? ty n) .nonExistentPath
    let st1 ← registerTags path (tagDirs vid n pty dirs) st
    let (acc, st2) ← fillFields S path vid ty rest st1
    pure ({ outs := outputDirs vid n pty dirs } ++ acc, st2)
  | .edge n params (.fold fds) child :: rest, st => do
    -- "Processing an edge", `connection.fold` is set: `make_fold`
    let (v, e, st1) := st.alloc
    let ed ← orErr (S.edge? ty n) .nonExistentPath
    let ps ← completeParams ed.params params
    let inner := path ++ [v]
    let (accIn, st2) ← fillNode S inner v ed.target child st1
    let (comp, evs, st3) ← finishComponent inner v accIn st2
    -- post-filters see the parent's path, and the fold's root as the using vertex
    let (post, evPost, st4) ← resolveFilters path v (countFilters fds) st3
    let st5 ← registerTags path (countTags e v fds) st4
    let fold := Fold.mk e vid v n ps comp (importsAt path.length evs) (countOutputs fds) post
    let (acc, st6) ← fillFields S path vid ty rest st5
    pure ({ folds := [fold], events := importsAbove path.length evs ++ evPost } ++ acc, st6)
  | .edge n params kind child :: rest, st => do
    -- "Processing an edge", not folded
    let (v, e, st1) := st.alloc
    let ed ← orErr (S.edge? ty n) .nonExistentPath
    let ps ← completeParams ed.params params
    let rec_ ← recursiveOf S ty ed kind
    let (accC, st2) ← fillNode S path v ed.target child st1
    let (acc, st3) ← fillFields S path vid ty rest st2
    pure ({ edges := [⟨e, vid, v, n, ps, isOptionalKind kind, rec_⟩] } ++ accC ++ acc, st3)
end

/-! ### query-level variables (`fill_in_query_variables`) -/

def filterVarUse (f : IRFilter) : List (Name × QTy) :=
  match f.right with
  | some (.var n t) => [(n, t)]
  | _ => []

mutual
/-- All variable uses in the order `fill_in_query_variables` visits them: the component's vertex
filters (Vid order), its folds' post-filters (Eid order), then the folds' components. -/
def varUses : Component → List (Name × QTy)
  | .mk _ vs _ folds _ =>
    (vs.flatMap fun v => v.filters.flatMap filterVarUse) ++ postVarUses folds ++ foldsVarUses folds
def postVarUses : List Fold → List (Name × QTy)
  | [] => []
  | .mk _ _ _ _ _ _ _ _ post :: rest => post.flatMap filterVarUse ++ postVarUses rest
def foldsVarUses : List Fold → List (Name × QTy)
  | [] => []
  | .mk _ _ _ _ _ comp _ _ _ :: rest => varUses comp ++ foldsVarUses rest
end

/-- `*existing_type = intersection` for the entry of `n`. -/
def updateVar (n : Name) (i : QTy) : List (Name × QTy) → List (Name × QTy)
  | [] => []
  | (m, u) :: rest => if m == n then (m, i) :: rest else (m, u) :: updateVar n i rest

/-- `or_insert_with`: a new entry, at its place in name order (the map is a `BTreeMap`). -/
def insertVar (n : Name) (t : QTy) : List (Name × QTy) → List (Name × QTy)
  | [] => [(n, t)]
  | (m, u) :: rest => if n < m then (n, t) :: (m, u) :: rest else (m, u) :: insertVar n t rest

/-- One step of the loop: `entry(name).or_insert(ty)`, then `intersect` with the use's type
(for a fresh entry that is `ty.intersect(ty) = ty`). -/
def addVar (vars : List (Name × QTy)) (n : Name) (t : QTy) : M (List (Name × QTy)) :=
  match vars.find? (·.1 == n) with
  | some (_, u) =>
    match u.intersect t with
    | some i => .ok (updateVar n i vars)
    | none => .error .incompatibleVariableTypeRequirements
  | none => .ok (insertVar n t vars)

def addVars : List (Name × QTy) → List (Name × QTy) → M (List (Name × QTy))
  | vars, [] => .ok vars
  | vars, (n, t) :: rest => do
    let vars1 ← addVar vars n t
    addVars vars1 rest

/-! ### output names -/

mutual
/-- Every name registered with the `OutputHandler`, over the whole query. -/
def outputNames : Component → List Name
  | .mk _ _ _ folds outs => outs.map (·.name) ++ foldsOutputNames folds
def foldsOutputNames : List Fold → List Name
  | [] => []
  | .mk _ _ _ _ _ comp _ fouts _ :: rest => fouts ++ outputNames comp ++ foldsOutputNames rest
end

/-- Names of the count outputs as written (before the map de-duplicates them). -/
def countOutputNames : List FDir → List Name
  | [] => []
  | .countOutput o :: rest => o :: countOutputNames rest
  | _ :: rest => countOutputNames rest

mutual
/-- Every `@output` name written in the tree (in order), incl. fold-count outputs. -/
def treeOutputNames : QNode → List Name
  | .mk _ fields => fieldsOutputNames fields
def fieldsOutputNames : List QField → List Name
  | [] => []
  | .prop _ dirs :: rest =>
    (dirs.filterMap fun d => match d with | .output n => some n | _ => none) ++
      fieldsOutputNames rest
  | .edge _ _ (.fold fds) child :: rest =>
    countOutputNames fds ++ treeOutputNames child ++ fieldsOutputNames rest
  | .edge _ _ _ child :: rest => treeOutputNames child ++ fieldsOutputNames rest
end

/-! ### the frontend -/

/-- The state after `starting_vid = vid_maker.next()`. -/
def St.init : St := ⟨2, 1, [], []⟩

/-- `make_ir_for_query` on the query tree. -/
def toIR (S : SchemaView) (q : Query) : M IRQuery := do
  let root ← orErr (S.root? q.rootEdge) .nonExistentPath
  let rootParams ← completeParams root.params q.rootParams
  let (acc, st1) ← fillNode S [1] 1 root.target q.root St.init
  let (comp, _, st2) ← finishComponent [1] 1 acc st1
  let vars ← addVars [] (varUses comp)
  -- `tags.finish()`: every registered tag must have been used
  check (st2.tags.all fun t => st2.used.contains t.name) .unusedTags
  -- `check_for_duplicate_output_names(output_handler.finish())`
  check (namesDistinct (treeOutputNames q.root)) .multipleOutputsWithSameName
  pure ⟨q.rootEdge, rootParams, vars, comp⟩

/-! ### the `(schema …)` parser -/

open Sexp

def parseParamDecl : Sexp → Option ParamDecl
  | .list [.atom n, t, .atom "-"] => do pure ⟨n, ← parseTy t, none⟩
  | .list [.atom n, t, v] => do pure ⟨n, ← parseTy t, some (← toValue v)⟩
  | _ => none

def parseEdgeInfo : Sexp → Option EdgeInfo
  | .list [.atom e, .atom target, t, .list (.atom "params" :: ps)] => do
    pure ⟨e, target, ← parseTy t, ← listMapM parseParamDecl ps⟩
  | _ => none

def section? (name : String) (secs : List Sexp) : Option (List Sexp) :=
  secs.findSome? fun s =>
    match s with
    | .list (.atom h :: rest) => if h == name then some rest else none
    | _ => none

def parseProp : Sexp → Option (Name × QTy)
  | .list [.atom p, t] => do pure (p, ← parseTy t)
  | _ => none

/-- The entries of type `t` in a section whose items are `(<Type> item…)`. -/
def entriesOf (t : Name) (sec : List Sexp) : List Sexp :=
  match sec.findSome? fun s =>
      match s with
      | .list (.atom h :: rest) => if h == t then some rest else none
      | _ => none with
  | some l => l
  | none => []

def parseTypeInfo (subs props edges : List Sexp) : Sexp → Option TypeInfo
  | .list [.atom t, .atom kind] => do
    let supers ← listMapM atomName? (entriesOf t subs)
    let ps ← listMapM parseProp (entriesOf t props)
    let es ← listMapM parseEdgeInfo (entriesOf t edges)
    pure ⟨t, kind == "iface", supers, ps, es⟩
  | _ => none

def parseSchemaView : Sexp → Option SchemaView
  | .list (.atom "schema" :: secs) => do
    let types ← section? "types" secs
    let subs ← section? "sub" secs
    let props ← section? "props" secs
    let edges ← section? "edges" secs
    let roots ← section? "roots" secs
    pure ⟨← listMapM (parseTypeInfo subs props edges) types, ← listMapM parseEdgeInfo roots⟩
  | _ => none

end TF.Frontend
