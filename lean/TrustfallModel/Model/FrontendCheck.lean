/-
Model of the frontend proper: `trustfall_core/src/frontend/{mod,validation,filters,tags,outputs,
util}.rs` (`make_ir_for_query` and everything below it), the part of `ir/types/base.rs` it calls,
and the one step of `IndexedQuery::try_from` (`ir/indexed.rs`, run by `frontend::parse`) that can
panic (`get_output_type`).

Purpose: decide, for a schema view and an abstract document, the outcome class of
`frontend::parse`: `ok`, the list of error variants, or `panic site`.  The IR itself is not built
(that is C11's model); what is kept is exactly what later steps read: per component the vertices
(Vid, type), the variable uses with their inferred types, the outputs with their types, the folds.

Representation choices:
* `Vid`/`Eid` are `Nat` counters starting at 1 (`usize` overflow of the counters is out of reach);
* a `Type` is structural (`FTy`): base name and nullability per level.  The Rust type is a bit mask
  with at most 30 list levels; the structural operations agree with the mask operations up to that
  depth (`Proofs/Ty.lean`, C17), and the only operation that can exceed it, `new_list_type`, panics
  exactly at depth 30 in both;
* maps (`BTreeMap`) are association lists in insertion order; every map the frontend iterates over
  is keyed by `Vid`/`Eid`, which are handed out in increasing order, so insertion order is key
  order; the name-keyed maps are only looked up, except `duplicates` whose order does not matter
  for the outcome class;
* stacks (`Vec` used with `push`/`pop`/`last`) keep the Rust order (last element = top);
* `schema.field_origins` is recomputed from the view (`SchemaView.originOf`) by the defining
  recursion (own field, else union over the implemented interfaces that have the field);
* the default values of edge parameters are not part of the view (only whether one exists): that
  they convert and type-check (mod.rs:163/167) is what schema validation established;
* errors are variant names (`FrontErr`), in the order the code produces them.

Core Lean only (compiled into the native driver).
-/
import TrustfallModel.Model.QueryParse

namespace TF.FE

/-! ## Types (`ir/types/base.rs`, structural view) -/

/-- `Type`: base name, nullability of the outermost level, and for each list level (outside-in)
the nullability of its element level. `[[Int!]]!` is `⟨"Int", false, [true, false]⟩`. -/
structure FTy where
  base : String
  outer : Bool
  inner : List Bool
  deriving DecidableEq, Repr, Inhabited

namespace FTy

/-- `Modifiers::MAX_LIST_DEPTH`. -/
def MAX_LIST_DEPTH : Nat := 30

def named (base : String) (nullable : Bool) : FTy := ⟨base, nullable, []⟩
def nullable (t : FTy) : Bool := t.outer
def depth (t : FTy) : Nat := t.inner.length
def isList (t : FTy) : Bool := !t.inner.isEmpty

/-- `Type::as_list`. -/
def asList (t : FTy) : Option FTy :=
  match t.inner with
  | [] => none
  | b :: rest => some ⟨t.base, b, rest⟩

/-- `Type::with_nullability`. -/
def withNullability (t : FTy) (n : Bool) : FTy := { t with outer := n }

/-- `Type::new_list_type`: `none` is `panic!("too many nested lists")` (base.rs:160). -/
def newListType (inner : FTy) (nullable : Bool) : Option FTy :=
  if inner.depth ≥ MAX_LIST_DEPTH then none
  else some ⟨inner.base, nullable, inner.outer :: inner.inner⟩

/-- `Type::equal_ignoring_nullability`. -/
def equalIgnoringNullability (a b : FTy) : Bool :=
  a.base == b.base && a.inner.length == b.inner.length

/-- `Type::intersect`: same base and depth, nullability is the level-wise AND. -/
def intersect (a b : FTy) : Option FTy :=
  if a.base != b.base then none
  else if a.inner.length != b.inner.length then none
  else some ⟨a.base, a.outer && b.outer, List.zipWith (· && ·) a.inner b.inner⟩

/-- `Type::is_orderable`: looks at the base name only. -/
def isOrderable (t : FTy) : Bool := t.base == "Int" || t.base == "Float" || t.base == "String"

mutual
/-- `Type::is_valid_value`: total; an enum literal is valid for no type (history: the enum arm was
`unimplemented!`, base.rs:380, modelled as `none` — N-2 / F-C10-2, repaired). -/
def isValidValue (t : FTy) : FV → Bool
  | .null => t.nullable
  | .int _ => !t.isList && t.base == "Int"
  | .float => !t.isList && t.base == "Float"
  | .str _ => !t.isList && t.base == "String"
  | .bool _ => !t.isList && t.base == "Boolean"
  | .list items =>
    match t.asList with
    | some inner => allValid inner items
    | none => false
  | .enum _ => false
/-- `contents.iter().all(|inner| content_type.is_valid_value(inner))`. -/
def allValid (t : FTy) : List FV → Bool
  | [] => true
  | x :: xs => isValidValue t x && allValid t xs
end

end FTy

/-! ## The schema as the frontend sees it -/

structure ParamDef where
  name : String
  ty : FTy
  hasDefault : Bool
  deriving Repr, Inhabited, DecidableEq

structure FieldDef where
  name : String
  ty : FTy
  params : List ParamDef
  deriving Repr, Inhabited, DecidableEq

/-- A vertex type (`schema.vertex_types` holds object and interface types only). -/
structure TypeDef where
  name : String
  isInterface : Bool
  implements : List String
  fields : List FieldDef
  deriving Repr, Inhabited, DecidableEq

structure SchemaView where
  queryType : String
  /-- `schema.scalars` (custom scalar definitions) -/
  scalars : List String
  /-- `schema.vertex_types` -/
  types : List TypeDef
  deriving Repr, Inhabited

def TYPENAME : String := "__typename"

/-- `get_builtin_scalars().contains(name)`. -/
def isBuiltinScalar (n : String) : Bool :=
  n == "Int" || n == "Float" || n == "String" || n == "Boolean" || n == "ID"

namespace SchemaView

/-- `schema.vertex_types.get(name)`. -/
def vertexType (S : SchemaView) (name : String) : Option TypeDef :=
  S.types.find? (fun t => t.name == name)

def isVertexType (S : SchemaView) (name : String) : Bool := (S.vertexType name).isSome

/-- `schema.fields.get(&(type, field))`. -/
def field (S : SchemaView) (typeName fieldName : String) : Option FieldDef :=
  match S.vertexType typeName with
  | some t => t.fields.find? (fun f => f.name == fieldName)
  | none => none

/-- `is_named_type_subtype(vertex_types, parent, maybe_subtype)`. -/
def isNamedTypeSubtype (S : SchemaView) (parent sub : String) : Bool :=
  match S.isVertexType parent, S.vertexType sub with
  | false, none => parent == sub
  | true, some subDef => parent == sub || subDef.implements.any (· == parent)
  | _, _ => false

/-- `schema.field_origins[(type, field)]` as the set of ancestor names (`SingleAncestor a` is
`[a]`): the type itself when no implemented interface has the field, else the union over those
that do.  `fuel` bounds the depth of the `implements` hierarchy. -/
def originOf (S : SchemaView) : Nat → String → String → List String
  | 0, _, _ => []
  | fuel + 1, typeName, fieldName =>
    match S.vertexType typeName with
    | none => []
    | some t =>
      let parents := t.implements.filter (fun i => (S.field i fieldName).isSome)
      if parents.isEmpty then [typeName]
      else (parents.flatMap (fun i => S.originOf fuel i fieldName)).eraseDups

end SchemaView

/-- The executable form of the hypothesis `ValidSchemaView` of the totality theorems
(`Proofs/FrontendComp.lean`): what the frontend relies on about a schema that `Schema::new`
accepted (the distinct-parameter-names clause included, since the repair of F-C10-5). Used by the driver's `view-valid` request and by `decide` on concrete schemas. -/
def validSchemaViewB (S : SchemaView) : Bool :=
  S.types.all (fun t => t.fields.all (fun f =>
    (isBuiltinScalar f.ty.base || S.isVertexType f.ty.base) &&
    f.name != TYPENAME &&
    decide (f.params.map (·.name)).Nodup &&
    (match S.originOf S.types.length t.name f.name with
     | [a] => (S.field a f.name).isSome
     | _ => false) &&
    (t.name != S.queryType || S.isVertexType f.ty.base))) &&
  !S.isVertexType TYPENAME && S.isVertexType S.queryType


/-! ## Errors -/

/-- `FrontendError` / `FilterTypeError` / `ValidationError` by variant name. -/
inductive FrontErr where
  | UndefinedTagInFilter | TagUsedBeforeDefinition | TagUsedOutsideItsFoldedSubquery | UnusedTags
  | MultipleOutputsWithSameName | MultipleTagsWithSameName | ExplicitTagNameRequired
  | IncompatibleVariableTypeRequirements | NonNullableTypeFilteredForNullability
  | TypeMismatchBetweenFilterSubjectAndArgument | OrderingFilterOperationOnNonOrderableSubject
  | OrderingFilterOperationWithNonOrderableArgument | StringFilterOperationOnNonStringSubject
  | StringFilterOperationOnNonStringArgument | ListFilterOperationOnNonListSubject
  | ListFilterOperationOnNonListArgument
  | UnsupportedDirectiveOnProperty | UnsupportedEdgeOutput | UnsupportedEdgeFilter
  | UnsupportedEdgeTag | UnsupportedDirectiveOnFoldedEdge | MissingRequiredEdgeParameter
  | UnexpectedEdgeParameter | InvalidEdgeParameterType | RecursingNonRecursableEdge
  | RecursionToSubtype | AmbiguousOriginEdgeRecursion | EdgeRecursionNeedingMultipleCoercions
  | PropertyMetaFieldUsedAsEdge
  | NonExistentPath | NonExistentType | CannotCoerceNonInterfaceType | CannotCoerceToUnrelatedType
  | OtherError
  deriving Repr, DecidableEq, Inhabited

/-- What `frontend::parse` can return as `Err`. -/
inductive CompileErr where
  | parse (e : ParseErr)
  | frontend (es : List FrontErr)
  deriving Repr, DecidableEq, Inhabited

/-- Steps that accumulate errors as data: only `ok` and `panic` are used. -/
abbrev FRes := Res Unit

/-! ## `frontend/validation.rs` -/

mutual
/-- `validate_field(schema, parent_type_name, path, connection, node)`; the path is represented
by its length (only `push`/`pop`/`len` are used; its content goes into an error message). -/
def validateField (S : SchemaView) (parentType : String) (pathLen : Nat) (conn : FieldConnection) :
    FieldNode → Res FrontErr Nat
  | .mk name alias coercedTo _ _ _ connections _ =>
    if !(conn.name == name && conn.alias == alias) then .panic .connNodeMismatch
    else if name == TYPENAME then
      if !connections.isEmpty then .err .PropertyMetaFieldUsedAsEdge else .ok pathLen
    else
      match S.field parentType name with
      | none => .err .NonExistentPath
      | some fieldDef =>
        let pre := fieldDef.ty.base
        let typed : Res FrontErr (String × Nat) :=
          match coercedTo with
          | some coerced =>
            -- `schema.vertex_types.get(pre_coercion_type_name)`: a type that is not a vertex type
            -- is not an interface (fix of F-8; an index expression that panicked before)
            match S.vertexType pre with
            | none => .err .CannotCoerceNonInterfaceType
            | some preDef =>
              if !preDef.isInterface then .err .CannotCoerceNonInterfaceType
              else
                match S.vertexType coerced with
                | some postDef =>
                  if !postDef.implements.any (· == pre) then .err .CannotCoerceToUnrelatedType
                  else .ok (coerced, pathLen + 2)
                | none => .err .NonExistentType
          | none => .ok (pre, pathLen + 1)
        typed >>= fun tl =>
        validateConnections S tl.1 tl.2 connections >>= fun len =>
        -- `path.pop().unwrap()`, twice when coerced, then `assert_eq!(old_path_length, path.len())`
        let pops := if coercedTo.isSome then 2 else 1
        if len < pops then .panic .validatePath
        else if len - pops != pathLen then .panic .validatePath
        else .ok (len - pops)
def validateConnections (S : SchemaView) (parentType : String) (pathLen : Nat) :
    List (FieldConnection × FieldNode) → Res FrontErr Nat
  | [] => .ok pathLen
  | (c, n) :: rest =>
    validateField S parentType pathLen c n >>= fun len => validateConnections S parentType len rest
end

/-- `validate_query_against_schema`. -/
def validateQuery (S : SchemaView) (q : Query) : Res FrontErr Unit :=
  -- the root must be an edge of the root query type (fix of F-C10-1)
  if q.rootField.name == TYPENAME then .err .PropertyMetaFieldUsedAsEdge
  else validateField S S.queryType 0 q.rootConnection q.rootField >>= fun _ => .ok ()

/-! ## State of the handlers threaded through the traversal -/

abbrev Vid := Nat
abbrev Eid := Nat

/-- `FieldRef`. -/
inductive FieldRefM where
  | context (vid : Vid) (name : String) (ty : FTy)
  | foldCount (eid : Eid) (rootVid : Vid)
  deriving Repr, DecidableEq, Inhabited

namespace FieldRefM
/-- `FieldRef::defined_at`. -/
def definedAt : FieldRefM → Vid
  | context v _ _ => v
  | foldCount _ r => r
/-- `FieldRef::field_type` (`FoldSpecificFieldKind::Count` has type `Int!`). -/
def fieldType : FieldRefM → FTy
  | context _ _ t => t
  | foldCount _ _ => FTy.named "Int" false
/-- the `Vid` that `make_duplicated_output_names_error` indexes `ir_vertices` with -/
def vid : FieldRefM → Vid
  | context v _ _ => v
  | foldCount _ r => r
end FieldRefM

/-- `TagEntry { name, field, path }`. -/
structure TagEntry where
  name : String
  field : FieldRefM
  path : List Vid
  deriving Repr, Inhabited

/-- `ComponentPath` + `TagHandler` + `OutputHandler` + the two id counters. -/
structure St where
  nextVid : Nat
  nextEid : Nat
  /-- `ComponentPath.path` -/
  path : List Vid
  /-- `TagHandler.tags` -/
  tags : List TagEntry
  /-- `TagHandler.used_tags` -/
  usedTags : List String
  /-- `TagHandler.component_imported_tags` -/
  imported : List (Vid × List FieldRefM)
  /-- `OutputHandler.prefixes` -/
  prefixes : List (Vid × Option String)
  /-- `OutputHandler.vid_stack` -/
  vidStack : List Vid
  /-- `OutputHandler.component_outputs_stack` (each map as its list of registrations) -/
  outStack : List (List (String × FieldRefM))
  /-- `OutputHandler.global_outputs` -/
  globalOutputs : List (String × FieldRefM)
  deriving Repr, Inhabited

namespace St

/-! ### `util.rs` `ComponentPath` -/

def pathPush (st : St) (v : Vid) : St := { st with path := st.path ++ [v] }

/-- `ComponentPath::pop`: `path.pop().unwrap()` then `assert_eq!`. -/
def pathPop (st : St) (v : Vid) : FRes St :=
  match st.path.getLast? with
  | none => .panic .componentPathPop
  | some top => if top != v then .panic .componentPathPop else .ok { st with path := st.path.dropLast }

/-- `ComponentPath::is_component_root`. -/
def isComponentRoot (st : St) (v : Vid) : FRes Bool :=
  match st.path.getLast? with
  | none => .panic .componentPathLast
  | some top => .ok (top == v)

/-- `ComponentPath::is_parent`: `self` is a prefix of `other`. -/
def pathIsParent (self other : List Vid) : Bool :=
  self.length ≤ other.length && self == other.take self.length

/-! ### `tags.rs` `TagHandler` -/

/-- `register_tag`: `false` = the name is taken (`insert_or_error` failed). -/
def registerTag (st : St) (name : String) (field : FieldRefM) : St × Bool :=
  if st.tags.any (·.name == name) then (st, false)
  else ({ st with tags := st.tags ++ [⟨name, field, st.path⟩] }, true)

def tagsBeginSubcomponent (st : St) (root : Vid) : St :=
  { st with imported := st.imported ++ [(root, [])] }

/-- `end_subcomponent`: `pop().unwrap()` then `assert_eq!`. -/
def tagsEndSubcomponent (st : St) (root : Vid) : FRes (St × List FieldRefM) :=
  match st.imported.getLast? with
  | none => .panic .tagsEndSubcomponent
  | some (expected, external) =>
    if expected != root then .panic .tagsEndSubcomponent
    else .ok ({ st with imported := st.imported.dropLast }, external)

inductive TagLookupError where
  | undefinedTag | tagUsedBeforeDefinition | tagDefinedInsideFold
  deriving Repr, DecidableEq

/-- `reference_tag(name, use_path, use_vid)` with `use_path` = the current component path. -/
def referenceTag (st : St) (name : String) (useVid : Vid) :
    FRes (St × Except TagLookupError TagEntry) :=
  match st.tags.find? (·.name == name) with
  | none => .ok (st, .error .undefinedTag)
  | some entry =>
    if pathIsParent entry.path st.path then
      if entry.field.definedAt > useVid then .ok (st, .error .tagUsedBeforeDefinition)
      else if entry.path != st.path then
        -- `use_path[entry.path.len()]`
        match st.path[entry.path.length]? with
        | none => .panic .tagsUsePathIndex
        | some importingRoot =>
          -- `component_imported_tags.get_mut(entry.path.len() - 1).unwrap()`, `assert_eq!`
          if entry.path.length == 0 then .panic .tagsImportSlot
          else
            let idx := entry.path.length - 1
            match st.imported[idx]? with
            | none => .panic .tagsImportSlot
            | some (root, refs) =>
              if root != importingRoot then .panic .tagsImportSlot
              else
                .ok ({ st with imported := st.imported.set idx (root, refs ++ [entry.field]),
                               usedTags := st.usedTags ++ [entry.name] }, .ok entry)
      else .ok ({ st with usedTags := st.usedTags ++ [entry.name] }, .ok entry)
    else .ok (st, .error .tagDefinedInsideFold)

/-- `finish`: the unused tag names. -/
def unusedTags (st : St) : List String :=
  (st.tags.map (·.name)).filter (fun n => !st.usedTags.contains n)

/-! ### `outputs.rs` `OutputHandler` -/

/-- `begin_nested_scope`: push, `prefixes.insert`, `assert!(prior_value.is_none())`. -/
def beginNestedScope (st : St) (v : Vid) (pfx : Option String) : FRes St :=
  if st.prefixes.any (·.1 == v) then .panic .outputsPrefixInsert
  else .ok { st with vidStack := st.vidStack ++ [v], prefixes := st.prefixes ++ [(v, pfx)] }

/-- `end_nested_scope`: `pop().expect(..)`, `assert_eq!`. -/
def endNestedScope (st : St) (v : Vid) : FRes St :=
  match st.vidStack.getLast? with
  | none => .panic .outputsEndScope
  | some top =>
    if top != v then .panic .outputsEndScope else .ok { st with vidStack := st.vidStack.dropLast }

def outputsBeginSubcomponent (st : St) : St := { st with outStack := st.outStack ++ [[]] }

/-- `end_subcomponent`: `pop().expect(..)`. -/
def outputsEndSubcomponent (st : St) : FRes (St × List (String × FieldRefM)) :=
  match st.outStack.getLast? with
  | none => .panic .outputsEndSubcomponent
  | some top => .ok ({ st with outStack := st.outStack.dropLast }, top)

/-- The prefix part of `make_output_name`: `self.prefixes[vid]` for every `vid` on the stack
(the root prefix is always `None`, mod.rs:263). -/
def outputPrefix (prefixes : List (Vid × Option String)) : List Vid → FRes String
  | [] => .ok ""
  | v :: rest =>
    match prefixes.find? (·.1 == v) with
    | none => .panic .outputsPrefixIndex
    | some (_, pfx) => outputPrefix prefixes rest >>= fun tail => .ok (pfx.getD "" ++ tail)

/-- `register_output`. -/
def registerOutput (st : St) (name : String) (value : FieldRefM) : FRes St :=
  match st.outStack.getLast? with
  | none => .panic .outputsRegister
  | some top =>
    .ok { st with outStack := st.outStack.dropLast ++ [top ++ [(name, value)]],
                  globalOutputs := st.globalOutputs ++ [(name, value)] }

/-- `register_locally_named_output(local_name, transforms, value)`; returns the complete name. -/
def registerLocalOutput (st : St) (localName suffix : String) (value : FieldRefM) :
    FRes (St × String) :=
  outputPrefix st.prefixes st.vidStack >>= fun pfx =>
  let name := pfx ++ localName ++ suffix
  registerOutput st name value >>= fun st' => .ok (st', name)

end St

/-- The names bound more than once (`try_collect_unique` → `Err(duplicates)` keys). -/
def duplicateNames (outs : List (String × FieldRefM)) : List String :=
  ((outs.map (·.1)).filter (fun n => (outs.filter (·.1 == n)).length > 1)).eraseDups

/-- The field references recorded under a duplicated name. -/
def duplicateRefs (outs : List (String × FieldRefM)) : List FieldRefM :=
  (outs.filter (fun o => (duplicateNames outs).contains o.1)).map (·.2)

/-! ## `frontend/filters.rs` -/

/-- `Argument`. -/
inductive ArgM where
  | tag (field : FieldRefM)
  | variable (name : String) (ty : FTy)
  deriving Repr, Inhabited

namespace ArgM
def typed : ArgM → FTy
  | .tag f => f.fieldType
  | .variable _ t => t
/-- `as_tag()`. -/
def asTag : ArgM → Option FieldRefM
  | .tag f => some f
  | .variable .. => none
end ArgM

inductive OpClass where
  | equality | ordering | containment | bulkEquality | stringOp
  deriving Repr, DecidableEq

def BinOp.cls : BinOp → OpClass
  | .equals | .notEquals => .equality
  | .lessThan | .lessThanOrEqual | .greaterThan | .greaterThanOrEqual => .ordering
  | .contains | .notContains => .containment
  | .oneOf | .notOneOf => .bulkEquality
  | _ => .stringOp

/-- `infer_variable_type(property_name, property_type, operation)` for the operation of a directive
with a variable operand: `err` is `ListFilterOperationOnNonListSubject`; panics: `unreachable!()`
for unary operators (filters.rs:148), `new_list_type` at depth 30 (base.rs:160). -/
def inferVariableType (propertyType : FTy) : FilterOp → Res FrontErr FTy
  | .isNull | .isNotNull => .panic .inferUnary
  | .bin op =>
    match op.cls with
    | .equality => .ok propertyType
    | .ordering => .ok (propertyType.withNullability false)
    | .containment =>
      match propertyType.asList with
      | some inner => .ok inner
      | none => .err .ListFilterOperationOnNonListSubject
    | .bulkEquality =>
      match FTy.newListType propertyType false with
      | some t => .ok t
      | none => .panic .oneOfListDepth
    | .stringOp => .ok (FTy.named "String" false)

/-- `right.unwrap().as_tag().unwrap()` followed by `tag_name.unwrap()` in the error branches of
`filters.rs::validity::*`: produces the given error, or panics when the right operand is a variable
(F-12) / when no tag name was passed. -/
def tagMismatch (right : ArgM) (tagName : Option String) (e : FrontErr) : FRes (List FrontErr) :=
  match right.asTag with
  | none => .panic .asTagUnwrap
  | some _ =>
    match tagName with
    | none => .panic .tagNameUnwrap
    | some _ => .ok [e]

/-- `operand_types_valid` for a binary operation: the list of `FilterTypeError`s (empty = `Ok`). -/
def binaryOperandTypesValid (op : BinOp) (leftType : FTy) (right : ArgM) (tagName : Option String) :
    FRes (List FrontErr) :=
  let rightType := right.typed
  match op.cls with
  | .equality =>
    if leftType.equalIgnoringNullability rightType then .ok []
    else tagMismatch right tagName .TypeMismatchBetweenFilterSubjectAndArgument
  | .ordering =>
    let e1 := if !leftType.isOrderable then [FrontErr.OrderingFilterOperationOnNonOrderableSubject] else []
    (if !rightType.isOrderable then
      -- only a tag can be non-orderable on its own (fix of F-12: `if let Some(tag) = ..as_tag()`)
      match right.asTag with
      | none => .ok []
      | some _ =>
        match tagName with
        | none => .panic .tagNameUnwrap
        | some _ => .ok [.OrderingFilterOperationWithNonOrderableArgument]
     else .ok []) >>= fun e2 =>
    (if !leftType.equalIgnoringNullability rightType then
      tagMismatch right tagName .TypeMismatchBetweenFilterSubjectAndArgument
     else .ok []) >>= fun e3 =>
    .ok (e1 ++ e2 ++ e3)
  | .containment =>
    match leftType.asList with
    | none => .ok [.ListFilterOperationOnNonListSubject]
    | some inner =>
      if inner.equalIgnoringNullability rightType then .ok []
      else tagMismatch right tagName .TypeMismatchBetweenFilterSubjectAndArgument
  | .bulkEquality =>
    match rightType.asList with
    | none => tagMismatch right tagName .ListFilterOperationOnNonListArgument
    | some inner =>
      if leftType.equalIgnoringNullability inner then .ok []
      else tagMismatch right tagName .TypeMismatchBetweenFilterSubjectAndArgument
  | .stringOp =>
    let e1 := if leftType.isList || leftType.base != "String" then
      [FrontErr.StringFilterOperationOnNonStringSubject] else []
    (if rightType.isList || rightType.base != "String" then
      tagMismatch right tagName .StringFilterOperationOnNonStringArgument
     else .ok []) >>= fun e2 =>
    .ok (e1 ++ e2)

/-- `make_filter_expr(schema, component_path, tags, current_vertex_vid, left_operand, directive)`:
the new handler state, and either the errors or the variable use (name, inferred type) the built
operation contains, if any. -/
def makeFilterExpr (st : St) (vid : Vid) (leftType : FTy) (fd : FilterDirective) :
    FRes (St × Except (List FrontErr) (Option (String × FTy))) :=
  match fd with
  | .isNull | .isNotNull =>
    -- `nullability_types_valid`
    if leftType.nullable then .ok (st, .ok none)
    else .ok (st, .error [.NonNullableTypeFilteredForNullability])
  | .binary op (.variable varName) =>
    match inferVariableType leftType (.bin op) with
    | .panic s => .panic s
    | .err e => .ok (st, .error [e])
    | .ok varType =>
      binaryOperandTypesValid op leftType (.variable varName varType) none >>= fun errs =>
      if errs.isEmpty then .ok (st, .ok (some (varName, varType))) else .ok (st, .error errs)
  | .binary op (.tag tagName) =>
    st.referenceTag tagName vid >>= fun r =>
    match r.2 with
    | .error .undefinedTag => .ok (r.1, .error [.UndefinedTagInFilter])
    | .error .tagDefinedInsideFold => .ok (r.1, .error [.TagUsedOutsideItsFoldedSubquery])
    | .error .tagUsedBeforeDefinition => .ok (r.1, .error [.TagUsedBeforeDefinition])
    | .ok entry =>
      binaryOperandTypesValid op leftType (.tag entry.field) (some tagName) >>= fun errs =>
      if errs.isEmpty then .ok (r.1, .ok none) else .ok (r.1, .error errs)

/-! ## `frontend/mod.rs` -/

/-- `get_vertex_field_definitions(schema, type_name)`: `&schema.vertex_types[type_name]`. -/
def getVertexFieldDefinitions (S : SchemaView) (typeName : String) : FRes (List FieldDef) :=
  match S.vertexType typeName with
  | some t => .ok t.fields
  | none => .panic .vertexTypeIndex

/-- `get_field_name_and_type_from_schema(defined_fields, field_node)`:
(field name, pre-coercion type name, post-coercion type name, type). -/
def getFieldNameAndType (definedFields : List FieldDef) (name : String) (coercedTo : Option String) :
    FRes (String × String × String × FTy) :=
  if name == TYPENAME then .ok (TYPENAME, TYPENAME, TYPENAME, FTy.named "String" false)
  else
    match definedFields.find? (fun f => f.name == name) with
    | some f => .ok (f.name, f.ty.base, coercedTo.getD f.ty.base, f.ty)
    | none => .panic .fieldLookup

/-- `get_edge_definition_from_schema(schema, type_name, edge_name)`; `site` distinguishes the call
for the root field (mod.rs:257) from the others. -/
def getEdgeDefinition (S : SchemaView) (typeName edgeName : String) (site : Site) : FRes FieldDef :=
  getVertexFieldDefinitions S typeName >>= fun fields =>
  match fields.find? (fun f => f.name == edgeName) with
  | some f => .ok f
  | none => .panic site

/-- The loop over `edge_definition.arguments` in `make_edge_parameters`: accumulated argument
names and errors. -/
def edgeParametersLoop (specified : List (String × FV)) :
    List ParamDef → List String → List FrontErr → FRes (List String × List FrontErr)
  | [], names, errs => .ok (names, errs)
  | p :: rest, names, errs =>
    let step : FRes (Bool × List FrontErr) :=
      match specified.find? (·.1 == p.name) with
      | none =>
        -- default from the schema, else implicit null for a nullable parameter
        if p.hasDefault || p.ty.nullable then .ok (true, [])
        else .ok (false, [.MissingRequiredEdgeParameter])
      | some (_, value) =>
        -- an enum literal fails the type check like any other ill-typed value
        if p.ty.isValidValue value then .ok (true, [])
        else .ok (true, [.InvalidEdgeParameterType])
    step >>= fun r =>
    if r.1 then
      -- `edge_arguments.insert_or_error(..).unwrap()`
      if names.contains p.name then .panic .paramDuplicate
      else edgeParametersLoop specified rest (names ++ [p.name]) (errs ++ r.2)
    else edgeParametersLoop specified rest names (errs ++ r.2)

/-- `make_edge_parameters(edge_definition, specified_arguments)`: the errors (empty = `Ok`). -/
def makeEdgeParameters (edgeDef : FieldDef) (specified : List (String × FV)) : FRes (List FrontErr) :=
  edgeParametersLoop specified edgeDef.params [] [] >>= fun r =>
  let unexpected := (specified.filter (fun kv => !r.1.contains kv.1)).map
    (fun _ => FrontErr.UnexpectedEdgeParameter)
  .ok (r.2 ++ unexpected)

/-- `get_recurse_implicit_coercion(schema, from_vertex, edge_definition, d)`: the error, if any
(the coercion itself is not kept). -/
def getRecurseImplicitCoercion (S : SchemaView) (sourceType : String) (edgeDef : FieldDef) :
    FRes (Option FrontErr) :=
  let dest := edgeDef.ty.base
  if !S.isNamedTypeSubtype dest sourceType then
    if !S.isNamedTypeSubtype sourceType dest then .ok (some .RecursingNonRecursableEdge)
    else .ok (some .RecursionToSubtype)
  else if sourceType == dest then .ok none
  else
    match S.field dest edgeDef.name with
    | some destEdge =>
      if destEdge.ty.base == dest then .ok none
      else .ok (some .EdgeRecursionNeedingMultipleCoercions)
    | none =>
      -- `&schema.field_origins[&(source_type, edge_name)]`
      match S.originOf S.types.length sourceType edgeDef.name with
      | [] => .panic .originIndex
      | [ancestor] =>
        -- `&schema.fields[&(ancestor, edge_name)]`
        match S.field ancestor edgeDef.name with
        | none => .panic .originIndex
        | some ancestorEdge =>
          if ancestorEdge.ty.base == dest then .ok none
          else .ok (some .EdgeRecursionNeedingMultipleCoercions)
      | _ :: _ :: _ => .ok (some .AmbiguousOriginEdgeRecursion)

/-- What `fill_in_vertex_data` records about a vertex (`vertices: Vid -> (type, &FieldNode)`);
of the node only what `make_vertex` reads. -/
structure VertexRec where
  vid : Vid
  uncoercedType : String
  name : String
  coercedTo : Option String
  hasFilter : Bool
  hasOutput : Bool
  hasTag : Bool
  deriving Repr, Inhabited

/-- `edges: Eid -> (from, to, &FieldConnection)`. -/
structure EdgeRec where
  eid : Eid
  fromVid : Vid
  toVid : Vid
  conn : FieldConnection
  deriving Repr, Inhabited

/-- `properties: (Vid, name) -> (name, type, nodes)`; of each node only its `@filter`s. -/
structure PropRec where
  vid : Vid
  name : String
  ty : FTy
  occurrences : List (List FilterDirective)
  deriving Repr, Inhabited

/-- Result of a component that compiled (the part of `IRQueryComponent` later steps read). -/
inductive CompIR where
  | mk (vids : List Vid)
       (varUses : List (String × FTy))
       (outputs : List FTy)
       (folds : List (List (String × FTy) × Nat × CompIR))
  deriving Repr, Inhabited

/-- One fold: the variable uses of its post-filters, the number of its fold-specific outputs,
its component. -/
abbrev FoldIR := List (String × FTy) × Nat × CompIR

mutual
/-- `collect_ir_vertices`. -/
def collectVids : CompIR → List Vid
  | .mk vids _ _ folds => vids ++ collectVidsFolds folds
def collectVidsFolds : List FoldIR → List Vid
  | [] => []
  | (_, _, c) :: rest => collectVids c ++ collectVidsFolds rest
end

/-- The maps local to one `make_query_component` call. -/
structure CD where
  vertices : List VertexRec
  edges : List EdgeRec
  props : List PropRec
  folds : List FoldIR
  deriving Repr, Inhabited

def CD.empty : CD := ⟨[], [], [], []⟩

/-- `for output_directive in &subfield.output` (mod.rs:993–1019): explicit names are registered as
given, implicit ones get the prefixes of the enclosing aliased edges. -/
def registerPropertyOutputs (ref : FieldRefM) (localName : String) (st : St) :
    List OutputDirective → FRes St
  | [] => .ok st
  | o :: rest =>
    (match o.name with
     | some explicit => st.registerOutput explicit ref
     | none => st.registerLocalOutput localName "" ref >>= fun r => .ok r.1)
    >>= fun st' => registerPropertyOutputs ref localName st' rest

/-- `for tag_directive in &subfield.tag` (mod.rs:1021–1046). -/
def registerPropertyTags (ref : FieldRefM) (defaultName : String) (st : St) (errs : List FrontErr) :
    List TagDirective → St × List FrontErr
  | [] => (st, errs)
  | t :: rest =>
    let r := st.registerTag (t.name.getD defaultName) ref
    registerPropertyTags ref defaultName r.1
      (if r.2 then errs else errs ++ [.MultipleTagsWithSameName]) rest

/-- `properties.entry(key).and_modify(..).or_insert_with(..)` (mod.rs:975–991). -/
def recordProperty (props : List PropRec) (cur : Vid) (fieldName : String) (ty : FTy)
    (subFilters : List FilterDirective) : FRes (List PropRec) :=
  match props.find? (fun p => p.vid == cur && p.name == fieldName) with
  | some prior =>
    -- `assert_eq!(subfield_name, prior_name)`, `assert_eq!(&subfield_raw_type, prior_type)`
    if !(prior.name == fieldName && prior.ty == ty) then .panic .propertyRepeat
    else .ok (props.map (fun p =>
      if p.vid == cur && p.name == fieldName then
        { p with occurrences := p.occurrences ++ [subFilters] }
      else p))
  | none => .ok (props ++ [⟨cur, fieldName, ty, [subFilters]⟩])

/-- The property branch of the loop in `fill_in_vertex_data` (mod.rs:945–1046). -/
def fillProperty (cur : Vid) (conn : FieldConnection) (subName : String) (subAlias : Option String)
    (subFilters : List FilterDirective) (subOutputs : List OutputDirective)
    (subTags : List TagDirective) (fieldName : String) (ty : FTy)
    (st : St) (cd : CD) : FRes (St × CD × List FrontErr) :=
  let e1 := (if conn.fold.isSome then [FrontErr.UnsupportedDirectiveOnProperty] else []) ++
            (if conn.optional then [FrontErr.UnsupportedDirectiveOnProperty] else []) ++
            (if conn.recurse.isSome then [FrontErr.UnsupportedDirectiveOnProperty] else [])
  recordProperty cd.props cur fieldName ty subFilters >>= fun props =>
  let ref := FieldRefM.context cur subName ty
  registerPropertyOutputs ref (subAlias.getD subName) st subOutputs >>= fun st1 =>
  let r := registerPropertyTags ref (subAlias.getD subName) st1 [] subTags
  .ok (r.1, { cd with props := props }, e1 ++ r.2)

/-- A loop `for filter_directive in ..: match make_filter_expr(..)`: errors and variable uses are
accumulated, the handler state is threaded. -/
def filtersLoop (vid : Vid) (ty : FTy) (st : St) (errs : List FrontErr)
    (uses : List (String × FTy)) :
    List FilterDirective → FRes (St × List FrontErr × List (String × FTy))
  | [] => .ok (st, errs, uses)
  | fd :: rest =>
    makeFilterExpr st vid ty fd >>= fun r =>
    match r.2 with
    | .ok (some u) => filtersLoop vid ty r.1 errs (uses ++ [u]) rest
    | .ok none => filtersLoop vid ty r.1 errs uses rest
    | .error es => filtersLoop vid ty r.1 (errs ++ es) uses rest

/-- `for property_name in property_names_by_vertex.get(&vid)` in `make_vertex` (mod.rs:785–809):
the vertex's properties in first-occurrence order (`todo` runs over the component's property
records, of which those of other vertices are skipped), each looked up again with
`properties.get(&(vid, property_name)).unwrap()`. -/
def vertexFilters (props : List PropRec) (vid : Vid) (st : St) (errs : List FrontErr)
    (uses : List (String × FTy)) :
    List PropRec → FRes (St × List FrontErr × List (String × FTy))
  | [] => .ok (st, errs, uses)
  | p :: rest =>
    if p.vid != vid then vertexFilters props vid st errs uses rest
    else
      match props.find? (fun q => q.vid == p.vid && q.name == p.name) with
      | none => .panic .propertyLookup
      | some q =>
        filtersLoop vid q.ty st errs uses q.occurrences.flatten >>= fun r =>
        vertexFilters props vid r.1 r.2.1 r.2.2 rest

/-- `make_vertex` for one recorded vertex: the new handler state and either the errors or the
vertex's final type name with the variable uses of its filters. -/
def makeVertex (S : SchemaView) (props : List PropRec) (st : St) (v : VertexRec) :
    FRes (St × Except (List FrontErr) (String × List (String × FTy))) :=
  st.isComponentRoot v.vid >>= fun isFoldRoot =>
  let e1 := (if !isFoldRoot && v.hasOutput then [FrontErr.UnsupportedEdgeOutput] else []) ++
            (if v.hasFilter then [FrontErr.UnsupportedEdgeFilter] else []) ++
            (if v.hasTag then [FrontErr.UnsupportedEdgeTag] else [])
  let typeName : Option String :=
    match v.coercedTo with
    | none => some v.uncoercedType
    | some c => if S.isVertexType c then some c else none
  match typeName with
  | none => .ok (st, .error (e1 ++ [.NonExistentType]))
  | some tn =>
    vertexFilters props v.vid st e1 [] props >>= fun r =>
    if r.2.1.isEmpty then .ok (r.1, .ok (tn, r.2.2)) else .ok (r.1, .error r.2.1)

/-- `vertices.iter().map(make_vertex)` with the `filter_map` that collects errors, and
`.try_collect_unique().unwrap()` (mod.rs:492–514). -/
def verticesLoop (S : SchemaView) (props : List PropRec) (st : St) (errs : List FrontErr)
    (done : List (Vid × String)) (uses : List (String × FTy)) :
    List VertexRec → FRes (St × List FrontErr × List (Vid × String) × List (String × FTy))
  | [] => .ok (st, errs, done, uses)
  | v :: rest =>
    makeVertex S props st v >>= fun r =>
    match r.2 with
    | .ok (tn, us) =>
      if done.any (·.1 == v.vid) then .panic .vertexCollect
      else verticesLoop S props r.1 errs (done ++ [(v.vid, tn)]) (uses ++ us) rest
    | .error es => verticesLoop S props r.1 (errs ++ es) done uses rest

/-- The loop over `edges` in `make_query_component` (mod.rs:520–570). -/
def edgesLoop (S : SchemaView) (irVertices : List (Vid × String)) (errs : List FrontErr) :
    List EdgeRec → FRes (List FrontErr)
  | [] => .ok errs
  | e :: rest =>
    -- `&ir_vertices[from_vid].type_name`
    match irVertices.find? (·.1 == e.fromVid) with
    | none => .panic .edgeFromVertexIndex
    | some (_, fromType) =>
      getEdgeDefinition S fromType e.conn.name .edgeLookup >>= fun edgeDef =>
      makeEdgeParameters edgeDef e.conn.arguments >>= fun paramErrs =>
      (match e.conn.recurse with
       | none => .ok none
       | some _ => getRecurseImplicitCoercion S fromType edgeDef) >>= fun recErr =>
      edgesLoop S irVertices (errs ++ recErr.toList ++ paramErrs) rest

/-- The context-field outputs of a component (`hacked_outputs`, mod.rs:586–592). -/
def contextOutputTypes (outs : List (String × FieldRefM)) : List FTy :=
  outs.filterMap (fun o =>
    match o.2 with
    | .context _ _ ty => some ty
    | .foldCount .. => none)

/-- The part of `make_query_component` after `fill_in_vertex_data` (mod.rs:492–600). -/
def componentPost (S : SchemaView) (st : St) (cd : CD) (fillErrs : List FrontErr) :
    FRes (St × Except (List FrontErr) CompIR) :=
  verticesLoop S cd.props st fillErrs [] [] cd.vertices >>= fun r =>
  if !r.2.1.isEmpty then .ok (r.1, .error r.2.1)
  else
    edgesLoop S r.2.2.1 [] cd.edges >>= fun edgeErrs =>
    if !edgeErrs.isEmpty then .ok (r.1, .error edgeErrs)
    else
      r.1.outputsEndSubcomponent >>= fun r2 =>
      if !(duplicateNames r2.2).isEmpty then
        -- `make_duplicated_output_names_error(&ir_vertices, duplicates)`: `ir_vertices[&vid]`
        -- (since the fix of F-C10-3 `ir_vertices` is extended by the vertices of the folds)
        if (duplicateRefs r2.2).all (fun f =>
            r.2.2.1.any (·.1 == f.vid) || (collectVidsFolds cd.folds).contains f.vid) then
          .ok (r2.1, .error [.MultipleOutputsWithSameName])
        else .panic .dupOutputVertexIndex
      else
        .ok (r2.1, .ok (.mk (r.2.2.1.map (·.1)) r.2.2.2 (contextOutputTypes r2.2) cd.folds))

/-- `for output in &transform_group.output` in `make_fold` (mod.rs:1136–1173). -/
def foldOutputs (field : FieldRefM) (localName : String) (st : St) (errs : List FrontErr)
    (names : List String) : List OutputDirective → FRes (St × List FrontErr × List String)
  | [] => .ok (st, errs, names)
  | o :: rest =>
    (match o.name with
     | some explicit => st.registerOutput explicit field >>= fun st' => .ok (st', explicit)
     | none => st.registerLocalOutput localName "count" field)
    >>= fun r =>
    -- `fold_specific_outputs.insert(final_output_name, kind)`
    if names.contains r.2 then
      foldOutputs field localName r.1 (errs ++ [.MultipleOutputsWithSameName]) names rest
    else foldOutputs field localName r.1 errs (names ++ [r.2]) rest

/-- `for tag_directive in &transform_group.tag` in `make_fold` (mod.rs:1174–1187). -/
def foldTags (field : FieldRefM) (st : St) (errs : List FrontErr) :
    List TagDirective → St × List FrontErr
  | [] => (st, errs)
  | t :: rest =>
    match t.name with
    | some tagName =>
      let r := st.registerTag tagName field
      foldTags field r.1 (if r.2 then errs else errs ++ [.MultipleTagsWithSameName]) rest
    | none => foldTags field st (errs ++ [.ExplicitTagNameRequired]) rest

/-- The transform part of `make_fold` (mod.rs:1109–1188). -/
def foldTransform (st : St) (tg : TransformGroup) (foldEid : Eid) (startVid : Vid)
    (subName : String) (subAlias : Option String) (e0 : List FrontErr) :
    FRes (St × List FrontErr × List (String × FTy) × Nat) :=
  if tg.retransform.isSome then .panic .retransform
  else
    let field := FieldRefM.foldCount foldEid startVid
    filtersLoop startVid (FTy.named "Int" false) st e0 [] tg.filters >>= fun rf =>
    foldOutputs field (if subAlias.isSome then "" else subName) rf.1 rf.2.1 [] tg.outputs
    >>= fun ro =>
    let rt := foldTags field ro.1 ro.2.1 tg.tags
    .ok (rt.1, rt.2, rf.2.2, ro.2.2.length)

/-- The part of `make_fold` after `make_query_component` returned `Ok` (mod.rs:1097–1204). -/
def foldPost (st : St) (fg : FoldGroup) (foldEid : Eid) (startVid : Vid)
    (subName : String) (subAlias : Option String) (subHasOutput : Bool) (comp : CompIR) :
    FRes (St × Except (List FrontErr) FoldIR) :=
  st.pathPop startVid >>= fun st1 =>
  st1.tagsEndSubcomponent startVid >>= fun r =>
  let e0 := if subHasOutput then [FrontErr.UnsupportedEdgeOutput] else []
  match fg.transform with
  | none => if e0.isEmpty then .ok (r.1, .ok ([], 0, comp)) else .ok (r.1, .error e0)
  | some tg =>
    foldTransform r.1 tg foldEid startVid subName subAlias e0 >>= fun t =>
    if t.2.1.isEmpty then .ok (t.1, .ok (t.2.2.1, t.2.2.2, comp)) else .ok (t.1, .error t.2.1)

/-- The pushes at the head of `make_fold` and of the `make_query_component` it calls
(mod.rs:1079–1080, 467). -/
def foldEnter (st : St) (startVid : Vid) : St :=
  ((st.pathPush startVid).tagsBeginSubcomponent startVid).outputsBeginSubcomponent

/-- `make_fold` from the return of `fill_in_vertex_data` on: the rest of `make_query_component`,
the `?` (on `Err` the path and tag stacks stay pushed), the rest of `make_fold`, and what
`fill_in_vertex_data` does with the result (mod.rs:904–910). `cd` is the enclosing component's
data, `e1` the `UnsupportedDirectiveOnFoldedEdge` errors already recorded for this edge. -/
def foldAfterFill (S : SchemaView) (fg : FoldGroup) (foldEid : Eid) (startVid : Vid)
    (subName : String) (subAlias : Option String) (subHasOutput : Bool) (cd : CD)
    (e1 : List FrontErr) (r : St × CD × List FrontErr) : FRes (St × CD × List FrontErr) :=
  componentPost S r.1 r.2.1 r.2.2 >>= fun c =>
  match c.2 with
  | .error es => .ok (c.1, cd, e1 ++ es)
  | .ok comp =>
    foldPost c.1 fg foldEid startVid subName subAlias subHasOutput comp >>= fun f =>
    match f.2 with
    | .error es => .ok (f.1, cd, e1 ++ es)
    | .ok fold => .ok (f.1, { cd with folds := cd.folds ++ [fold] }, e1)

mutual
/-- `fill_in_vertex_data(.., current_vid, pre_coercion_type, post_coercion_type, current_field)`. -/
def fillNode (S : SchemaView) (cur : Vid) (preType postType : String) :
    FieldNode → St → CD → FRes (St × CD × List FrontErr)
  | .mk name _ coercedTo filters outputs tags connections _, st, cd =>
    -- `vertices.insert_or_error(current_vid, ..).unwrap()`
    if cd.vertices.any (·.vid == cur) then .panic .vertexInsert
    else
      let cd1 := { cd with vertices := cd.vertices ++
        [⟨cur, preType, name, coercedTo, !filters.isEmpty, !outputs.isEmpty, !tags.isEmpty⟩] }
      getVertexFieldDefinitions S postType >>= fun defined =>
      fillConnections S cur postType defined connections st cd1 []
/-- The loop `for (connection, subfield) in &current_field.connections`. -/
def fillConnections (S : SchemaView) (cur : Vid) (postType : String) (defined : List FieldDef) :
    List (FieldConnection × FieldNode) → St → CD → List FrontErr → FRes (St × CD × List FrontErr)
  | [], st, cd, errs => .ok (st, cd, errs)
  | (conn, sub) :: rest, st, cd, errs =>
    getFieldNameAndType defined sub.name sub.coercedTo >>= fun info =>
    let fieldName := info.1
    let subPre := info.2.1
    let subPost := info.2.2.1
    let subType := info.2.2.2
    if S.isVertexType subPost then
      -- an edge
      let nextVid := st.nextVid
      let nextEid := st.nextEid
      let st0 := { st with nextVid := nextVid + 1, nextEid := nextEid + 1 }
      st0.beginNestedScope nextVid sub.alias >>= fun st1 =>
      let inner : FRes (St × CD × List FrontErr) :=
        match conn.fold with
        | some fg =>
          let e1 := (if conn.optional then [FrontErr.UnsupportedDirectiveOnFoldedEdge] else []) ++
                    (if conn.recurse.isSome then [FrontErr.UnsupportedDirectiveOnFoldedEdge] else [])
          getEdgeDefinition S postType conn.name .edgeLookup >>= fun edgeDef =>
          makeEdgeParameters edgeDef conn.arguments >>= fun paramErrs =>
          if !paramErrs.isEmpty then .ok (st1, cd, e1 ++ paramErrs)
          else
            -- `make_fold`: push the component, `make_query_component`, then the rest
            fillNode S nextVid subPre subPost sub (foldEnter st1 nextVid) CD.empty >>=
            foldAfterFill S fg nextEid nextVid sub.name sub.alias (!sub.outputs.isEmpty) cd e1
        | none =>
          -- `edges.insert_or_error(next_eid, ..).expect(..)`
          if cd.edges.any (·.eid == nextEid) then .panic .edgeInsert
          else
            fillNode S nextVid subPre subPost sub st1
              { cd with edges := cd.edges ++ [⟨nextEid, cur, nextVid, conn⟩] }
      inner >>= fun r =>
      r.1.endNestedScope nextVid >>= fun st3 =>
      fillConnections S cur postType defined rest st3 r.2.1 (errs ++ r.2.2)
    else if isBuiltinScalar subPost || S.scalars.contains subPost || fieldName == TYPENAME then
      fillProperty cur conn sub.name sub.alias sub.filters sub.outputs sub.tags fieldName subType st cd
      >>= fun r =>
      fillConnections S cur postType defined rest r.1 r.2.1 (errs ++ r.2.2)
    else .panic .fieldKind
end

/-- `fill_in_query_variables`: the `variables` map and the errors. -/
def fillVariablesStep (vars : List (String × FTy)) (errs : List FrontErr) :
    List (String × FTy) → List (String × FTy) × List FrontErr
  | [] => (vars, errs)
  | (n, t) :: rest =>
    match vars.find? (·.1 == n) with
    | none =>
      -- `or_insert_with(type)`, then `existing.intersect(type)` with itself
      fillVariablesStep (vars ++ [(n, t)]) errs rest
    | some (_, existing) =>
      match existing.intersect t with
      | some i => fillVariablesStep (vars.map (fun kv => if kv.1 == n then (n, i) else kv)) errs rest
      | none => fillVariablesStep vars (errs ++ [.IncompatibleVariableTypeRequirements]) rest

mutual
def fillVariables (vars : List (String × FTy)) (errs : List FrontErr) :
    CompIR → List (String × FTy) × List FrontErr
  | .mk _ uses _ folds =>
    let r := fillVariablesStep vars errs (uses ++ folds.flatMap (·.1))
    fillVariablesFolds r.1 r.2 folds
def fillVariablesFolds (vars : List (String × FTy)) (errs : List FrontErr) :
    List FoldIR → List (String × FTy) × List FrontErr
  | [] => (vars, errs)
  | (_, _, c) :: rest =>
    let r := fillVariables vars errs c
    fillVariablesFolds r.1 r.2 rest
end

/-- `get_output_type`'s loop: `new_list_type` once per enclosing `@fold`. -/
def wrapOutputType (t : FTy) : Nat → Option FTy
  | 0 => some t
  | k + 1 =>
    match FTy.newListType t false with
    | none => none
    | some t' => wrapOutputType t' k

mutual
/-- `add_data_from_component` of `ir/indexed.rs`, reduced to the calls of `get_output_type`
(`depth` = number of enclosing folds). `false` = `new_list_type` panicked. -/
def outputTypesOk (depth : Nat) : CompIR → Bool
  | .mk _ _ outputs folds =>
    outputs.all (fun t => (wrapOutputType t depth).isSome) && outputTypesOkFolds depth folds
def outputTypesOkFolds (depth : Nat) : List FoldIR → Bool
  | [] => true
  | (_, nCountOutputs, c) :: rest =>
    (nCountOutputs == 0 || (wrapOutputType (FTy.named "Int" false) depth).isSome) &&
    outputTypesOk (depth + 1) c && outputTypesOkFolds depth rest
end

/-- `From<Vec<FrontendError>> for FrontendError`: `assert!(!v.is_empty())`. -/
def errorsInto (es : List FrontErr) : Res CompileErr Unit :=
  if es.isEmpty then .panic .emptyErrors else .err (.frontend es)

/-- Embedding of the steps that report errors as data (they never use `err`). -/
def FRes.lift {α : Type} : FRes α → Res CompileErr α
  | .ok a => .ok a
  | .err _ => .err (.frontend [])
  | .panic s => .panic s

/-- `make_ir_for_query` followed by the `IndexedQuery` conversion of `frontend::parse`. -/
def makeIrForQuery (S : SchemaView) (q : Query) : Res CompileErr Unit :=
  match validateQuery S q with
  | .panic s => .panic s
  | .err e => .err (.frontend [e])
  | .ok () =>
    FRes.lift (getVertexFieldDefinitions S S.queryType) >>= fun queryFields =>
    FRes.lift (getFieldNameAndType queryFields q.rootField.name q.rootField.coercedTo) >>= fun info =>
    let rootName := info.1
    let pre := info.2.1
    let post := info.2.2.1
    FRes.lift (getEdgeDefinition S S.queryType rootName .rootEdgeLookup) >>= fun rootEdge =>
    FRes.lift (makeEdgeParameters rootEdge q.rootConnection.arguments) >>= fun paramErrs =>
    let st0 : St := ⟨2, 1, [1], [], [], [], [], [], [], []⟩
    let st1 := st0.outputsBeginSubcomponent
    FRes.lift (fillNode S 1 pre post q.rootField st1 CD.empty) >>= fun r =>
    FRes.lift (componentPost S r.1 r.2.1 r.2.2) >>= fun c =>
    match c.2 with
    | .error es => errorsInto (paramErrs ++ es)
    | .ok comp =>
      let st := c.1
      let varErrs := (fillVariables [] [] comp).2
      let tagErrs := if st.unusedTags.isEmpty then [] else [FrontErr.UnusedTags]
      -- `output_handler.finish()`
      if !(st.vidStack.isEmpty && st.outStack.isEmpty) then .panic .outputsFinish
      else
        let dupErrs : Res CompileErr (List FrontErr) :=
          if !(duplicateNames st.globalOutputs).isEmpty then
            if (duplicateRefs st.globalOutputs).all (fun f => (collectVids comp).contains f.vid) then
              .ok [.MultipleOutputsWithSameName]
            else .panic .dupOutputGlobalIndex
          else .ok []
        dupErrs >>= fun dupErrs =>
        let errors := paramErrs ++ varErrs ++ tagErrs ++ dupErrs
        if !errors.isEmpty then errorsInto errors
        else if outputTypesOk 0 comp then .ok ()
        else .panic .outputListDepth

/-- `frontend::parse` minus the text parser. -/
def compile (S : SchemaView) (doc : Doc) : Res CompileErr Unit :=
  match parseDocument doc with
  | .panic s => .panic s
  | .err e => .err (.parse e)
  | .ok q => makeIrForQuery S q

end TF.FE
