/-
Model of the query hints of `trustfall_core/src/interpreter/hints/{mod.rs, vertex_info.rs,
filters.rs, dynamic.rs}` (all non-test code) on the IR of `Model/IR.lean`.

Part 1 (C05): `VertexInfo::required_properties` (`requiredProps`), the static set of
`resolve_property` call sites of the engine (`propSites`, read off `Model/Interp.lean`, i.e.
`execution.rs`), and the wrapper adapter that refuses every property not in a given set.

Part 2 (C04): `statically_required_property` (`staticCandidate`), `dynamically_required_property` +
`DynamicallyResolvedValue::resolve` (`dynamicChoice`, `dynamicCandidate`), `EdgeInfo::is_mandatory`,
`edges_with_name` / `mandatory_edges_with_name`, `fold_requires_at_least_one_element`, the
non-binding scopes of `NeighborInfo`, and the pruning adapter.

What is mirrored, exactly as coded:
* `ResolveInfo`/`NeighborInfo::current_component` is `indexed_query.vids[&vid]`, the component that
  contains the vertex (`locate`: the sub-components in pre-order, first hit; `IndexedQuery` refuses
  an IR in which a Vid occurs twice, so the order never matters on accepted queries);
* `required_properties` = outputs *of that component* at the vertex (`BTreeMap` order = name order,
  the order of the IR text) ++ the subjects of the vertex's own filters ++ the fields of the
  context-field tags *used by filters of vertices of that component* that point at the vertex, with
  later repetitions dropped (`HashSet::insert` filter);
* the static candidate of `filters.rs::candidate_from_statically_evaluated_filters` and the dynamic
  one of `dynamic.rs`, branch by branch, `Range::with_start/with_end` going through `Range::new`
  (null bound ⇒ assertion panic).

Core Lean only (compiled into the native driver).
-/
import TrustfallModel.Model.Interp
import TrustfallModel.Model.Candidates

namespace TF.Engine
open TF

/-! ## Part 1: required properties -/

mutual
/-- A component and all components nested in it through folds, in pre-order. -/
def subComps : Component → List Component
  | .mk r vs es fs o => .mk r vs es fs o :: subCompsF fs
def subCompsF : List Fold → List Component
  | [] => []
  | .mk _ _ _ _ _ c _ _ _ :: rest => subComps c ++ subCompsF rest
end

/-- the Vids of the vertices of one component -/
def Component.vids (c : Component) : List Vid := c.vertices.map (·.vid)

/-- all Vids of a query, component by component -/
def allVids (ir : IRQuery) : List Vid := (subComps ir.rootComponent).flatMap Component.vids

/-- `indexed_query.vids[&vid]` followed by `component.vertices[&vid]`. -/
def locateIn (vid : Vid) : List Component → Option (Component × IRVertex)
  | [] => none
  | c :: rest =>
    match c.vertex? vid with
    | some v => some (c, v)
    | none => locateIn vid rest

def locate (ir : IRQuery) (vid : Vid) : Option (Component × IRVertex) :=
  locateIn vid (subComps ir.rootComponent)

/-- `f.left().field_name` of a vertex filter (`Operation<LocalField, Argument>`). -/
def filterSubject (f : IRFilter) : Option Name :=
  match f.left with
  | .loc n _ => some n
  | .count => none

/-- the third chain of `required_properties`: the filter's right operand is a context-field tag
pointing at vertex `vid` -/
def tagUseOf (vid : Vid) (f : IRFilter) : Option Name :=
  match f.right with
  | some (.tag (.ctx v field _)) => if vid == v then some field else none
  | _ => none

/-- `properties.filter(move |r| seen_property.insert(r.name.clone()))`: first occurrences, in order. -/
def dedupNames : List Name → List Name
  | [] => []
  | x :: xs => x :: (dedupNames xs).filter (fun y => !(y == x))

/-- `VertexInfo::required_properties` for vertex `v` of component `comp`. -/
def requiredPropsAt (comp : Component) (v : IRVertex) : List Name :=
  dedupNames
    (((comp.outputs.filter (fun o => o.vid == v.vid)).map (·.field))
      ++ v.filters.filterMap filterSubject
      ++ comp.vertices.flatMap (fun w => w.filters.filterMap (tagUseOf v.vid)))

/-- `required_properties()` of the `ResolveInfo` / `NeighborInfo` of vertex `vid` (a hint object
exists only for Vids of the query: the `[]` of the `none` arm is never reported). -/
def requiredProps (ir : IRQuery) (vid : Vid) : List Name :=
  match locate ir vid with
  | some (comp, v) => requiredPropsAt comp v
  | none => []

/-! ### the `resolve_property` call sites of the engine, statically -/

/-- The property a tag operand makes `apply_filter` resolve while filtering at `currentVid` inside
component `comp`: the same-vertex path (`vid == currentVid`, type name from
`component.vertices[&current_vid]`) and the other-vertex-of-this-component path call
`resolve_property` at the tag's vertex; tags of outer components and fold-count tags do not. -/
def refSites (comp : Component) (_currentVid : Vid) : FieldRef → List (Vid × Name)
  | .ctx vid field _ => if (comp.vertex? vid).isSome then [(vid, field)] else []
  | .fcount _ _ => []

def tagSites (comp : Component) (currentVid : Vid) (f : IRFilter) : List (Vid × Name) :=
  match f.right with
  | some (.tag r) => refSites comp currentVid r
  | _ => []

/-- `compute_local_field` for the filter's subject + the tag operand. -/
def vertexSites (comp : Component) (v : IRVertex) : List (Vid × Name) :=
  v.filters.flatMap fun f =>
    (match f.left with
      | .loc n _ => [(v.vid, n)]
      | .count => []) ++ tagSites comp v.vid f

/-- `compute_fold`'s first loop: an imported context field is resolved at the tag's vertex (a
vertex of the parent component: `parent_component.vertices[&field.vertex_id]`). -/
def importSites (parent : Component) (r : FieldRef) : List (Vid × Name) :=
  match r with
  | .ctx vid field _ => if (parent.vertex? vid).isSome then [(vid, field)] else []
  | .fcount _ _ => []

/-- outputs are resolved at their vertex, a vertex of the same component
(`component.vertices[&vertex_id].type_name`) -/
def outputSites (c : Component) : List (Vid × Name) :=
  c.outputs.flatMap fun o => if (c.vertex? o.vid).isSome then [(o.vid, o.field)] else []

/-- The sites `compute_fold` adds for one fold of `parent`: imported tags, tag operands of the
post-filters (`apply_fold_specific_filter` filters "at" `fold.from_vid`), the fold's outputs. -/
def foldSites (parent : Component) (f : Fold) : List (Vid × Name) :=
  f.imports.flatMap (importSites parent) ++ f.post.flatMap (tagSites parent f.fromVid) ++ outputSites f.component

/-- the sites of one component, nested components excluded -/
def localSites (c : Component) : List (Vid × Name) :=
  c.vertices.flatMap (vertexSites c) ++ c.folds.flatMap (foldSites c)

/-- Every `(vid, property)` on which the engine can call `resolve_property` for this query. -/
def propSites (ir : IRQuery) : List (Vid × Name) :=
  outputSites ir.rootComponent ++ (subComps ir.rootComponent).flatMap localSites

/-- The part of the sites that F-3 is about: imported context-field tags and context-field tag
operands of fold post-filters. -/
def importedSites (c : Component) : List (Vid × Name) :=
  c.folds.flatMap fun f => f.imports.flatMap (importSites c) ++ f.post.flatMap (tagSites c f.fromVid)

/-! ### the checking wrapper adapter -/

/-- An adapter that refuses (`panic "required-props"`) every `resolve_property` call whose
`(vid, property)` is not admitted by `p`; everything else is passed through. -/
def Adapter.checkProps (a : Adapter) (p : Vid → Name → Bool) : Adapter :=
  { a with prop := fun vid t field v => if p vid field then a.prop vid t field v else .panic "required-props" }

def requiredOk (ir : IRQuery) (vid : Vid) (field : Name) : Bool := (requiredProps ir vid).contains field

end TF.Engine
