/-
Model of the query hints of `trustfall_core/src/interpreter/hints/{mod.rs, vertex_info.rs,
filters.rs, dynamic.rs}` (all non-test code) on the IR of `Model/IR.lean`.

Part 1 (C05): `VertexInfo::required_properties` (`requiredProps`), the static set of
`resolve_property` call sites of the engine (`propSites`, read off `Model/Interp.lean`, i.e.
`execution.rs`), and the wrapper adapter that refuses every property not in a given set.

Part 2 (C04): `statically_required_property` (`staticCandidate`), `dynamically_required_property` +
`DynamicallyResolvedValue::resolve` (`dynamicChoice`, `dynamicCandidate`), `EdgeInfo::is_mandatory`,
`edges_with_name` / `mandatory_edges_with_name`, `fold_requires_at_least_one_element`, the
non-binding scopes of `NeighborInfo`, and the pruning adapter.

What is mirrored, exactly as coded:
* `ResolveInfo`/`NeighborInfo::current_component` is `indexed_query.vids[&vid]`, the component that
  contains the vertex (`locate`: the sub-components in pre-order, first hit; `IndexedQuery` refuses
  an IR in which a Vid occurs twice, so the order never matters on accepted queries);
* `required_properties` = outputs *of that component* at the vertex (`BTreeMap` order = name order,
  the order of the IR text) ++ the subjects of the vertex's own filters ++ the fields of the
  context-field tags *used by filters of vertices of that component* that point at the vertex ++
  (since the repair of finding F-3) the tags of the vertex imported by the component's folds or used
  by their count filters, with later repetitions dropped (`HashSet::insert` filter);
* the static candidate of `filters.rs::candidate_from_statically_evaluated_filters` and the dynamic
  one of `dynamic.rs`, branch by branch, `Range::with_start/with_end` going through `Range::new`
  (null bound ⇒ assertion panic).

Core Lean only (compiled into the native driver).
-/
import TrustfallModel.Model.Interp
import TrustfallModel.Model.Candidates

namespace TF.Engine
open TF

/-! ## Part 1: required properties -/

mutual
/-- A component and all components nested in it through folds, in pre-order. -/
def subComps : Component → List Component
  | .mk r vs es fs o => .mk r vs es fs o :: subCompsF fs
def subCompsF : List Fold → List Component
  | [] => []
  | .mk _ _ _ _ _ c _ _ _ :: rest => subComps c ++ subCompsF rest
end

/-- the Vids of the vertices of one component -/
def Component.vids (c : Component) : List Vid := c.vertices.map (·.vid)

/-- all Vids of a query, component by component -/
def IRQuery.allVids (ir : IRQuery) : List Vid := (subComps ir.rootComponent).flatMap Component.vids

/-- `indexed_query.vids[&vid]` followed by `component.vertices[&vid]`. -/
def locateIn (vid : Vid) : List Component → Option (Component × IRVertex)
  | [] => none
  | c :: rest =>
    match c.vertex? vid with
    | some v => some (c, v)
    | none => locateIn vid rest

def locate (ir : IRQuery) (vid : Vid) : Option (Component × IRVertex) :=
  locateIn vid (subComps ir.rootComponent)

/-- `f.left().field_name` of a vertex filter (`Operation<LocalField, Argument>`). -/
def filterSubject (f : IRFilter) : Option Name :=
  match f.left with
  | .loc n _ => some n
  | .count => none

/-- the third chain of `required_properties`: the filter's right operand is a context-field tag
pointing at vertex `vid` -/
def tagUseOf (vid : Vid) (f : IRFilter) : Option Name :=
  match f.right with
  | some (.tag (.ctx v field _)) => if vid == v then some field else none
  | _ => none

/-- `properties.filter(move |r| seen_property.insert(r.name.clone()))`: first occurrences, in order. -/
def dedupNames : List Name → List Name
  | [] => []
  | x :: xs => x :: (dedupNames xs).filter (fun y => !(y == x))

/-- a context-field reference that points at vertex `vid` -/
def ctxFieldOf (vid : Vid) : FieldRef → Option Name
  | .ctx v field _ => if v == vid then some field else none
  | .fcount _ _ => none

/-- the tag operands of a fold's post-filters -/
def postTagRefs (f : Fold) : List FieldRef :=
  f.post.filterMap fun flt =>
    match flt.right with
    | some (.tag r) => some r
    | _ => none

/-- the fourth chain of `required_properties` (repair of finding F-3): tags of vertex `vid` that a
fold of the component imports, or that a filter on the fold's count uses -/
def foldTagUses (vid : Vid) (f : Fold) : List Name :=
  (f.imports ++ postTagRefs f).filterMap (ctxFieldOf vid)

/-- `VertexInfo::required_properties` for vertex `v` of component `comp`. -/
def requiredPropsAt (comp : Component) (v : IRVertex) : List Name :=
  dedupNames
    (((comp.outputs.filter (fun o => o.vid == v.vid)).map (·.field))
      ++ v.filters.filterMap filterSubject
      ++ comp.vertices.flatMap (fun w => w.filters.filterMap (tagUseOf v.vid))
      ++ comp.folds.flatMap (foldTagUses v.vid))

/-- `required_properties()` of the `ResolveInfo` / `NeighborInfo` of vertex `vid` (a hint object
exists only for Vids of the query: the `[]` of the `none` arm is never reported). -/
def requiredProps (ir : IRQuery) (vid : Vid) : List Name :=
  match locate ir vid with
  | some (comp, v) => requiredPropsAt comp v
  | none => []

/-! ### the `resolve_property` call sites of the engine, statically -/

/-- The property a tag operand makes `apply_filter` resolve while filtering at `currentVid` inside
component `comp`: the same-vertex path (`vid == currentVid`, type name from
`component.vertices[&current_vid]`) and the other-vertex-of-this-component path call
`resolve_property` at the tag's vertex; tags of outer components and fold-count tags do not. -/
def refSites (comp : Component) (_currentVid : Vid) : FieldRef → List (Vid × Name)
  | .ctx vid field _ => if (comp.vertex? vid).isSome then [(vid, field)] else []
  | .fcount _ _ => []

def tagSites (comp : Component) (currentVid : Vid) (f : IRFilter) : List (Vid × Name) :=
  match f.right with
  | some (.tag r) => refSites comp currentVid r
  | _ => []

/-- `compute_local_field` for the filter's subject + the tag operand. -/
def vertexSites (comp : Component) (v : IRVertex) : List (Vid × Name) :=
  v.filters.flatMap fun f =>
    (match f.left with
      | .loc n _ => [(v.vid, n)]
      | .count => []) ++ tagSites comp v.vid f

/-- `compute_fold`'s first loop: an imported context field is resolved at the tag's vertex (a
vertex of the parent component: `parent_component.vertices[&field.vertex_id]`). -/
def importSites (parent : Component) (r : FieldRef) : List (Vid × Name) :=
  match r with
  | .ctx vid field _ => if (parent.vertex? vid).isSome then [(vid, field)] else []
  | .fcount _ _ => []

/-- outputs are resolved at their vertex, a vertex of the same component
(`component.vertices[&vertex_id].type_name`) -/
def outputSites (c : Component) : List (Vid × Name) :=
  c.outputs.flatMap fun o => if (c.vertex? o.vid).isSome then [(o.vid, o.field)] else []

/-- The sites `compute_fold` adds for one fold of `parent`: imported tags, tag operands of the
post-filters (`apply_fold_specific_filter` filters "at" `fold.from_vid`), the fold's outputs. -/
def foldSites (parent : Component) (f : Fold) : List (Vid × Name) :=
  f.imports.flatMap (importSites parent) ++ f.post.flatMap (tagSites parent f.fromVid) ++ outputSites f.component

/-- the sites of one component, nested components excluded -/
def localSites (c : Component) : List (Vid × Name) :=
  c.vertices.flatMap (vertexSites c) ++ c.folds.flatMap (foldSites c)

/-- Every `(vid, property)` on which the engine can call `resolve_property` for this query. -/
def propSites (ir : IRQuery) : List (Vid × Name) :=
  outputSites ir.rootComponent ++ (subComps ir.rootComponent).flatMap localSites

/-- The part of the sites that F-3 is about: imported context-field tags and context-field tag
operands of fold post-filters. -/
def importedSites (c : Component) : List (Vid × Name) :=
  c.folds.flatMap fun f => f.imports.flatMap (importSites c) ++ f.post.flatMap (tagSites c f.fromVid)

/-! ### the checking wrapper adapter -/

/-- An adapter that refuses (`panic "required-props"`) every `resolve_property` call whose
`(vid, property)` is not admitted by `p`; everything else is passed through. -/
def Adapter.checkProps (a : Adapter) (p : Vid → Name → Bool) : Adapter :=
  { a with prop := fun vid t field v => if p vid field then a.prop vid t field v else .panic "required-props" }

def requiredOk (ir : IRQuery) (vid : Vid) (field : Name) : Bool := (requiredProps ir vid).contains field

/-! ## Part 2: candidate values, mandatory edges, binding scopes -/

def lookupArg (args : List (Name × Value)) (n : Name) : R Value :=
  match args.find? (·.1 == n) with
  | some (_, v) => .ok v
  | none => .panic "query_variables[variable_name]: missing"

/-- `Range::new` with its assertion as an `R` outcome. -/
def rangeNew (s e : Bound) (nullIncluded : Bool) : R Range :=
  match Range.new s e nullIncluded with
  | .ok r => .ok r
  | .panic => .panic "cannot bound range with null value"

/-- `Range::with_end(end, null_included)`. -/
def rangeWithEnd (e : Bound) (nullIncluded : Bool) : R Range := rangeNew .unbounded e nullIncluded
/-- `Range::with_start(start, null_included)`. -/
def rangeWithStart (s : Bound) (nullIncluded : Bool) : R Range := rangeNew s .unbounded nullIncluded

/-! ### `filters.rs::candidate_from_statically_evaluated_filters` -/

/-- The candidate one operator contributes for a known operand value (`Either::Left` arms of the
`partition_map`); `none`: the filter goes to the post-processing list (`Either::Right`).
`nullIncluded` is `true` in `filters.rs` ("nullability is handled by the initial candidate"). -/
def candidateOfStatic (o : Filter.BinOp) (value : Value) : R (Option Candidate) :=
  match o with
  | .equals => .ok (some (.single value))
  | .lessThan => (rangeWithEnd (.excluded value) true).map fun r => some (.range r)
  | .lessThanOrEqual => (rangeWithEnd (.included value) true).map fun r => some (.range r)
  | .greaterThan => (rangeWithStart (.excluded value) true).map fun r => some (.range r)
  | .greaterThanOrEqual => (rangeWithStart (.included value) true).map fun r => some (.range r)
  | .oneOf =>
    match value with
    | .list vs => .ok (some (.multiple vs))
    | _ => .panic "query variable was not list-typed"
  | .notEquals => .ok (if Cand.isNull value then some (.range Range.fullNonNull) else none)
  | _ => .ok none

inductive StaticPiece where
  | cand (c : Candidate)
  | post (f : IRFilter)

/-- one element of `relevant_filters` in the `partition_map` -/
def staticPiece (args : List (Name × Value)) (f : IRFilter) : R StaticPiece :=
  match f.op with
  | .un .isNull => .ok (.cand (.single .null))
  | .un .isNotNull => .ok (.cand (.range Range.fullNonNull))
  | .bin o =>
    match f.right with
    | some (.var n _) =>
      -- `argument_value = Some(&query_variables[name])`
      (lookupArg args n).bind fun value =>
      (candidateOfStatic o value).map fun
        | some c => .cand c
        | none => .post f
    | _ => .ok (.post f)      -- a tag operand (or none): `argument_value = None`

/-- The values a post-processing filter disallows (`!=`: the operand; `not_one_of`: its elements);
only filters with a variable operand are looked at. -/
def disallowedOf (args : List (Name × Value)) (f : IRFilter) : R (List Value) :=
  match f.right with
  | some (.var n _) =>
    (lookupArg args n).bind fun value =>
    match f.op with
    | .bin .notEquals => .ok [value]
    | .bin .notOneOf =>
      match value with
      | .list vs => .ok vs
      | _ => .panic "not_one_of operand was not a list"
    | _ => .ok []
  | _ => .ok []

def StaticPiece.cand? : StaticPiece → Option Candidate
  | .cand c => some c
  | .post _ => none
def StaticPiece.post? : StaticPiece → Option IRFilter
  | .cand _ => none
  | .post f => some f

def initialCandidate (nullable : Bool) : Candidate :=
  if nullable then .all else .range Range.fullNonNull

/-- `candidate_from_statically_evaluated_filters(relevant_filters, query_variables, nullable)`. -/
def staticCandidateOf (args : List (Name × Value)) (nullable : Bool) (fs : List IRFilter) :
    R (Option Candidate) :=
  (mapR (staticPiece args) fs).bind fun pieces =>
  let cands := pieces.filterMap StaticPiece.cand?
  let posts := pieces.filterMap StaticPiece.post?
  if cands.isEmpty then .ok none
  else
    let c := (cands.foldl Candidate.intersect (initialCandidate nullable)).normalize
    if posts.isEmpty then .ok (some c)
    else
      (flatMapR (disallowedOf args) posts).map fun disallowed =>
        some (disallowed.foldl Candidate.exclude c)

/-! ### hint objects -/

/-- `execution_frontier`: `Included(v)` — data of `v` is available; `Excluded(v)` — not yet. -/
inductive Frontier where
  | incl (v : Vid)
  | excl (v : Vid)
  deriving Repr, DecidableEq

/-- `(Bound::Unbounded, frontier).contains(&vid)`. -/
def Frontier.contains : Frontier → Vid → Bool
  | .incl f, v => v ≤ f
  | .excl f, v => v < f

/-- The fields of a `ResolveInfo` / `NeighborInfo` the hint methods look at. -/
structure VInfo where
  vid : Vid
  /-- `starting_vertex` (`ResolveInfo`: the vertex itself): `resolve_on_component` is its component -/
  startVid : Vid
  frontier : Frontier
  withinOptional : Bool
  locallyNonBinding : Bool
  /-- `ResolveInfo` (filters always bind; `make_*_edge_info` start a fresh scope) or `NeighborInfo` -/
  isResolveInfo : Bool
  deriving Repr

/-- `non_binding_filters()`. -/
def VInfo.nonBinding (i : VInfo) : Bool :=
  if i.isResolveInfo then false else i.withinOptional || i.locallyNonBinding

/-- `ResolveInfo::new(query, vid, vertex_completed)`. -/
def VInfo.resolve (vid : Vid) (completed : Bool) : VInfo :=
  ⟨vid, vid, if completed then .incl vid else .excl vid, false, false, true⟩

/-- `check_locally_non_binding_filters_for_edge`. -/
def locallyNonBindingEdge (e : IREdge) : Bool :=
  match e.recursive with
  | some r => decide (r.depth ≥ 2)
  | none => false

/-- `ResolveEdgeInfo::destination()` for a regular edge. -/
def VInfo.ofEdge (e : IREdge) : VInfo :=
  ⟨e.toVid, e.fromVid, .excl e.toVid, e.optional, locallyNonBindingEdge e, false⟩

/-- `ResolveEdgeInfo::destination()` for a fold ("we are *currently* resolving the folded edge"). -/
def VInfo.ofFold (f : Fold) : VInfo :=
  ⟨f.toVid, f.fromVid, .excl f.toVid, false, false, false⟩

/-! ### `statically_required_property` -/

/-- `filters_on_local_property`. -/
def filtersOn (v : IRVertex) (p : Name) : List IRFilter :=
  v.filters.filter fun f => filterSubject f == some p

def isStaticOperand (f : IRFilter) : Bool :=
  match f.right with
  | none => true
  | some (.var _ _) => true
  | some (.tag _) => false

/-- `field.field_type.nullable()` of the filter's subject. -/
def subjectNullable (f : IRFilter) : Bool :=
  match f.left with
  | .loc _ ty => ty.nulls.headD true
  | .count => false

/-- `statically_required_property(p)` on the hint object `i` of IR vertex `v`.  (The
`debug_assert!` that the result is not `Range(full)` is kept: it is live in debug builds.) -/
def staticallyRequired (args : List (Name × Value)) (i : VInfo) (v : IRVertex) (p : Name) :
    R (Option Candidate) :=
  if i.nonBinding then .ok none
  else
    match (filtersOn v p).filter isStaticOperand with
    | [] => .ok none
    | f0 :: rest =>
      (staticCandidateOf args (subjectNullable f0) (f0 :: rest)).bind fun c =>
        match c with
        | some (.range r) =>
          if Range.beq r Range.full then .panic "caught returning a range variant with a completely unrestricted range"
          else .ok c
        | _ => .ok c

/-! ### `dynamically_required_property` and `DynamicallyResolvedValue::resolve` -/

def isDynOp : FOp → Bool
  | .bin .equals | .bin .notEquals | .bin .lessThan | .bin .lessThanOrEqual | .bin .greaterThan
  | .bin .greaterThanOrEqual | .bin .oneOf => true
  | _ => false

def isOrderingOp : FOp → Bool
  | .bin .lessThan | .bin .lessThanOrEqual | .bin .greaterThan | .bin .greaterThanOrEqual => true
  | _ => false

/-- the `relevant_filters` of `dynamically_required_property` -/
def dynamicFilters (fr : Frontier) (v : IRVertex) (p : Name) : List IRFilter :=
  (filtersOn v p).filter fun f =>
    isDynOp f.op &&
      match f.right with
      | some (.tag (.ctx vid _ _)) => fr.contains vid
      | some (.tag (.fcount _ root)) => fr.contains root
      | _ => false

/-- What a `DynamicallyResolvedValue` carries: the tag, the bare operation, the initial candidate
(`resolve_on_component` is the component of `VInfo.startVid`). -/
structure DynChoice where
  field : FieldRef
  op : Filter.BinOp
  initial : Candidate

/-- `filter_to_use`: an `=` filter, else a `one_of`, else an ordering filter, else the first. -/
def filterToUse (first : IRFilter) (rel : List IRFilter) : IRFilter :=
  match rel.find? (fun f => f.op == .bin .equals) with
  | some f => f
  | none =>
    match rel.find? (fun f => f.op == .bin .oneOf) with
    | some f => f
    | none =>
      match rel.find? (fun f => isOrderingOp f.op) with
      | some f => f
      | none => first

/-- `dynamically_required_property(p)`. -/
def dynamicallyRequired (args : List (Name × Value)) (i : VInfo) (v : IRVertex) (p : Name) :
    R (Option DynChoice) :=
  if i.nonBinding then .ok none
  else
    match dynamicFilters i.frontier v p with
    | [] => .ok none
    | first :: rest =>
      (staticallyRequired args i v p).bind fun st =>
      let initial := st.getD (initialCandidate (subjectNullable first))
      let use := filterToUse first (first :: rest)
      match use.right, use.op with
      | some (.tag r), .bin o => .ok (some ⟨r, o, initial⟩)
      | some (.tag _), .un _ => .panic "removing operands failed"
      | some (.var _ _), _ => .panic "operand was not a tag"
      | none, _ => .panic "filter did not have an operand"

/-- `range_candidate` of `dynamic.rs` (context-field / imported-tag paths): an ordering comparison
against a null tag value is never satisfied, so no value is a candidate; otherwise the range.
(Repair of finding F-2: before it the null value went into `Range::with_end/with_start` and hit the
assertion of `Range::new`.)  On the fold-count path (`nullCheck = false`) the value is a count,
never null, and the code builds the range directly. -/
def rangeCandidateOfTag (nullCheck : Bool) (value : Value) (mk : R Range) (initial : Candidate) :
    R Candidate :=
  if nullCheck && Cand.isNull value then .ok (initial.intersect .impossible)
  else mk.map fun r => initial.intersect (.range r)

/-- `compute_candidate_from_operation` / `resolve_fold_specific_field` for one context: the
candidate for a tag value.  `nullIncluded` = `true` on the context-field and imported-tag paths,
`false` on the fold-count path.  Both `GreaterThanOrEqual` arms of `dynamic.rs` build
`Range::with_end` (finding F-1).  A null tag value under an ordering operator or `one_of` yields the
empty candidate on the context-field / imported-tag paths (findings F-2 / F-2b, repaired). -/
def candidateOfTag (nullIncluded : Bool) (o : Filter.BinOp) (t : Tagged) (initial : Candidate) :
    R Candidate :=
  match t with
  | .nonexistent => .ok initial
  | .some value =>
    match o with
    | .equals => .ok (initial.intersect (.single value))
    | .notEquals => .ok (initial.exclude value)
    | .lessThan =>
      rangeCandidateOfTag nullIncluded value (rangeWithEnd (.excluded value) nullIncluded) initial
    | .lessThanOrEqual =>
      rangeCandidateOfTag nullIncluded value (rangeWithEnd (.included value) nullIncluded) initial
    | .greaterThan =>
      rangeCandidateOfTag nullIncluded value (rangeWithStart (.excluded value) nullIncluded) initial
    | .greaterThanOrEqual =>
      rangeCandidateOfTag nullIncluded value (rangeWithEnd (.included value) nullIncluded) initial
    | .oneOf =>
      match value with
      | .list vs => .ok (initial.intersect (.multiple vs))
      | .null =>
        -- `one_of` against a null list is never satisfied (fold-count path: not reachable, panics)
        if nullIncluded then .ok (initial.intersect (.multiple []))
        else .panic "produced an invalid value when resolving @tag"
      | _ => .panic "produced an invalid value when resolving @tag"
    | _ => .panic "unsupported 'operation': unreachable!"

/-- The repaired `>=` arm (`Range::with_start`), used to state what F-1 breaks. -/
def candidateOfTagFixedGe (nullIncluded : Bool) (value : Value) (initial : Candidate) : R Candidate :=
  (rangeWithStart (.included value) nullIncluded).map fun r => initial.intersect (.range r)

/-- How `resolve` fetches the tag value for one context (`c.active` = the vertex whose neighbours are
being resolved): imported tags when the tag's vertex / fold root precedes the root of
`resolve_on_component`, else `compute_context_field_with_separate_value` /
`compute_fold_specific_field_with_separate_value`. -/
def resolveTagValue (env : Env) (comp : Component) (r : FieldRef) (c : Ctx) : R Tagged :=
  match r with
  | .ctx vid field _ =>
    if vid < comp.root then
      match c.tag? (.ctx vid field) with
      | some t => .ok t
      | none => .panic "ctx.imported_tags[&field_ref]"
    else
      match comp.vertex? vid with
      | some vx =>
        match c.vertexAt? vid with
        | some target =>
          (env.adapter.prop vid vx.typeName field target).map fun value =>
            match target with
            | some _ => Tagged.some value
            | none => Tagged.nonexistent
        | none => .panic "context.vertices[&vertex_id]"
      | none =>
        match c.tag? (.ctx vid field) with
        | some t => .ok t
        | none => .panic "context.imported_tags[&field_ref]"
  | .fcount eid root =>
    if root < comp.root then
      match c.tag? (.fcount eid) with
      | some t => .ok t
      | none => .panic "ctx.imported_tags[&field_ref]"
    else
      match c.foldCount? eid with
      | some none => .ok .nonexistent
      | some (some n) => .ok (.some (.uint64 (UInt64.ofNat n)))
      | none => .panic "ctx.folded_contexts[&fold_eid]"

/-- `DynamicallyResolvedValue::resolve` for one context. -/
def resolveDynamic (env : Env) (ir : IRQuery) (i : VInfo) (d : DynChoice) (c : Ctx) : R Candidate :=
  match locate ir i.startVid with
  | none => .panic "indexed_query.vids[&starting_vertex]"
  | some (comp, _) =>
    (resolveTagValue env comp d.field c).bind fun t =>
      match d.field with
      | .ctx _ _ _ => candidateOfTag true d.op t d.initial
      | .fcount _ root =>
        -- the imported-tag path goes through `compute_candidate_from_operation` (null included)
        candidateOfTag (decide (root < comp.root)) d.op t d.initial

/-! ### edges: `edges_with_name`, `is_mandatory`, `fold_requires_at_least_one_element` -/

/-- `FieldValue::as_u64`. -/
def asU64 : Value → Option Nat
  | .uint64 u => some u.toNat
  | .int64 i => if 0 ≤ i.toInt then some i.toInt.toNat else none
  | _ => none

/-- `fold_requires_at_least_one_element(query_variables, fold)`. -/
def foldRequiresAtLeastOne (args : List (Name × Value)) (post : List IRFilter) : R Bool :=
  (staticCandidateOf args false post).map fun c =>
    match c with
    | none => false
    | some .impossible => false
    | some (.single x) => decide ((asU64 x).getD 0 ≥ 1)
    | some (.multiple xs) => xs.all fun x => decide ((asU64 x).getD 0 ≥ 1)
    | some (.range r) =>
      match r.start with
      | .included x => decide ((asU64 x).getD 0 ≥ 1)
      | .excluded x => (asU64 x).isSome
      | .unbounded => false
    | some .all => false

inductive FoldState where
  | none | foldedOptional | foldedMandatory
  deriving Repr, DecidableEq

/-- `EdgeInfo`. -/
structure EInfo where
  eid : Eid
  name : Name
  params : Params
  optional : Bool
  recursive : Bool
  folded : FoldState
  destination : VInfo
  deriving Repr

/-- `EdgeInfo::is_mandatory`. -/
def EInfo.isMandatory (e : EInfo) : Bool :=
  !(e.folded == .foldedOptional) && !e.optional && !e.recursive

/-- `make_non_folded_edge_info` (`ResolveInfo`: the scope starts at the edge; `NeighborInfo`: the
scope of the current hint object is inherited, or opened by the edge's own `optional` flag — before
the repair of finding F-C04-1 the `NeighborInfo` version forgot the edge's flag). -/
def VInfo.nonFoldedEdge (i : VInfo) (e : IREdge) : EInfo :=
  { eid := e.eid, name := e.name, params := e.params, optional := e.optional,
    recursive := e.recursive.isSome, folded := .none,
    destination :=
      { vid := e.toVid, startVid := i.startVid, frontier := i.frontier,
        withinOptional := if i.isResolveInfo then e.optional else i.withinOptional || e.optional,
        locallyNonBinding := locallyNonBindingEdge e, isResolveInfo := false } }

/-- `make_folded_edge_info`. -/
def VInfo.foldedEdge (args : List (Name × Value)) (i : VInfo) (f : Fold) : R EInfo :=
  (foldRequiresAtLeastOne args f.post).map fun atLeastOne =>
    { eid := f.eid, name := f.name, params := f.params, optional := false, recursive := false,
      folded := if atLeastOne then .foldedMandatory else .foldedOptional,
      destination :=
        { vid := f.toVid, startVid := i.startVid, frontier := i.frontier,
          withinOptional :=
            if i.isResolveInfo then !atLeastOne else i.withinOptional || !atLeastOne,
          locallyNonBinding := false, isResolveInfo := false } }

/-- `edges_with_name(name)` of the hint object `i` (its vertex lives in `comp`): the component's
regular edges from the vertex in Eid order, then its folds. -/
def edgesWithName (args : List (Name × Value)) (comp : Component) (i : VInfo) (name : Name) :
    R (List EInfo) :=
  let regular := (comp.edges.filter fun e => e.fromVid == i.vid && e.name == name).map i.nonFoldedEdge
  (mapR (i.foldedEdge args) (comp.folds.filter fun f => f.fromVid == i.vid && f.name == name)).map
    fun folded => regular ++ folded

/-- `mandatory_edges_with_name(name)`. -/
def mandatoryEdgesWithName (args : List (Name × Value)) (comp : Component) (i : VInfo) (name : Name) :
    R (List EInfo) :=
  if i.nonBinding then .ok []
  else (edgesWithName args comp i name).map fun es => es.filter EInfo.isMandatory

/-- the distinct names of the edges and folds leaving vertex `vid` of `comp` -/
def outgoingNames (comp : Component) (vid : Vid) : List Name :=
  dedupNames (((comp.edges.filter fun e => e.fromVid == vid).map (·.name)) ++
    ((comp.folds.filter fun f => f.fromVid == vid).map (·.name)))

/-- all mandatory edges of the hint object, over every edge name leaving its vertex -/
def mandatoryEdges (args : List (Name × Value)) (comp : Component) (i : VInfo) : R (List EInfo) :=
  flatMapR (mandatoryEdgesWithName args comp i) (outgoingNames comp i.vid)

/-! ### the pruning adapter -/

/-- the distinct filter subjects of a vertex (the only properties with a static candidate) -/
def filterSubjects (v : IRVertex) : List Name := dedupNames (v.filters.filterMap filterSubject)

def allR {α : Type} (f : α → R Bool) : List α → R Bool
  | [] => .ok true
  | x :: xs => (f x).bind fun b => if b then allR f xs else .ok false

def anyR {α : Type} (f : α → R Bool) : List α → R Bool
  | [] => .ok false
  | x :: xs => (f x).bind fun b => if b then .ok true else anyR f xs

/-- Does data vertex `x` satisfy every static candidate the hint object `i` reports? -/
def passesStatic (ir : IRQuery) (args : List (Name × Value)) (d : Data) (i : VInfo) (x : VertexId) :
    R Bool :=
  match locate ir i.vid with
  | none => .panic "indexed_query.vids[&vid]"
  | some (_, v) =>
    allR (fun p => (staticallyRequired args i v p).map fun
      | none => true
      | some c => c.mem (d.prop x p)) (filterSubjects v)

/-- `keep fuel i x`: `x` satisfies the static candidates of `i`, and for every edge `i` reports as
mandatory it has a neighbour (along that edge, with the edge's parameters) that is kept by the
hints of the edge's destination — the look-ahead an adapter performs with
`first_mandatory_edge(..).destination()`. -/
def keepVertex (ir : IRQuery) (args : List (Name × Value)) (d : Data) :
    Nat → VInfo → VertexId → R Bool
  | 0, _, _ => .fuel
  | fuel + 1, i, x =>
    (passesStatic ir args d i x).bind fun ok =>
      if !ok then .ok false
      else
        match locate ir i.vid with
        | none => .panic "indexed_query.vids[&vid]"
        | some (comp, _) =>
          (mandatoryEdges args comp i).bind fun es =>
            allR (fun (e : EInfo) =>
              anyR (keepVertex ir args d fuel e.destination) (d.nbrs x e.name e.params)) es

def filterR {α : Type} (f : α → R Bool) : List α → R (List α)
  | [] => .ok []
  | x :: xs => (f x).bind fun b => (filterR f xs).map fun r => if b then x :: r else r

/-- the Eids of the edges and folds of one component -/
def Component.eids (c : Component) : List Eid := c.edges.map (·.eid) ++ c.folds.map (·.eid)

/-- all Eids of a query, component by component -/
def IRQuery.allEids (ir : IRQuery) : List Eid := (subComps ir.rootComponent).flatMap Component.eids

/-- `indexed_query.eids[&eid]` (`IndexedQuery` refuses an IR in which an Eid occurs twice, so the
search order never matters on accepted queries). -/
def findEdgeIn (eid : Eid) : List Component → Option (IREdge ⊕ Fold)
  | [] => none
  | c :: rest =>
    match c.edges.find? (·.eid == eid) with
    | some e => some (.inl e)
    | none =>
      match c.folds.find? (·.eid == eid) with
      | some f => some (.inr f)
      | none => findEdgeIn eid rest

/-- `indexed_query.eids[&eid]` followed by `ResolveEdgeInfo::destination()`. -/
def destinationOf (ir : IRQuery) (eid : Eid) : Option VInfo :=
  match findEdgeIn eid (subComps ir.rootComponent) with
  | some (.inl e) => some (VInfo.ofEdge e)
  | some (.inr f) => some (VInfo.ofFold f)
  | none => none

/-- The table adapter that *uses* the static hints: at `resolve_starting_vertices` and at
`resolve_neighbors` it drops every destination vertex that `keepVertex` rejects for the hint object
of the call (`ResolveInfo` of the root, not completed; `resolve_info.destination()` of the edge). -/
def pruneAdapter (ir : IRQuery) (args : List (Name × Value)) (d : Data) : Adapter :=
  { d.adapter with
    start := fun edge ps vid =>
      filterR (keepVertex ir args d 64 (VInfo.resolve vid false)) (d.start edge ps)
    nbrs := fun eid _ edge ps v =>
      match destinationOf ir eid with
      | none => .panic "indexed_query.eids[&eid]"
      | some i => filterR (keepVertex ir args d 64 i) (d.nbrsOpt v edge ps) }

/-- The same with the static candidates only (no mandatory-edge look-ahead). -/
def pruneStaticAdapter (ir : IRQuery) (args : List (Name × Value)) (d : Data) : Adapter :=
  { d.adapter with
    start := fun edge ps vid =>
      filterR (passesStatic ir args d (VInfo.resolve vid false)) (d.start edge ps)
    nbrs := fun eid _ edge ps v =>
      match destinationOf ir eid with
      | none => .panic "indexed_query.eids[&eid]"
      | some i => filterR (passesStatic ir args d i) (d.nbrsOpt v edge ps) }

end TF.Engine
