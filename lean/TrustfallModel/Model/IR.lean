/-
Model of the IR (`trustfall_core/src/ir/mod.rs`) as the engine sees it, of the dataset / adapter
tables, and the parsers for the engine line protocol (ENGINE_PROTOCOL.md).

Representation: `Vid`/`Eid` are `Nat`; ordered maps are association lists in key order (the
harness renders `BTreeMap`s in their iteration order); names are `String` atoms restricted to
ASCII identifiers; a type is its base name plus the nullability flags from the outermost list
level to the base.
-/
import TrustfallModel.Model.Filter
import TrustfallModel.Model.Sexp

namespace TF.Engine
open TF

abbrev Vid := Nat
abbrev Eid := Nat
abbrev Name := String
abbrev VertexId := Nat

/-- Result of running a piece of the engine: a value, a Rust panic (with the site, for
diagnostics only), or exhaustion of the nesting fuel of the model (never reached when the fuel is
at least the fold-nesting depth of the query). -/
inductive R (α : Type) where
  | ok (a : α)
  | panic (site : String)
  | fuel
  deriving Repr

namespace R
def bind {α β : Type} : R α → (α → R β) → R β
  | ok a, f => f a
  | panic s, _ => panic s
  | fuel, _ => fuel
def map {α β : Type} (f : α → β) : R α → R β
  | ok a => ok (f a)
  | panic s => panic s
  | fuel => fuel
instance : Monad R where
  pure := ok
  bind := bind
def ofOutcome {α : Type} (site : String) : Outcome α → R α
  | .ok a => ok a
  | .panic => panic site
def ofOption {α : Type} (site : String) : Option α → R α
  | some a => ok a
  | none => panic site
end R

/-- Structural view of `ir::Type`: base name and nullability flags, outermost level first; the
last flag is the base's own. `[Int!]` is `⟨"Int", [true, false]⟩`. -/
structure QTy where
  base : Name
  nulls : List Bool
  deriving Repr, BEq, DecidableEq, Inhabited

abbrev Params := List (Name × Value)

/-- `ir::FieldRef` (the only `FoldSpecificFieldKind` is `Count`). -/
inductive FieldRef where
  | ctx (vid : Vid) (field : Name) (ty : QTy)
  | fcount (eid : Eid) (rootVid : Vid)
  deriving Repr, Inhabited

/-- The key under which a `FieldRef` lives in `imported_tags` (`impl Ord for FieldRef`: context
fields compare by `(vertex_id, field_name)`, fold-specific fields by `(fold_eid, kind)`, and every
context field sorts before every fold-specific field). -/
inductive TagKey where
  | ctx (vid : Vid) (field : Name)
  | fcount (eid : Eid)
  deriving Repr, BEq, DecidableEq, Inhabited

def FieldRef.key : FieldRef → TagKey
  | .ctx v f _ => .ctx v f
  | .fcount e _ => .fcount e

inductive Arg where
  | var (name : Name) (ty : QTy)
  | tag (r : FieldRef)
  deriving Repr, Inhabited

inductive Left where
  | loc (field : Name) (ty : QTy)
  | count
  deriving Repr, Inhabited

inductive FOp where
  | un (o : Filter.UnOp)
  | bin (o : Filter.BinOp)
  deriving Repr, DecidableEq

instance : Inhabited FOp := ⟨.un .isNull⟩

structure IRFilter where
  op : FOp
  left : Left
  right : Option Arg
  deriving Repr, Inhabited

structure IRVertex where
  vid : Vid
  typeName : Name
  coercedFrom : Option Name
  filters : List IRFilter
  deriving Repr, Inhabited

structure Recursive where
  depth : Nat
  coerceTo : Option Name
  deriving Repr, Inhabited

structure IREdge where
  eid : Eid
  fromVid : Vid
  toVid : Vid
  name : Name
  params : Params
  optional : Bool
  recursive : Option Recursive
  deriving Repr, Inhabited

structure OutputDef where
  name : Name
  vid : Vid
  field : Name
  ty : QTy
  deriving Repr, Inhabited

mutual
inductive Component where
  | mk (root : Vid) (vertices : List IRVertex) (edges : List IREdge) (folds : List Fold)
      (outputs : List OutputDef)
inductive Fold where
  | mk (eid : Eid) (fromVid toVid : Vid) (name : Name) (params : Params) (component : Component)
      (imports : List FieldRef) (fouts : List Name) (post : List IRFilter)
end

instance : Inhabited Component := ⟨.mk 0 [] [] [] []⟩
instance : Inhabited Fold := ⟨.mk 0 0 0 "" [] default [] [] []⟩

namespace Component
def root : Component → Vid | .mk r _ _ _ _ => r
def vertices : Component → List IRVertex | .mk _ v _ _ _ => v
def edges : Component → List IREdge | .mk _ _ e _ _ => e
def folds : Component → List Fold | .mk _ _ _ f _ => f
def outputs : Component → List OutputDef | .mk _ _ _ _ o => o
def vertex? (c : Component) (v : Vid) : Option IRVertex := c.vertices.find? (·.vid == v)
end Component

namespace Fold
def eid : Fold → Eid | .mk e _ _ _ _ _ _ _ _ => e
def fromVid : Fold → Vid | .mk _ f _ _ _ _ _ _ _ => f
def toVid : Fold → Vid | .mk _ _ t _ _ _ _ _ _ => t
def name : Fold → Name | .mk _ _ _ n _ _ _ _ _ => n
def params : Fold → Params | .mk _ _ _ _ p _ _ _ _ => p
def component : Fold → Component | .mk _ _ _ _ _ c _ _ _ => c
def imports : Fold → List FieldRef | .mk _ _ _ _ _ _ i _ _ => i
def fouts : Fold → List Name | .mk _ _ _ _ _ _ _ o _ => o
def post : Fold → List IRFilter | .mk _ _ _ _ _ _ _ _ p => p
end Fold

structure IRQuery where
  rootName : Name
  rootParams : Params
  variables : List (Name × QTy)
  rootComponent : Component
  deriving Inhabited

/-! ### datasets (the adapter seen from the engine) -/

structure VertexData where
  id : VertexId
  typeName : Name
  props : List (Name × Value)
  deriving Repr, Inhabited

structure AdjEntry where
  vertex : VertexId
  edge : Name
  params : Params
  nbrs : List VertexId
  deriving Repr, Inhabited

structure StartEntry where
  edge : Name
  params : Params
  nbrs : List VertexId
  deriving Repr, Inhabited

structure Data where
  vertices : List VertexData
  adj : List AdjEntry
  starts : List StartEntry
  /-- regex table: pattern ↦ `none` (does not compile) or the list of matching subjects -/
  rx : List (Bytes × Option (List Bytes))
  /-- from the schema: every type with all its supertypes (itself included) -/
  sub : List (Name × List Name)
  deriving Inhabited

def paramsEq : Params → Params → Bool
  | [], [] => true
  | (n, v) :: ps, (m, w) :: qs => n == m && v == w && paramsEq ps qs
  | _, _ => false

namespace Data

def vertex? (d : Data) (v : VertexId) : Option VertexData := d.vertices.find? (·.id == v)

def typeOf (d : Data) (v : VertexId) : Name :=
  match d.vertex? v with
  | some vd => vd.typeName
  | none => ""

def strBytes (s : String) : Bytes := s.toUTF8.toList

/-- `resolve_property` of the table adapter for an existing vertex. -/
def prop (d : Data) (v : VertexId) (field : Name) : Value :=
  if field == "__typename" then .string (strBytes (d.typeOf v))
  else
    match d.vertex? v with
    | some vd => match vd.props.find? (·.1 == field) with
      | some (_, x) => x
      | none => .null
    | none => .null

/-- `resolve_property` honouring the contract for a missing active vertex. -/
def propOpt (d : Data) (v : Option VertexId) (field : Name) : Value :=
  match v with
  | some x => d.prop x field
  | none => .null

def nbrs (d : Data) (v : VertexId) (edge : Name) (ps : Params) : List VertexId :=
  match d.adj.find? (fun e => e.vertex == v && e.edge == edge && paramsEq e.params ps) with
  | some e => e.nbrs
  | none => []

def nbrsOpt (d : Data) (v : Option VertexId) (edge : Name) (ps : Params) : List VertexId :=
  match v with
  | some x => d.nbrs x edge ps
  | none => []

def start (d : Data) (edge : Name) (ps : Params) : List VertexId :=
  match d.starts.find? (fun e => e.edge == edge && paramsEq e.params ps) with
  | some e => e.nbrs
  | none => []

/-- all supertypes of `t`, itself included (the `(sub (<Type> <Super>…)…)` table lists the proper
supertypes after the type itself) -/
def supers (d : Data) (t : Name) : List Name :=
  match d.sub.find? (·.1 == t) with
  | some (_, l) => t :: l
  | none => [t]

/-- `resolve_coercion` for an existing vertex. -/
def isA (d : Data) (v : VertexId) (t : Name) : Bool := (d.supers (d.typeOf v)).contains t

def regex (d : Data) : Filter.RegexEngine := fun pat =>
  match d.rx.find? (·.1 == pat) with
  | some (_, some ms) => some (fun subj => ms.contains subj)
  | _ => none

end Data

/-! ### protocol parsers -/

open Sexp

def atomNat? : Sexp → Option Nat
  | .atom s => s.toNat?
  | _ => none

def atomName? : Sexp → Option Name
  | .atom s => some s
  | _ => none

def optName? : Sexp → Option (Option Name)
  | .atom "-" => some none
  | .atom s => some (some s)
  | _ => none

def listMapM {α β : Type} (f : α → Option β) : List α → Option (List β)
  | [] => some []
  | x :: xs => do
    let y ← f x
    let ys ← listMapM f xs
    pure (y :: ys)

def parseTy : Sexp → Option QTy
  | .list (.atom "T" :: .atom base :: flags) => do
    let fs ← listMapM (fun s => match s with
      | .atom "1" => some true
      | .atom "0" => some false
      | _ => none) flags
    if fs.isEmpty then none else pure ⟨base, fs⟩
  | _ => none

def parseParam : Sexp → Option (Name × Value)
  | .list [.atom n, v] => do pure (n, ← toValue v)
  | _ => none

def parseParams : Sexp → Option Params
  | .list (.atom "params" :: ps) => listMapM parseParam ps
  | _ => none

def parseFieldRef : Sexp → Option FieldRef
  | .list [.atom "ctx", v, .atom f, t] => do pure (.ctx (← atomNat? v) f (← parseTy t))
  | .list [.atom "fcount", e, r] => do pure (.fcount (← atomNat? e) (← atomNat? r))
  | _ => none

def parseOp : String → Option FOp
  | "is_null" => some (.un .isNull)
  | "is_not_null" => some (.un .isNotNull)
  | "eq" => some (.bin .equals)
  | "neq" => some (.bin .notEquals)
  | "lt" => some (.bin .lessThan)
  | "le" => some (.bin .lessThanOrEqual)
  | "gt" => some (.bin .greaterThan)
  | "ge" => some (.bin .greaterThanOrEqual)
  | "contains" => some (.bin .contains)
  | "not_contains" => some (.bin .notContains)
  | "one_of" => some (.bin .oneOf)
  | "not_one_of" => some (.bin .notOneOf)
  | "has_prefix" => some (.bin .hasPrefix)
  | "not_has_prefix" => some (.bin .notHasPrefix)
  | "has_suffix" => some (.bin .hasSuffix)
  | "not_has_suffix" => some (.bin .notHasSuffix)
  | "has_substring" => some (.bin .hasSubstring)
  | "not_has_substring" => some (.bin .notHasSubstring)
  | "regex" => some (.bin .regexMatches)
  | "not_regex" => some (.bin .notRegexMatches)
  | _ => none

def parseLeft : Sexp → Option Left
  | .atom "count" => some .count
  | .list [.atom "local", .atom f, t] => do pure (.loc f (← parseTy t))
  | _ => none

def parseArg : Sexp → Option (Option Arg)
  | .atom "-" => some none
  | .list [.atom "var", .atom n, t] => do pure (some (.var n (← parseTy t)))
  | .list [.atom "tag", r] => do pure (some (.tag (← parseFieldRef r)))
  | _ => none

def parseFilter : Sexp → Option IRFilter
  | .list [.atom op, l, r] => do pure ⟨← parseOp op, ← parseLeft l, ← parseArg r⟩
  | _ => none

def parseVertex : Sexp → Option IRVertex
  | .list [.atom "v", vid, .atom ty, cf, .list (.atom "filters" :: fs)] => do
    pure ⟨← atomNat? vid, ty, ← optName? cf, ← listMapM parseFilter fs⟩
  | _ => none

def parseRecursive : Sexp → Option (Option Recursive)
  | .atom "-" => some none
  | .list [.atom "rec", d, ct] => do pure (some ⟨← atomNat? d, ← optName? ct⟩)
  | _ => none

def parseEdge : Sexp → Option IREdge
  | .list [.atom "e", eid, f, t, .atom n, ps, .atom opt, r] => do
    pure ⟨← atomNat? eid, ← atomNat? f, ← atomNat? t, n, ← parseParams ps, opt == "1",
      ← parseRecursive r⟩
  | _ => none

def parseOutput : Sexp → Option OutputDef
  | .list [.atom n, vid, .atom f, t] => do pure ⟨n, ← atomNat? vid, f, ← parseTy t⟩
  | _ => none

def parseFout : Sexp → Option Name
  | .list [.atom n, .atom "count"] => some n
  | _ => none

mutual
def parseComponent : Sexp → Option Component
  | .list [.atom "comp", root, .list (.atom "vertices" :: vs), .list (.atom "edges" :: es),
      .list (.atom "folds" :: fs), .list (.atom "outputs" :: os)] => do
    pure (.mk (← atomNat? root) (← listMapM parseVertex vs) (← listMapM parseEdge es)
      (← parseFolds fs) (← listMapM parseOutput os))
  | _ => none
def parseFolds : List Sexp → Option (List Fold)
  | [] => some []
  | f :: fs => do
    let x ← parseFold f
    let xs ← parseFolds fs
    pure (x :: xs)
def parseFold : Sexp → Option Fold
  | .list [.atom "fold", eid, f, t, .atom n, ps, comp, .list (.atom "imports" :: is),
      .list (.atom "fouts" :: os), .list (.atom "post" :: pfs)] => do
    pure (.mk (← atomNat? eid) (← atomNat? f) (← atomNat? t) n (← parseParams ps)
      (← parseComponent comp) (← listMapM parseFieldRef is) (← listMapM parseFout os)
      (← listMapM parseFilter pfs))
  | _ => none
end

def parseVar : Sexp → Option (Name × QTy)
  | .list [.atom n, t] => do pure (n, ← parseTy t)
  | _ => none

def parseIR : Sexp → Option IRQuery
  | .list [.atom "ir", .list [.atom "root", .atom e, ps], .list (.atom "vars" :: vs), comp] => do
    pure ⟨e, ← parseParams ps, ← listMapM parseVar vs, ← parseComponent comp⟩
  | _ => none

def parseArgs : Sexp → Option (List (Name × Value))
  | .list (.atom "args" :: as) => listMapM parseParam as
  | _ => none

def parseVertexData : Sexp → Option VertexData
  | .list (vid :: .atom ty :: props) => do pure ⟨← atomNat? vid, ty, ← listMapM parseParam props⟩
  | _ => none

def parseNbrs : Sexp → Option (List VertexId)
  | .list (.atom "nbrs" :: vs) => listMapM atomNat? vs
  | _ => none

def parseAdj : Sexp → Option AdjEntry
  | .list [v, .atom e, ps, ns] => do pure ⟨← atomNat? v, e, ← parseParams ps, ← parseNbrs ns⟩
  | _ => none

def parseStart : Sexp → Option StartEntry
  | .list [.atom e, ps, ns] => do pure ⟨e, ← parseParams ps, ← parseNbrs ns⟩
  | _ => none

def parseRx : Sexp → Option (Bytes × Option (List Bytes))
  | .list [.atom p, .atom "0"] => do pure (← atomBytes p, none)
  | .list (.atom p :: .atom "1" :: ms) => do
    let subs ← listMapM (fun s => match s with | .atom a => atomBytes a | _ => none) ms
    pure (← atomBytes p, some subs)
  | _ => none

def parseSub : Sexp → Option (Name × List Name)
  | .list (.atom t :: sups) => do pure (t, ← listMapM atomName? sups)
  | _ => none

/-- The `(sub …)` section of a `(schema …)`. -/
def schemaSubs : Sexp → Option (List (Name × List Name))
  | .list (.atom "schema" :: secs) =>
    match secs.find? (fun s => match s with | .list (.atom "sub" :: _) => true | _ => false) with
    | some (.list (_ :: subs)) => listMapM parseSub subs
    | _ => none
  | _ => none

def parseData (schema : Sexp) : Sexp → Option Data
  | .list [.atom "data", .list (.atom "vertices" :: vs), .list (.atom "adj" :: as),
      .list (.atom "starts" :: ss), .list (.atom "rx" :: rs)] => do
    pure ⟨← listMapM parseVertexData vs, ← listMapM parseAdj as, ← listMapM parseStart ss,
      ← listMapM parseRx rs, ← schemaSubs schema⟩
  | _ => none

/-! ### shared small definitions -/

inductive Tagged where
  | nonexistent
  | some (v : Value)
  deriving Repr, Inhabited


/-! ### generic list helpers in the `R` monad -/

def mapR {α β : Type} (f : α → R β) : List α → R (List β)
  | [] => .ok []
  | x :: xs =>
    match f x with
    | .ok y =>
      match mapR f xs with
      | .ok ys => .ok (y :: ys)
      | .panic s => .panic s
      | .fuel => .fuel
    | .panic s => .panic s
    | .fuel => .fuel

def filterMapR {α β : Type} (f : α → R (Option β)) : List α → R (List β)
  | [] => .ok []
  | x :: xs =>
    match f x with
    | .ok y =>
      match filterMapR f xs with
      | .ok ys => .ok (match y with | some b => b :: ys | none => ys)
      | .panic s => .panic s
      | .fuel => .fuel
    | .panic s => .panic s
    | .fuel => .fuel

def flatMapR {α β : Type} (f : α → R (List β)) : List α → R (List β)
  | [] => .ok []
  | x :: xs =>
    match f x with
    | .ok ys =>
      match flatMapR f xs with
      | .ok zs => .ok (ys ++ zs)
      | .panic s => .panic s
      | .fuel => .fuel
    | .panic s => .panic s
    | .fuel => .fuel


abbrev Row := List (Name × Value)

def insertSorted (kv : Name × Value) : Row → Row
  | [] => [kv]
  | x :: xs => if kv.1 < x.1 then kv :: x :: xs else x :: insertSorted kv xs


end TF.Engine
