/-
Structural well-formedness of an `IRQuery` (property C11) as a decidable predicate `WF`, clause by
clause, plus models of `IndexedQuery::try_from` (`indexedOk`) and of `IndexedQuery.outputs`
(`outputsOf`, i.e. `get_output_type`) from `trustfall_core/src/ir/indexed.rs`.

The clauses (numbering of DESIGN.md §3 C11):

1. `wfNumbering`  every edge / fold `e` has `to_vid = eid + 1`;
2. `wfUnique`     every Vid and every Eid occurs once in the whole query;
3. `wfIntervals`  the Eids of a fold's component (with its sub-components) are exactly the interval
                  starting right after the fold's own Eid (so the fold's Eid is smaller than every
                  Eid inside), and the Eids of the whole query are the interval starting at 1;
4. `wfEndpoints`  `from_vid < to_vid`; a plain edge's endpoints are vertices of its component; a
                  fold's `from_vid` is a vertex of the parent component and its `to_vid` is the root
                  of its own component; every component's root is one of its vertices;
5. `wfTags`       every tag operand `r` of a filter at vertex `v` (for a fold's post-filter: `v` =
                  the fold's root, as in `make_fold`) has `defined_at(r) ≤ v`, and is either defined
                  in the using component or imported by an enclosing fold; every imported tag of a
                  fold is defined in the fold's parent component at a vertex `≤` the fold's root
                  (with clause 1 this is execution order: vertex `u` is recorded by edge `u - 1`);
6. `wfImports`    `fold.imported_tags`, as a set, is exactly the set of `FieldRef`s used inside the
                  fold at any depth (vertex filters, post-filters of nested folds) that are defined
                  in the fold's *parent* component.  (The real frontend imports a tag at the fold
                  directly below the defining component only — deeper folds inherit it through the
                  context — so "defined outside the fold" must be read as "defined in the parent
                  component"; tags defined further out are in the import list of a fold further
                  out.);  `wfImportsDistinct`: the list has no repetition (a tag used several
                  times inside one fold is imported once — `reference_tag` since the repair of
                  F-10; before it the list could contain a field twice);
7. `wfVars`       every `Argument::Variable` use (vertex filters and post-filters) names a variable
                  of the query-level map whose type there is a scalar-only subtype of the type
                  recorded at the use (`vref.variable_type.is_scalar_only_subtype(var_type)`).
-/
import TrustfallModel.Model.Frontend

namespace TF.Engine
open TF

/-! ### small helpers -/

def natsDistinct : List Nat → Bool
  | [] => true
  | n :: rest => !rest.contains n && natsDistinct rest

/-- `l` (without repetition) is exactly the interval `[lo, lo + l.length)`. -/
def isInterval (lo : Nat) (l : List Nat) : Bool :=
  natsDistinct l && l.all fun e => lo ≤ e && e < lo + l.length

def IRWF.fieldRefEq : FieldRef → FieldRef → Bool
  | .ctx v f t, .ctx v' f' t' => v == v' && f == f' && decide (t = t')
  | .fcount e r, .fcount e' r' => e == e' && r == r'
  | _, _ => false

def IRWF.refMem (r : FieldRef) (l : List FieldRef) : Bool := l.any (IRWF.fieldRefEq r)

def filterTags (f : IRFilter) : List FieldRef :=
  match f.right with
  | some (.tag r) => [r]
  | _ => []

def filterVars (f : IRFilter) : List (Name × QTy) :=
  match f.right with
  | some (.var n t) => [(n, t)]
  | _ => []

def vertexVids (vs : List IRVertex) : List Vid := vs.map (·.vid)

/-- `r` is defined in the component with these vertices and folds. -/
def definedIn (vs : List IRVertex) (fs : List Fold) : FieldRef → Bool
  | .ctx u _ _ => (vertexVids vs).contains u
  | .fcount e root => fs.any fun f => f.eid == e && f.toVid == root

/-! ### collections over the component tree -/

mutual
/-- all Vids of a component and its sub-components, in DFS order of the listing -/
def allVids : Component → List Vid
  | .mk _ vs _ fs _ => vertexVids vs ++ foldsVids fs
def foldsVids : List Fold → List Vid
  | [] => []
  | .mk _ _ _ _ _ c _ _ _ :: rest => allVids c ++ foldsVids rest
end

mutual
/-- all Eids (plain edges and folds) of a component and its sub-components -/
def allEids : Component → List Eid
  | .mk _ _ es fs _ => es.map (·.eid) ++ foldsEids fs
def foldsEids : List Fold → List Eid
  | [] => []
  | .mk e _ _ _ _ c _ _ _ :: rest => e :: allEids c ++ foldsEids rest
end

mutual
/-- every tag operand used inside a component at any depth: its vertices' filters, and for each
of its folds the fold's post-filters and the fold's component -/
def tagsUsed : Component → List FieldRef
  | .mk _ vs _ fs _ => (vs.flatMap fun v => v.filters.flatMap filterTags) ++ foldsTagsUsed fs
def foldsTagsUsed : List Fold → List FieldRef
  | [] => []
  | .mk _ _ _ _ _ c _ _ post :: rest => post.flatMap filterTags ++ tagsUsed c ++ foldsTagsUsed rest
end

/-! ### clause 1 -/

mutual
def wfNumberingC : Component → Bool
  | .mk _ _ es fs _ => es.all (fun e => e.toVid == e.eid + 1) && wfNumberingF fs
def wfNumberingF : List Fold → Bool
  | [] => true
  | .mk e _ t _ _ c _ _ _ :: rest => t == e + 1 && wfNumberingC c && wfNumberingF rest
end

/-! ### clause 2 -/

def wfUnique (c : Component) : Bool := natsDistinct (allVids c) && natsDistinct (allEids c)

/-! ### clause 3 -/

mutual
def wfIntervalsC : Component → Bool
  | .mk _ _ _ fs _ => wfIntervalsF fs
def wfIntervalsF : List Fold → Bool
  | [] => true
  | .mk e _ _ _ _ c _ _ _ :: rest => isInterval (e + 1) (allEids c) && wfIntervalsC c && wfIntervalsF rest
end

def wfIntervals (c : Component) : Bool := isInterval 1 (allEids c) && wfIntervalsC c

/-! ### clause 4 -/

mutual
def wfEndpointsC : Component → Bool
  | .mk root vs es fs _ =>
    (vertexVids vs).contains root &&
    es.all (fun e => e.fromVid < e.toVid && (vertexVids vs).contains e.fromVid &&
      (vertexVids vs).contains e.toVid) &&
    wfEndpointsF (vertexVids vs) fs
def wfEndpointsF (parent : List Vid) : List Fold → Bool
  | [] => true
  | .mk _ f t _ _ c _ _ _ :: rest =>
    decide (f < t) && parent.contains f && t == c.root && wfEndpointsC c && wfEndpointsF parent rest
end

/-! ### clause 5 -/

/-- the tag operands of `filters`, used at vertex `useVid` of the component `(vs, fs)` whose
enclosing folds import `chain` -/
def tagsOkAt (vs : List IRVertex) (fs : List Fold) (chain : List FieldRef) (useVid : Vid)
    (filters : List IRFilter) : Bool :=
  (filters.flatMap filterTags).all fun r =>
    decide (Frontend.definedAt r ≤ useVid) && (definedIn vs fs r || IRWF.refMem r chain)

mutual
def wfTagsC (chain : List FieldRef) : Component → Bool
  | .mk _ vs _ fs _ =>
    vs.all (fun v => tagsOkAt vs fs chain v.vid v.filters) && wfTagsF vs fs chain fs
/-- `pvs`, `pfs`: vertices and folds of the parent component of the folds in the list -/
def wfTagsF (pvs : List IRVertex) (pfs : List Fold) (chain : List FieldRef) : List Fold → Bool
  | [] => true
  | .mk _ _ t _ _ c imports _ post :: rest =>
    tagsOkAt pvs pfs chain t post &&
    imports.all (fun r => definedIn pvs pfs r && decide (Frontend.definedAt r ≤ t)) &&
    wfTagsC (imports ++ chain) c &&
    wfTagsF pvs pfs chain rest
end

/-! ### clause 6 -/

mutual
def wfImportsC : Component → Bool
  | .mk _ vs _ fs _ => wfImportsF vs fs fs
def wfImportsF (pvs : List IRVertex) (pfs : List Fold) : List Fold → Bool
  | [] => true
  | .mk _ _ _ _ _ c imports _ _ :: rest =>
    imports.all (fun r => IRWF.refMem r (tagsUsed c) && definedIn pvs pfs r) &&
    (tagsUsed c).all (fun r => !definedIn pvs pfs r || IRWF.refMem r imports) &&
    wfImportsC c && wfImportsF pvs pfs rest
end

/-- no `FieldRef` occurs twice -/
def refsDistinct : List FieldRef → Bool
  | [] => true
  | r :: rest => !IRWF.refMem r rest && refsDistinct rest

mutual
/-- clause 6, second half: the imported tags of every fold (at every depth) are pairwise distinct -/
def wfImportsDistinctC : Component → Bool
  | .mk _ _ _ fs _ => wfImportsDistinctF fs
def wfImportsDistinctF : List Fold → Bool
  | [] => true
  | .mk _ _ _ _ _ c imports _ _ :: rest =>
    refsDistinct imports && wfImportsDistinctC c && wfImportsDistinctF rest
end

/-! ### clause 7 -/

def varsOk (vars : List (Name × QTy)) (filters : List IRFilter) : Bool :=
  (filters.flatMap filterVars).all fun (n, useTy) =>
    match vars.find? (·.1 == n) with
    | some (_, qTy) => useTy.isScalarOnlySubtype qTy
    | none => false

mutual
def wfVarsC (vars : List (Name × QTy)) : Component → Bool
  | .mk _ vs _ fs _ => vs.all (fun v => varsOk vars v.filters) && wfVarsF vars fs
def wfVarsF (vars : List (Name × QTy)) : List Fold → Bool
  | [] => true
  | .mk _ _ _ _ _ c _ _ post :: rest => varsOk vars post && wfVarsC vars c && wfVarsF vars rest
end

/-! ### the predicate -/

/-- Property C11 on one compiled query. -/
def WF (q : IRQuery) : Bool :=
  wfNumberingC q.rootComponent && wfUnique q.rootComponent && wfIntervals q.rootComponent &&
  wfEndpointsC q.rootComponent && wfTagsC [] q.rootComponent && wfImportsC q.rootComponent &&
  wfVarsC q.variables q.rootComponent && wfImportsDistinctC q.rootComponent

/-! ### outputs (not a clause of C11; what `IndexedQuery::try_from` also checks) -/

mutual
/-- every output of a component is read at one of the component's own vertices -/
def wfOutputsC : Component → Bool
  | .mk _ vs _ fs os => os.all (fun o => (vertexVids vs).contains o.vid) && wfOutputsF fs
def wfOutputsF : List Fold → Bool
  | [] => true
  | .mk _ _ _ _ _ c _ _ _ :: rest => wfOutputsC c && wfOutputsF rest
end

/-- outputs are read at vertices of their own component, and no output name (fold-count outputs
included) is used twice in the whole query -/
def outputsOk (q : IRQuery) : Bool :=
  wfOutputsC q.rootComponent && Frontend.namesDistinct (Frontend.outputNames q.rootComponent)

/-! ### `IndexedQuery::try_from` -/

/-- The maps `vids`, `eids`, `outputs` (their key sets) built by `add_data_from_component`. -/
structure Seen where
  vids : List Vid := []
  eids : List Eid := []
  outs : List Name := []
  deriving Repr, Inhabited

/-- the vertex loop: `vids.insert` must be fresh; every variable of a vertex filter must be known
with a compatible type -/
def seeVertices (vars : List (Name × QTy)) : List IRVertex → Seen → Option Seen
  | [], s => some s
  | v :: rest, s =>
    if s.vids.contains v.vid then none
    else if !varsOk vars v.filters then none
    else seeVertices vars rest { s with vids := v.vid :: s.vids }

/-- the output loop: the output's vertex is in this component; the name is fresh -/
def seeOutputs (own : List Vid) : List OutputDef → Seen → Option Seen
  | [], s => some s
  | o :: rest, s =>
    if !own.contains o.vid then none
    else if s.outs.contains o.name then none
    else seeOutputs own rest { s with outs := o.name :: s.outs }

/-- the edge loop -/
def seeEdges (own : List Vid) : List IREdge → Seen → Option Seen
  | [], s => some s
  | e :: rest, s =>
    if e.eid + 1 != e.toVid then none
    else if !own.contains e.fromVid then none
    else if !own.contains e.toVid then none
    else if s.eids.contains e.eid then none
    else seeEdges own rest { s with eids := e.eid :: s.eids }

def seeNames : List Name → Seen → Option Seen
  | [], s => some s
  | n :: rest, s =>
    if s.outs.contains n then none else seeNames rest { s with outs := n :: s.outs }

mutual
/-- `add_data_from_component`. -/
def seeComponent (vars : List (Name × QTy)) : Component → Seen → Option Seen
  | .mk root vs es fs os, s =>
    if !(vertexVids vs).contains root then none
    else
      match seeVertices vars vs s with
      | none => none
      | some s1 =>
        match seeOutputs (vertexVids vs) os s1 with
        | none => none
        | some s2 =>
          match seeEdges (vertexVids vs) es s2 with
          | none => none
          | some s3 => seeFolds vars (vertexVids vs) fs s3
/-- the fold loop -/
def seeFolds (vars : List (Name × QTy)) (own : List Vid) : List Fold → Seen → Option Seen
  | [], s => some s
  | .mk e f t _ _ c _ fouts _ :: rest, s =>
    if e + 1 != t then none
    else if !own.contains f then none
    else if t != c.root then none
    else if s.eids.contains e then none
    else
      match seeNames fouts { s with eids := e :: s.eids } with
      | none => none
      | some s1 =>
        match seeComponent vars c s1 with
        | none => none
        | some s2 => seeFolds vars own rest s2
end

/-- `IndexedQuery::try_from(ir).is_ok()`. -/
def indexedOk (q : IRQuery) : Bool := (seeComponent q.variables q.rootComponent {}).isSome

/-! ### `IndexedQuery.outputs` -/

/-- `get_optional_vertices_in_component`: edges in Eid order. -/
def IRWF.optionalVertices : List IREdge → List Vid → List Vid
  | [], acc => acc
  | e :: rest, acc =>
    if e.optional || acc.contains e.fromVid then IRWF.optionalVertices rest (e.toVid :: acc)
    else IRWF.optionalVertices rest acc

/-- `get_output_type`: `folds` = `are_folds_optional`, outermost fold first. -/
def IRWF.outputType (at_ : Vid) (ty : QTy) (optional : List Vid) (folds : List Bool) : QTy :=
  let t := if optional.contains at_ then ty.withNullability true else ty
  folds.foldr (fun b acc => acc.listOf b) t

mutual
/-- the outputs `add_data_from_component` inserts, in insertion order -/
def outputsC (folds : List Bool) : Component → List (Name × QTy × Vid)
  | .mk _ _ es fs os =>
    let opt := IRWF.optionalVertices es []
    (os.map fun o => (o.name, IRWF.outputType o.vid o.ty opt folds, o.vid)) ++ outputsF folds opt fs
def outputsF (folds : List Bool) (opt : List Vid) : List Fold → List (Name × QTy × Vid)
  | [] => []
  | .mk _ f t _ _ c _ fouts _ :: rest =>
    (fouts.map fun n => (n, IRWF.outputType f Frontend.countTy opt folds, t)) ++
      outputsC (folds ++ [opt.contains f]) c ++ outputsF folds opt rest
end

def insertOut (o : Name × QTy × Vid) : List (Name × QTy × Vid) → List (Name × QTy × Vid)
  | [] => [o]
  | x :: xs => if o.1 < x.1 then o :: x :: xs else x :: insertOut o xs

/-- `IndexedQuery.outputs` in name order: `(name, value_type, vid)`. -/
def outputsOf (q : IRQuery) : List (Name × QTy × Vid) :=
  (outputsC [] q.rootComponent).foldr insertOut []

end TF.Engine
