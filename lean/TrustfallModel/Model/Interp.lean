/-
Model of `trustfall_core/src/interpreter/execution.rs` (+ the context bookkeeping of
`interpreter/mod.rs` and the filter plumbing of `filtering.rs`), function by function, on *lists*
of contexts instead of lazy iterators.

What is mirrored: `compute_component` (Eid-ordered merge of edges and folds with the visited-Vid
assertions), `coerce_if_needed`, `apply_local_field_filter`, `apply_filter` (variable / same-vertex
tag / other-vertex tag / imported tag / fold-count tag, the nonexistent-optional pass-through and
its short-circuit), `expand_non_recursive_edge` + `EdgeExpander`, `expand_recursive_edge` +
`RecursiveEdgeExpander` + piggy-backing + suspend/unsuspend, `compute_fold` (imported tags, max/min
fold-count limits with the eligibility test, `collect_fold_elements`, post-filters, output
collection incl. nested defaults), `construct_outputs`.  Every `expect/unwrap/unreachable!/assert!/
index` the input can reach is a `panic` outcome.

What is abstracted: laziness (see `Lazy`), the `QueryCarrier` (see `Carrier`); `folded_contexts`
is reduced to the element count because the element contexts are consumed when the fold's outputs
are computed (same closure invocation in the list-level reading).
-/
import TrustfallModel.Model.IR

namespace TF.Engine
open TF

/-- `DataContext<Vertex>` with `Vertex = VertexId`. `values` and `suspended` are stacks with the top
at the head. -/
structure Ctx where
  active : Option VertexId
  vertices : List (Vid × Option VertexId)
  values : List Value
  suspended : List (Option VertexId)
  foldCounts : List (Eid × Option Nat)
  foldedValues : List ((Eid × Name) × Option Value)
  importedTags : List (TagKey × Tagged)
  deriving Repr, Inhabited

/-- Contexts during a recursive expansion: the context and its piggy-backed riders. -/
inductive PCtx where
  | mk (c : Ctx) (piggy : List PCtx)
  deriving Inhabited

namespace Ctx

def new (v : Option VertexId) : Ctx := ⟨v, [], [], [], [], [], []⟩

def vertexAt? (c : Ctx) (vid : Vid) : Option (Option VertexId) :=
  (c.vertices.find? (·.1 == vid)).map (·.2)

/-- `record_vertex`: `insert_or_error(..).unwrap()`. -/
def recordVertex (c : Ctx) (vid : Vid) : R Ctx :=
  match c.vertexAt? vid with
  | some _ => .panic "record_vertex: vid already recorded"
  | none => .ok { c with vertices := c.vertices ++ [(vid, c.active)] }

/-- `activate_vertex`: `self.vertices[vid]`. -/
def activate (c : Ctx) (vid : Vid) : R Ctx :=
  match c.vertexAt? vid with
  | some v => .ok { c with active := v }
  | none => .panic "activate_vertex: vid not recorded"

def moveTo (c : Ctx) (v : Option VertexId) : Ctx := { c with active := v }

/-- `split_and_move_to_vertex` (the piggyback of the copy is empty; riders are tracked by `PCtx`). -/
def splitTo (c : Ctx) (v : Option VertexId) : Ctx := { c with active := v }

def ensureSuspended (c : Ctx) : Ctx :=
  match c.active with
  | some v => { c with active := none, suspended := some v :: c.suspended }
  | none => c

def ensureUnsuspended (c : Ctx) : R Ctx :=
  match c.active with
  | some _ => .ok c
  | none =>
    match c.suspended with
    | top :: rest => .ok { c with active := top, suspended := rest }
    | [] => .panic "ensure_unsuspended: empty suspended stack"

def pushValue (c : Ctx) (v : Value) : Ctx := { c with values := v :: c.values }

def popValue (c : Ctx) : R (Value × Ctx) :=
  match c.values with
  | v :: rest => .ok (v, { c with values := rest })
  | [] => .panic "values.pop(): no value present"

def tag? (c : Ctx) (k : TagKey) : Option Tagged := (c.importedTags.find? (·.1 == k)).map (·.2)

/-- `imported_tags.insert(k, v)` (a `BTreeMap`: an existing key is overwritten). -/
def insertTag (c : Ctx) (k : TagKey) (t : Tagged) : Ctx :=
  { c with importedTags := (c.importedTags.filter (fun p => !(p.1 == k))) ++ [(k, t)] }

/-- `imported_tags.remove(k).unwrap()`. -/
def removeTag (c : Ctx) (k : TagKey) : R Ctx :=
  match c.tag? k with
  | some _ => .ok { c with importedTags := c.importedTags.filter (fun p => !(p.1 == k)) }
  | none => .panic "imported_tags.remove(..).unwrap()"

def foldCount? (c : Ctx) (e : Eid) : Option (Option Nat) :=
  (c.foldCounts.find? (·.1 == e)).map (·.2)

end Ctx

/-- The adapter as the engine calls it (`trait Adapter`): every call carries the identity the
engine puts into its `ResolveInfo` / `ResolveEdgeInfo` (the Vid or Eid being resolved), the type
name, the field or edge name and — for edges — the parameters; contexts are represented by their
active vertex (`none`: no active vertex).  Results are in `R` so that wrapper adapters that *check*
the calls (contract, required properties) can be expressed as adapters that fail. -/
structure Adapter where
  start : (edge : Name) → Params → (vid : Vid) → R (List VertexId)
  prop : (vid : Vid) → (typeName : Name) → (field : Name) → Option VertexId → R Value
  nbrs : (eid : Eid) → (typeName : Name) → (edge : Name) → Params → Option VertexId → R (List VertexId)
  coerce : (vid : Vid) → (typeName : Name) → (coerceTo : Name) → Option VertexId → R Bool

/-- The table-driven adapter of the harness: it ignores the resolve-info identity and the type
name, and honours the contract for a missing active vertex (null / no neighbours / false). -/
def Data.adapter (d : Data) : Adapter where
  start := fun edge ps _ => .ok (d.start edge ps)
  prop := fun _ _ field v => .ok (d.propOpt v field)
  nbrs := fun _ _ edge ps v => .ok (d.nbrsOpt v edge ps)
  coerce := fun _ _ to v => .ok (match v with
    | some x => d.isA x to
    | none => false)

/-- Everything the engine consults besides the IR: the adapter, the query arguments, the regex
engine (a parameter of the model), and whether the fold-count shortcuts are enabled (they are in
the real engine; `useLimits := false` is the reference semantics of C22). -/
structure Env where
  adapter : Adapter
  args : List (Name × Value)
  regex : Filter.RegexEngine
  useLimits : Bool := true

def Env.ofData (d : Data) (args : List (Name × Value)) : Env :=
  { adapter := d.adapter, args := args, regex := d.regex }

namespace Env
def arg (env : Env) (n : Name) : R Value :=
  match env.args.find? (·.1 == n) with
  | some (_, v) => .ok v
  | none => .panic "query_arguments[variable]: missing"
end Env

def Component.typeOf (comp : Component) (vid : Vid) : R Name :=
  match comp.vertex? vid with
  | some v => .ok v.typeName
  | none => .panic "component.vertices[&vid]"

/-! ### coercion, local fields, filters -/

/-- `coerce_if_needed` / `perform_coercion`: the adapter is asked about every context; a context
is kept when the coercion holds or there is no active vertex. -/
def coerceIfNeeded (env : Env) (v : IRVertex) (ctxs : List Ctx) : R (List Ctx) :=
  match v.coercedFrom with
  | none => .ok ctxs
  | some fromT =>
    filterMapR (fun c => do
      let can ← env.adapter.coerce v.vid fromT v.typeName c.active
      pure (if can || c.active.isNone then some c else none)) ctxs

/-- `compute_local_field`: the property of the *active* vertex is pushed on the value stack. -/
def computeLocalField (env : Env) (vid : Vid) (typeName field : Name) (ctxs : List Ctx) : R (List Ctx) :=
  mapR (fun c => do
    let v ← env.adapter.prop vid typeName field c.active
    pure (c.pushValue v)) ctxs

/-- The tagged value of the right operand for one context (`apply_filter`'s three tag paths). -/
def tagValue (env : Env) (comp : Component) (currentVid : Vid) (r : FieldRef) (c : Ctx) : R Tagged :=
  match r with
  | .ctx vid field _ =>
    if vid == currentVid then do
      -- local equivalent field: resolved on the active vertex, always `TaggedValue::Some`
      let t ← comp.typeOf currentVid
      let v ← env.adapter.prop currentVid t field c.active
      pure (.some v)
    else
      match comp.vertex? vid with
      | some vx =>
        -- `compute_context_field_with_separate_value`: suspend, move to `vertices[vid]`, resolve, restore
        match c.vertexAt? vid with
        | some target => do
          let v ← env.adapter.prop vid vx.typeName field target
          pure (match target with
            | some _ => Tagged.some v
            | none => Tagged.nonexistent)
        | none => .panic "context.vertices[&vertex_id]"
      | none =>
        match c.tag? (.ctx vid field) with
        | some t => .ok t
        | none => .panic "context.imported_tags[&field_ref]"
  | .fcount eid _ =>
    if comp.folds.any (·.eid == eid) then
      match c.foldCount? eid with
      | some none => .ok .nonexistent
      | some (some n) => .ok (.some (.uint64 (UInt64.ofNat n)))
      | none => .panic "ctx.folded_contexts[&fold_eid]"
    else
      match c.tag? (.fcount eid) with
      | some t => .ok t
      | none => .panic "ctx.imported_tags[&cloned_ref]"

def isRegexOp : Filter.BinOp → Bool
  | .regexMatches | .notRegexMatches => true
  | _ => false

/-- `apply_filter`, the operand already on the value stack. -/
def applyFilter (env : Env) (comp : Component) (currentVid : Vid) (f : IRFilter)
    (ctxs : List Ctx) : R (List Ctx) :=
  match f.op, f.right with
  | .un o, _ =>
    filterMapR (fun c => do
      let (v, c') ← c.popValue
      pure (if c'.active.isNone || Filter.applyUnary o v then some c' else none)) ctxs
  | .bin o, some (.var name _) => do
    let right ← env.arg name
    -- the regex of a variable is compiled when the pipeline is built, before any context flows
    let _ ← (if isRegexOp o then
        (R.ofOutcome "regex argument was not a valid regex"
          (Filter.compileStaticRegex env.regex right)).map (fun _ => ())
      else R.ok ())
    filterMapR (fun c => do
      let (left, c') ← c.popValue
      if c'.active.isNone then pure (some c')
      else do
        let b ← R.ofOutcome "filter operator: unreachable!" (Filter.applyStatic env.regex o left right)
        pure (if b then some c' else none)) ctxs
  | .bin o, some (.tag r) =>
    filterMapR (fun c => do
      let t ← tagValue env comp currentVid r c
      let (left, c') ← c.popValue
      match t with
      | .nonexistent => pure (some c')
      | .some right =>
        if c'.active.isNone then pure (some c')
        else do
          let b ← R.ofOutcome "filter operator: unreachable!" (Filter.applyTagged env.regex o left right)
          pure (if b then some c' else none)) ctxs
  | .bin _, none => .panic "no argument present for filter"

/-- `apply_local_field_filter`. -/
def applyLocalFieldFilter (env : Env) (comp : Component) (vid : Vid) (f : IRFilter)
    (ctxs : List Ctx) : R (List Ctx) :=
  match f.left with
  | .loc field _ =>
    (comp.typeOf vid).bind fun t =>
    (computeLocalField env vid t field ctxs).bind (applyFilter env comp vid f)
  | .count => .panic "local filter on a fold-specific field"

def applyLocalFilters (env : Env) (comp : Component) (vid : Vid) :
    List IRFilter → List Ctx → R (List Ctx)
  | [], ctxs => .ok ctxs
  | f :: fs, ctxs => (applyLocalFieldFilter env comp vid f ctxs).bind (applyLocalFilters env comp vid fs)

/-- `perform_entry_into_new_vertex`. -/
def enterVertex (env : Env) (comp : Component) (v : IRVertex) (ctxs : List Ctx) : R (List Ctx) :=
  (coerceIfNeeded env v ctxs).bind fun coerced =>
  (applyLocalFilters env comp v.vid v.filters coerced).bind
    (mapR fun c => c.recordVertex v.vid)

/-! ### edges -/

/-- `EdgeExpander` for one context. -/
def expandOne (c : Ctx) (nbrs : List VertexId) (isOptional : Bool) : List Ctx :=
  nbrs.map (fun n => c.splitTo (some n)) ++
    (if c.active.isNone || (nbrs.isEmpty && isOptional) then [c.splitTo none] else [])

/-- `expand_non_recursive_edge`. -/
def expandNonRecursive (env : Env) (fromType : Name) (e : IREdge) (ctxs : List Ctx) : R (List Ctx) :=
  flatMapR (fun c => do
    let c' ← c.activate e.fromVid
    let ns ← env.adapter.nbrs e.eid fromType e.name e.params c'.active
    pure (expandOne c' ns e.optional)) ctxs

mutual
/-- `unpack_piggyback`: riders first (recursively), then the context itself. -/
def unpack : PCtx → List Ctx
  | .mk c piggy => unpackList piggy ++ [c]
def unpackList : List PCtx → List Ctx
  | [] => []
  | p :: ps => unpack p ++ unpackList ps
end

/-- `RecursiveEdgeExpander` for one element with its neighbours. -/
def recExpandOne (ns : List VertexId) : PCtx → List PCtx
  | .mk c piggy =>
    match ns with
    | [] => [.mk c piggy]
    | n :: rest =>
      .mk (c.splitTo (some n)) [.mk c.ensureSuspended piggy] ::
        rest.map (fun m => .mk ((c.splitTo none).splitTo (some m)) [])

/-- `perform_one_recursive_edge_expansion` (the adapter sees the top-level elements only; riders
travel inside them). -/
def recExpandLevel (env : Env) (e : IREdge) (fromType : Name) (ps : List PCtx) : R (List PCtx) :=
  flatMapR (fun p =>
    match p with
    | .mk c piggy => do
      let ns ← env.adapter.nbrs e.eid fromType e.name e.params c.active
      pure (recExpandOne ns (.mk c piggy))) ps

/-- The coercion step between recursion levels: elements that cannot be coerced are suspended. -/
def recCoerceLevel (env : Env) (e : IREdge) (endpointType coerceTo : Name) (ps : List PCtx) :
    R (List PCtx) :=
  mapR (fun p =>
    match p with
    | .mk c piggy => do
      let can ← env.adapter.coerce e.fromVid endpointType coerceTo c.active
      pure (if can then PCtx.mk c piggy else PCtx.mk c.ensureSuspended piggy)) ps

def recLevels (env : Env) (e : IREdge) (endpointType recursingFrom : Name) (coerceTo : Option Name) :
    Nat → List PCtx → R (List PCtx)
  | 0, ps => .ok ps
  | k + 1, ps =>
    (match coerceTo with
      | some t => recCoerceLevel env e endpointType t ps
      | none => .ok ps).bind fun ps' =>
    (recExpandLevel env e recursingFrom ps').bind (recLevels env e endpointType recursingFrom coerceTo k)

/-- The first step of `expand_recursive_edge` for one context. -/
def recInit (e : IREdge) (c : Ctx) : R Ctx :=
  (if c.active.isNone then { c with suspended := none :: c.suspended } else c).activate e.fromVid

/-- Everything after the activation of the source vertex: the expansion levels, unpacking of the
piggy-backs, un-suspension. -/
def recFinish (env : Env) (e : IREdge) (r : Recursive) (fromV toV : IRVertex) (init : List Ctx) :
    R (List Ctx) :=
  let endpointType := toV.coercedFrom.getD toV.typeName
  let recursingFrom := r.coerceTo.getD endpointType
  (recExpandLevel env e fromV.typeName (init.map fun c => PCtx.mk c [])).bind fun level1 =>
  (recLevels env e endpointType recursingFrom r.coerceTo (r.depth - 1) level1).bind fun final =>
  mapR Ctx.ensureUnsuspended (unpackList final)

/-- `expand_recursive_edge` + `post_process_recursive_expansion`. -/
def expandRecursive (env : Env) (e : IREdge) (r : Recursive) (fromV toV : IRVertex)
    (ctxs : List Ctx) : R (List Ctx) :=
  (mapR (recInit e) ctxs).bind (recFinish env e r fromV toV)

/-- `expand_edge`. -/
def expandEdge (env : Env) (comp : Component) (e : IREdge) (ctxs : List Ctx) : R (List Ctx) :=
  match comp.vertex? e.fromVid, comp.vertex? e.toVid with
  | some fromV, some toV =>
    (match e.recursive with
      | some r => expandRecursive env e r fromV toV ctxs
      | none => expandNonRecursive env fromV.typeName e ctxs).bind (enterVertex env comp toV)
  | _, _ => .panic "component.vertices[&vid]"

/-! ### folds -/

/-- `usize_from_field_value`. -/
def usizeFromValue : Value → R (Option Nat)
  | .int64 i => .ok (some i.toInt.toNat)      -- `num.max(0)` then `usize::try_from`
  | .uint64 u => .ok (some u.toNat)
  | .null => .ok none
  | _ => .panic "usize_from_field_value: unexpected value kind"

def usizeExpect (v : Value) : R Nat := do
  match ← usizeFromValue v with
  | some n => pure n
  | none => .panic "for field value to be coercible to usize"

def listMaxR : List Value → R (Option Nat)
  | [] => .ok none
  | v :: vs => do
    let n ← usizeExpect v
    match ← listMaxR vs with
    | some m => pure (some (max n m))
    | none => pure (some n)

/-- one post-filter's contribution to `get_max_fold_count_limit` -/
def maxLimitOf (env : Env) (f : IRFilter) : R (Option Nat) :=
  match f.left, f.op, f.right with
  | .count, .bin .equals, some (.var n _)
  | .count, .bin .lessThanOrEqual, some (.var n _) => do
    let v ← env.arg n
    let k ← usizeExpect v
    pure (some k)
  | .count, .bin .lessThan, some (.var n _) => do
    let v ← env.arg n
    let k ← usizeExpect v
    pure (some (k - 1))     -- saturating_sub(1)
  | .count, .bin .oneOf, some (.var n _) => do
    match ← env.arg n with
    | .list vs => listMaxR vs
    | _ => .panic "one_of argument is not a list: unreachable!"
  | _, _, _ => .ok none

/-- `get_max_fold_count_limit`: the tightest of the limits. -/
def maxFoldLimit (env : Env) : List IRFilter → Option Nat → R (Option Nat)
  | [], acc => .ok acc
  | f :: fs, acc => do
    let next ← maxLimitOf env f
    maxFoldLimit env fs (match acc, next with
      | none, _ => next
      | some l, some r => if l > r then next else acc
      | some _, none => acc)

/-- one post-filter's contribution to `get_min_fold_count_limit`; `none`: not a `>=`/`>` on a
variable, the whole limit is abandoned -/
def minLimitOf (env : Env) (f : IRFilter) : R (Option Nat) :=
  match f.left, f.op, f.right with
  | .count, .bin .greaterThanOrEqual, some (.var n _) => do
    let v ← env.arg n
    let k ← usizeExpect v
    pure (some k)
  | .count, .bin .greaterThan, some (.var n _) => do
    let v ← env.arg n
    let k ← usizeExpect v
    pure (some (k + 1))  -- saturating_add(1): usize::MAX is not reachable from an i64/u64 on 64-bit
  | _, _, _ => .ok none

/-- `get_min_fold_count_limit`: `none` as soon as a post-filter is not `>=`/`>` on a variable. -/
def minFoldLimit (env : Env) : List IRFilter → Option Nat → R (Option Nat)
  | [], acc => .ok acc
  | f :: fs, acc => do
    match ← minLimitOf env f with
    | some k =>
      minFoldLimit env fs (match acc with
        | none => some k
        | some l => if l < k then some k else acc)
    | none => pure none

/-- `is_tag_on_this_fold_count`: the field reference is the count of this fold. -/
def isTagOnThisFoldCount (fold : Fold) : FieldRef → Bool
  | .fcount eid rootVid => rootVid == fold.toVid && eid == fold.eid
  | .ctx _ _ _ => false

/-- a filter whose right operand is the tag of this fold's count -/
def filterTagsFoldCount (fold : Fold) (f : IRFilter) : Bool :=
  match f.right with
  | some (.tag r) => isTagOnThisFoldCount fold r
  | _ => false

/-- `has_tag_on_fold_count`: this fold's count tag is used by a filter of a *parent-component
vertex*, or by a fold of the parent component (the fold itself included, as in the Rust
`parent_component.folds.values()`): among its imported tags (= used somewhere inside it) or as the
tag operand of one of its post-filters. -/
def hasTagOnFoldCount (parent : Component) (fold : Fold) : Bool :=
  (parent.vertices.any fun v => v.filters.any (filterTagsFoldCount fold)) ||
  (parent.folds.any fun sib =>
    sib.imports.any (isTagOnThisFoldCount fold) || sib.post.any (filterTagsFoldCount fold))

mutual
/-- `component_has_outputs`: the component, or any fold nested (at any depth) inside it, produces
an output (fold-specific outputs of the nested folds included). -/
def componentHasOutputs : Component → Bool
  | .mk _ _ _ folds outputs => !outputs.isEmpty || foldsHaveOutputs folds
def foldsHaveOutputs : List Fold → Bool
  | [] => false
  | (.mk _ _ _ _ _ comp _ fouts _) :: fs =>
    (!fouts.isEmpty || componentHasOutputs comp) || foldsHaveOutputs fs
end

/-- The effective `min_fold_size` of `compute_fold`. -/
def effectiveMinLimit (env : Env) (parent : Component) (fold : Fold) : R (Option Nat) := do
  match ← minFoldLimit env fold.post none with
  | some m =>
    pure (if !componentHasOutputs fold.component && fold.fouts.isEmpty && !hasTagOnFoldCount parent fold
         then some m else none)
  | none => pure none

/-- `collect_fold_elements` on an already computed element list: `none` = the context is dropped. -/
def collectFoldElements (elems : List Ctx) (maxL minL : Option Nat) : Option (List Ctx) :=
  match maxL with
  | some m => if elems.length > m then none else some elems
  | none =>
    match minL with
    | some k => some (elems.take k)
    | none => some elems

/-- Import one tag into a context (`compute_fold`, first loop). -/
def importTag (env : Env) (parent : Component) (r : FieldRef) (c : Ctx) : R Ctx :=
  match r with
  | .ctx vid field _ =>
    match parent.vertex? vid with
    | none => .panic "parent_component.vertices[&field.vertex_id]"
    | some vx => do
      let c' ← c.activate vid
      let value ← env.adapter.prop vid vx.typeName field c'.active
      let t := match c'.active with
        | some _ => Tagged.some value
        | none => Tagged.nonexistent
      pure (c'.insertTag (.ctx vid field) t)
  | .fcount eid _ =>
    match c.foldCount? eid with
    | some none => .ok (c.insertTag (.fcount eid) .nonexistent)
    | some (some n) => .ok (c.insertTag (.fcount eid) (.some (.uint64 (UInt64.ofNat n))))
    | none => .panic "ctx.folded_contexts[&fold_eid]"

def importTags (env : Env) (parent : Component) : List FieldRef → Ctx → R Ctx
  | [], c => .ok c
  | r :: rs, c => (importTag env parent r c).bind (importTags env parent rs)

def removeTags : List FieldRef → Ctx → R Ctx
  | [], c => .ok c
  | r :: rs, c => (c.removeTag r.key).bind (removeTags rs)

/-- `apply_fold_specific_filter` for one context. -/
def applyPostFilter (env : Env) (parent : Component) (fold : Fold) (f : IRFilter) (c : Ctx) :
    R (Option Ctx) :=
  match c.foldCount? fold.eid with
  | some (some n) => do
    match ← applyFilter env parent fold.fromVid f [c.pushValue (.uint64 (UInt64.ofNat n))] with
    | [] => pure none
    | c' :: _ => pure (some c')
  | some none => do
    -- the @fold is inside an @optional scope that does not exist: the placeholder `Null` is
    -- pushed and the ordinary filter stage runs (a context without active vertex passes)
    match ← applyFilter env parent fold.fromVid f [c.pushValue .null] with
    | [] => pure none
    | c' :: _ => pure (some c')
  | none => .panic "ctx.folded_contexts[&fold_eid]"

def applyPostFilters (env : Env) (parent : Component) (fold : Fold) :
    List IRFilter → Ctx → R (Option Ctx)
  | [], c => .ok (some c)
  | f :: fs, c => do
    match ← applyPostFilter env parent fold f c with
    | some c' => applyPostFilters env parent fold fs c'
    | none => pure none

mutual
/-- all `(eid, output name)` keys of the folds nested (recursively) inside a component -/
def nestedKeys : Component → List (Eid × Name)
  | .mk _ _ _ folds _ => nestedKeysFolds folds
def nestedKeysFolds : List Fold → List (Eid × Name)
  | [] => []
  | (.mk eid _ _ _ _ comp _ fouts _) :: fs =>
    (fouts.map fun n => (eid, n)) ++ (comp.outputs.map fun o => (eid, o.name)) ++ nestedKeys comp
      ++ nestedKeysFolds fs
end

def lookupFolded (l : List ((Eid × Name) × Option Value)) (k : Eid × Name) : Option (Option Value) :=
  (l.find? (fun p => p.1.1 == k.1 && p.1.2 == k.2)).map (·.2)

/-- the values of one output of the fold's component over the element contexts -/
def foldOutputColumn (env : Env) (comp : Component) (o : OutputDef) (es : List Ctx) : R (List Value) :=
  (comp.typeOf o.vid).bind fun t =>
  mapR (fun (c : Ctx) =>
    match c.vertexAt? o.vid with
    | some v => env.adapter.prop o.vid t o.field v
    | none => R.panic "context.vertices[&vertex_id]") es

/-- The values a fold contributes to `folded_values` of one surviving context. -/
def foldOutputs (env : Env) (fold : Fold) (elems : Option (List Ctx)) :
    R (List ((Eid × Name) × Option Value)) :=
  let eid := fold.eid
  let countOuts : List ((Eid × Name) × Option Value) :=
    fold.fouts.map fun n => ((eid, n), elems.map fun es => Value.uint64 (UInt64.ofNat es.length))
  let default : Option Value := elems.map fun _ => Value.list []
  match elems with
  | some (e0 :: erest) => do
    let es := e0 :: erest
    -- own outputs: one list per output name, aligned with the elements
    let own ← mapR (fun (o : OutputDef) => do
      let vals ← foldOutputColumn env fold.component o es
      pure ((eid, o.name), some (Value.list vals))) fold.component.outputs
    -- nested folds' outputs: keys as they occur in the element contexts
    let nested := (e0.foldedValues.map (·.1)).map fun k =>
      (k, some (Value.list (es.filterMap fun c =>
        (lookupFolded c.foldedValues k).map fun ov => ov.getD Value.null)))
    pure (countOuts ++ own ++ nested)
  | _ =>
    let own := fold.component.outputs.map fun o => ((eid, o.name), default)
    let nested := (nestedKeys fold.component).map fun k => (k, default)
    .ok (countOuts ++ own ++ nested)

def mergeFolded (c : Ctx) (news : List ((Eid × Name) × Option Value)) : R Ctx :=
  if news.any (fun p => (lookupFolded c.foldedValues p.1).isSome) then
    .panic "folded_values: keys not disjoint"
  else .ok { c with foldedValues := c.foldedValues ++ news }

/-- `visited_vids` assertions of `compute_component`. -/
def checkVisited (visited : List Vid) (fromVid toVid : Vid) : R (List Vid) :=
  if !visited.contains fromVid then .panic "assert!(!from_vid_unvisited)"
  else if visited.contains toVid || fromVid == toVid then .panic "assert!(to_vid_unvisited)"
  else .ok (toVid :: visited)

inductive Stage where
  | edge (e : IREdge)
  | fold (f : Fold)

/-- The Eid-ordered merge of the edge and fold maps (`Ordering::Equal => unreachable!()`). -/
def mergeStages : List IREdge → List Fold → Nat → R (List Stage)
  | [], fs, _ => .ok (fs.map .fold)
  | es, [], _ => .ok (es.map .edge)
  | e :: es, f :: fs, fuel + 1 =>
    if f.eid > e.eid then (mergeStages es (f :: fs) fuel).map (Stage.edge e :: ·)
    else if f.eid < e.eid then (mergeStages (e :: es) fs fuel).map (Stage.fold f :: ·)
    else .panic "edge and fold with the same Eid: unreachable!"
  | _ :: _, _ :: _, 0 => .fuel

/-- the fold limits of `compute_fold`, computed once per fold (they do not depend on the contexts) -/
def foldLimits (env : Env) (parent : Component) (fold : Fold) : R (Option Nat × Option Nat) :=
  if env.useLimits then do
    let maxL ← maxFoldLimit env fold.post none
    let minL ← effectiveMinLimit env parent fold
    pure (maxL, minL)
  else .ok (none, none)

/-- What happens to one context once the fold's elements are known: slot insertion, removal of
the imported tags, post-filters, outputs. -/
def foldFinish (env : Env) (parent : Component) (fold : Fold) (lim : Option Nat × Option Nat)
    (c : Ctx) (computed : List Ctx) : R (Option Ctx) :=
  match c.vertexAt? fold.fromVid with
  | none => .panic "context.vertices[&expanding_from_vid]"
  | some fromV =>
    let elemsOpt : Option (Option (List Ctx)) :=
      if fromV.isSome then (collectFoldElements computed lim.1 lim.2).map some else some none
    match elemsOpt with
    | none => .ok none                      -- more elements than the max limit: dropped early
    | some elems =>
      if (c.foldCount? fold.eid).isSome then .panic "folded_contexts.insert_or_error(..).unwrap()"
      else do
        let c1 := { c with foldCounts := c.foldCounts ++ [(fold.eid, elems.map List.length)] }
        let c2 ← removeTags fold.imports c1
        match ← applyPostFilters env parent fold fold.post c2 with
        | some c3 => do
          let news ← foldOutputs env fold elems
          let c4 ← mergeFolded c3 news
          pure (some c4)
        | none => pure none

/-- the contexts the fold's sub-pipeline starts from, for one outer context -/
def foldStart (c : Ctx) (ns : List VertexId) : List Ctx :=
  ns.map fun n => { Ctx.new (some n) with importedTags := c.importedTags }

mutual
/-- `compute_component`. -/
def computeComponent (env : Env) : Nat → Component → List Ctx → R (List Ctx)
  | 0, _, _ => .fuel
  | fuel + 1, comp, ctxs =>
    match comp.vertex? comp.root with
    | none => .panic "component.vertices[&component_root_vid]"
    | some rootV =>
      (enterVertex env comp rootV ctxs).bind fun ctxs1 =>
      (mergeStages comp.edges comp.folds (comp.edges.length + comp.folds.length)).bind fun stages =>
      runStages env fuel comp stages [comp.root] ctxs1
def runStages (env : Env) : Nat → Component → List Stage → List Vid → List Ctx → R (List Ctx)
  | _, _, [], _, ctxs => .ok ctxs
  | fuel, comp, .edge e :: rest, visited, ctxs =>
    (checkVisited visited e.fromVid e.toVid).bind fun visited' =>
    (expandEdge env comp e ctxs).bind fun ctxs' =>
    runStages env fuel comp rest visited' ctxs'
  | fuel, comp, .fold f :: rest, visited, ctxs =>
    (checkVisited visited f.fromVid f.toVid).bind fun visited' =>
    (computeFold env fuel comp f ctxs).bind fun ctxs' =>
    runStages env fuel comp rest visited' ctxs'
/-- `compute_fold`. -/
def computeFold (env : Env) : Nat → Component → Fold → List Ctx → R (List Ctx)
  | fuel, parent, fold, ctxs =>
    match parent.vertex? fold.fromVid with
    | none => .panic "component.vertices[&fold.from_vid]"
    | some fromV =>
      (mapR (importTags env parent fold.imports) ctxs).bind fun ctxs1 =>
      (mapR (fun c => c.activate fold.fromVid) ctxs1).bind fun ctxs2 =>
      (foldLimits env parent fold).bind fun lim =>
      filterMapR (fun c => foldOne env fuel parent fold fromV.typeName lim c) ctxs2
/-- the body of `folded_iterator` / post-filters / `final_iterator` for one context -/
def foldOne (env : Env) : Nat → Component → Fold → Name → Option Nat × Option Nat → Ctx → R (Option Ctx)
  | fuel, parent, fold, fromType, lim, c =>
    (env.adapter.nbrs fold.eid fromType fold.name fold.params c.active).bind fun ns =>
    (computeComponent env fuel fold.component (foldStart c ns)).bind
      (foldFinish env parent fold lim c)
end

/-! ### outputs -/

/-- `construct_outputs` for one context. -/
def constructRow (env : Env) (comp : Component) (c : Ctx) : R Row := do
  let own ← mapR (fun (o : OutputDef) =>
      match c.vertexAt? o.vid with
      | some v => do
        let t ← comp.typeOf o.vid
        let x ← env.adapter.prop o.vid t o.field v
        pure (o.name, x)
      | none => R.panic "context.vertices[&vertex_id]") comp.outputs
  let folded := c.foldedValues.map fun p => (p.1.2, p.2.getD Value.null)
  let all := own ++ folded
  let names := all.map (·.1)
  if names.eraseDups.length != names.length then .panic "assert!(existing.is_none())"
  else pure (all.foldr insertSorted [])

/-- Nesting depth of folds is bounded by the fuel; 64 levels is far beyond any query the frontend
numbers (the harness never nests deeper than 4). -/
def fuelFor (_ir : IRQuery) : Nat := 64

/-- The pipeline from a list of starting vertices to rows. -/
def interpretFrom (env : Env) (ir : IRQuery) (starts : List VertexId) : R (List Row) :=
  (computeComponent env (fuelFor ir) ir.rootComponent (starts.map fun v => Ctx.new (some v))).bind
    (mapR (constructRow env ir.rootComponent))

/-- `interpret_ir` after argument validation. -/
def interpret (env : Env) (ir : IRQuery) : R (List Row) :=
  (env.adapter.start ir.rootName ir.rootParams ir.rootComponent.root).bind (interpretFrom env ir)

end TF.Engine
