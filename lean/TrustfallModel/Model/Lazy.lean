/-
The top-level pull discipline of the engine (`interpret_ir`): the result iterator is a chain of
`map` / `filter_map` / `flat_map` adaptors over the iterator of starting vertices, so a `next()` on
it pulls starting vertices one at a time until one of them contributes a row.  Model: a machine
whose state is (sources not yet pulled, rows computed but not yet handed out, pull counter),
generic in the per-source row function `per`.
-/
namespace TF.Lazy

structure M (α β : Type) where
  remaining : List α
  buffer : List β
  pulled : Nat
  deriving Repr

def M.init {α β : Type} (xs : List α) : M α β := ⟨xs, [], 0⟩

/-- Pull sources until one contributes rows; returns that first row with the rest of its block. -/
def pullUntil {α β : Type} (per : α → List β) : List α → Nat → Option (β × List β) × List α × Nat
  | [], n => (none, [], n)
  | x :: xs, n =>
    match per x with
    | [] => pullUntil per xs (n + 1)
    | b :: bs => (some (b, bs), xs, n + 1)

/-- One `next()` on the result iterator. -/
def M.next {α β : Type} (per : α → List β) (m : M α β) : Option β × M α β :=
  match m.buffer with
  | b :: bs => (some b, { m with buffer := bs })
  | [] =>
    match pullUntil per m.remaining m.pulled with
    | (some (b, bs), rest, n) => (some b, ⟨rest, bs, n⟩)
    | (none, rest, n) => (none, ⟨rest, [], n⟩)

/-- `k` calls of `next()`, collecting the rows handed out (stops adding once exhausted). -/
def M.run {α β : Type} (per : α → List β) : Nat → M α β → List β × M α β
  | 0, m => ([], m)
  | k + 1, m =>
    match m.next per with
    | (some b, m') => let (bs, m'') := M.run per k m'; (b :: bs, m'')
    | (none, m') => ([], m')

/-- Number of sources that must be pulled to obtain `k ≥ 1` rows (the *demand* of the `k`-th row). -/
def pullsFor {α β : Type} (per : α → List β) : List α → Nat → Nat
  | [], _ => 0
  | x :: xs, k =>
    if k = 0 then 0
    else if k ≤ (per x).length then 1
    else 1 + pullsFor per xs (k - (per x).length)

end TF.Lazy
