/-
Model of the output typing of `IndexedQuery::try_from` (`trustfall_core/src/ir/indexed.rs`):
`get_optional_vertices_in_component`, `get_output_type`, and the walk of
`add_data_from_component` that collects the declared outputs (name, type, vertex) of a query.
-/
import TrustfallModel.Model.IR

namespace TF.Engine

/-- `get_optional_vertices_in_component`: the destination of an `@optional` edge, and of any edge
leaving an optional vertex (edges visited in Eid order). -/
def optionalVertices (edges : List IREdge) : List Vid :=
  edges.foldl (fun acc e => if e.optional || acc.contains e.fromVid then acc ++ [e.toVid] else acc) []

/-- `get_output_type`: nullable when the vertex is optional in its component, then one list level per
enclosing fold (outermost first in `foldsOptional`), each nullable iff that fold hangs off an
optional vertex. -/
def outputType (vid : Vid) (fieldTy : QTy) (optional : List Vid) (foldsOptional : List Bool) : QTy :=
  let inner : List Bool := if optional.contains vid then
      (match fieldTy.nulls with
        | [] => []
        | _ :: rest => true :: rest)
    else fieldTy.nulls
  ⟨fieldTy.base, foldsOptional ++ inner⟩

structure DeclaredOutput where
  name : Name
  ty : QTy
  vid : Vid
  deriving Repr, Inhabited

def intNonNull : QTy := ⟨"Int", [false]⟩

mutual
/-- `add_data_from_component` (outputs only): own outputs, then per fold its count outputs and,
recursively, the outputs of its component with one more fold level. -/
def declaredOutputs : Component → List Bool → List DeclaredOutput
  | .mk _ _ edges folds outputs, foldsOptional =>
    let opt := optionalVertices edges
    (outputs.map fun o => ⟨o.name, outputType o.vid o.ty opt foldsOptional, o.vid⟩) ++
      declaredOutputsFolds folds opt foldsOptional
def declaredOutputsFolds : List Fold → List Vid → List Bool → List DeclaredOutput
  | [], _, _ => []
  | (.mk _ fromVid toVid _ _ comp _ fouts _) :: fs, opt, foldsOptional =>
    (fouts.map fun n => ⟨n, outputType fromVid intNonNull opt foldsOptional, toVid⟩) ++
      declaredOutputs comp (foldsOptional ++ [opt.contains fromVid]) ++
      declaredOutputsFolds fs opt foldsOptional
end

def insertOutSorted (o : DeclaredOutput) : List DeclaredOutput → List DeclaredOutput
  | [] => [o]
  | x :: xs => if o.name < x.name then o :: x :: xs else x :: insertOutSorted o xs

/-- `IndexedQuery::outputs` (a `BTreeMap` by name). -/
def IRQuery.outputs (q : IRQuery) : List DeclaredOutput :=
  (declaredOutputs q.rootComponent []).foldr insertOutSorted []

end TF.Engine
