/-
Model of `pytrustfall/src/value.rs`: the shim `FieldValue` and its conversions to and from Python
objects (`impl IntoPyObject for FieldValue`, `impl FromPyObject for FieldValue`).

Python objects (`Py`):
* `none`, `bool b` (exactly Python `bool`), `int z` (a Python `int` that is not a `bool`, any
  magnitude), `float k` (a *finite* Python `float`, carried as the order-preserving integer key of
  its f64 – the same key as `Value.float64`), `floatNonFinite` (`nan`, `inf`, `-inf`), `str s`
  (UTF-8 bytes of a `str` without lone surrogates), `list l` (a Python `list`, not a tuple), `other`
  (any object that is none of the above and implements none of `__index__`, `__float__`: `dict`,
  `tuple`, `bytes`, `object()` …).

Objects are classified by KIND the way the extractors do, not by exact type: an instance of a
subclass of `int` / `float` / `str` / `list` (`class Tag(str)`, `enum.IntEnum`, `enum.StrEnum`,
`(str, Enum)` members, …) is the `int` / `float` / `str` / `list` with the same value (all the
checks below are `Py*_Check` subclass checks, `is_instance_of::<PyInt>` included); it comes back
from Rust as a plain instance of the base type.  `bool` cannot be subclassed.  A tuple is `other`.

pyo3 0.29 `extract` semantics transcribed (pyo3 `conversions/std/num.rs`, `types/boolobject.rs`,
`types/float.rs`, `conversions/std/string.rs`):
* `extract::<bool>`  succeeds only on a Python `bool` (`cast::<PyBool>`; numpy bools are outside the
  model);
* `extract::<i64>`   `PyLong_AsLong` (3.10+: goes through `__index__`): succeeds on an `int`
  (`bool` is an `int` too, but it is tried earlier) iff `-2^63 ≤ z < 2^63`, `OverflowError`
  otherwise; `TypeError` on `float`, `str`, `list`, `None`;
* `extract::<u64>`   `PyLong_AsUnsignedLongLong` on an `int`: succeeds iff `0 ≤ z < 2^64`;
* `extract::<f64>`   `PyFloat_AsDouble`: a `float` gives itself; pyo3 would accept an `int` too
  (`int.__float__`), which is why the code guards this branch with
  `!value.is_instance_of::<PyInt>()` (fix of F-25: an int outside both 64-bit ranges is no longer
  rounded to a float, it falls through to the "not supported" error); `TypeError` on `str`,
  `list`, `None`;
* `extract::<String>` only on `str`;
* `cast::<PyList>`   only on `list` (and subclasses).

The conversion tries, in this order: `is_none`, `bool`, `i64`, `u64`, `f64` unless the object is an
`int` (then the finiteness test), `String`, list, and otherwise fails with "… is not supported by
Trustfall".

History (code before the fix of F-24 / F-25, modelled by earlier revisions of this file):
* F-24: the list check compared `std::mem::discriminant`, so `[1, 2^63]` (`Int64` vs `Uint64`) was
  rejected with `mixedList`; now `kind_discriminant` identifies the two integer variants.
* F-25: the `f64` branch was tried for ints, so `2^64` became `Float64(1.8446744073709552e19)`
  (round-half-even of `PyLong_AsDouble`), `2^64 + 1` the same float, `-2^63 - 1` a negative float;
  only ints rounding to ≥ 2^1024 were rejected.
-/
import TrustfallModel.Model.Value

namespace TF

inductive Py where
  | none
  | bool (b : Bool)
  | int (z : Int)
  | float (k : Int)
  | floatNonFinite
  | str (s : Bytes)
  | list (l : List Py)
  | other
  deriving Repr, Inhabited

namespace PyValue

/-- The three `PyValueError`s of `FromPyObject for FieldValue`. -/
inductive Err where
  /-- "float values may not be NaN or infinity" -/
  | nonFinite
  /-- "Found elements of different (non-null) types in the same list" -/
  | mixedList
  /-- "Value … of type … is not supported by Trustfall" -/
  | unsupported
  deriving Repr, DecidableEq, Inhabited

/-- `value.extract::<i64>()` on a Python int. -/
def fitsI64 (z : Int) : Bool := -(2 ^ 63 : Int) ≤ z && z < (2 ^ 63 : Int)
/-- `value.extract::<u64>()` on a Python int. -/
def fitsU64 (z : Int) : Bool := 0 ≤ z && z < (2 ^ 64 : Int)

/-- The branch chain of `extract` on a Python `int` (not a `bool`). -/
def fromInt (z : Int) : Except Err Value :=
  if fitsI64 z then .ok (.int64 (Int64.ofInt z))          -- `extract::<i64>()` is `Ok`
  else if fitsU64 z then .ok (.uint64 (UInt64.ofNat z.toNat))  -- `extract::<u64>()` is `Ok`
  else .error .unsupported   -- `f64` branch skipped for `PyInt` → String ✗ → list ✗ → else

def isNull : Value → Bool
  | .null => true
  | _ => false

/-- The shape of the "same type" loop: skip leading nulls, take the first non-null element, compare
the tag of every later non-null element with the tag of that first one. -/
def checkBy {α : Type} (isN : α → Bool) (tag : α → Nat) (l : List α) : Bool :=
  match l.dropWhile isN with
  | [] => true
  | first :: rest => rest.all (fun o => isN o || tag o == tag first)

/-- `FieldValue::kind_discriminant`: `std::mem::discriminant`, except that `Uint64` reports the
discriminant of `Int64` (both are the Python / Trustfall type `int`). -/
def kindDisc : Value → Nat
  | .uint64 _ => 1
  | v => v.disc

/-- "Ensure all non-null items in the list are of the same type": the tag is `kind_discriminant`. -/
def listCheck (vs : List Value) : Bool := checkBy isNull kindDisc vs

mutual
/-- `impl FromPyObject for FieldValue`. -/
def fromPy : Py → Except Err Value
  | .none => .ok .null
  | .bool b => .ok (.boolean b)
  | .int z => fromInt z
  | .float k => .ok (.float64 k)
  | .floatNonFinite => .error .nonFinite
  | .str s => .ok (.string s)
  | .list l =>
    match fromPyList l with
    | .error e => .error e        -- `element.extract::<FieldValue>()?`
    | .ok vs => if listCheck vs then .ok (.list vs) else .error .mixedList
  | .other => .error .unsupported
/-- The element loop: stops at the first element that fails. -/
def fromPyList : List Py → Except Err (List Value)
  | [] => .ok []
  | p :: ps =>
    match fromPy p with
    | .error e => .error e
    | .ok v =>
      match fromPyList ps with
      | .error e => .error e
      | .ok vs => .ok (v :: vs)
end

mutual
/-- `impl IntoPyObject for FieldValue`; `none` is the `todo!()` panic of the `Enum` arm. -/
def toPy : Value → Option Py
  | .null => some .none
  | .uint64 u => some (.int (u.toNat : Int))
  | .int64 i => some (.int i.toInt)
  | .float64 k => some (.float k)
  | .string s => some (.str s)
  | .boolean b => some (.bool b)
  | .enum _ => Option.none
  | .list l =>
    match toPyList l with
    | some ps => some (.list ps)
    | Option.none => Option.none
def toPyList : List Value → Option (List Py)
  | [] => some []
  | v :: vs =>
    match toPy v with
    | Option.none => Option.none
    | some p =>
      match toPyList vs with
      | Option.none => Option.none
      | some ps => some (p :: ps)
end

/-! ### Guards used by the property statements -/

mutual
/-- No `Enum` anywhere (the shim's `Enum` arm is `todo!()`; nothing produces enums today). -/
def noEnum : Value → Bool
  | .enum _ => false
  | .list l => noEnumList l
  | _ => true
def noEnumList : List Value → Bool
  | [] => true
  | v :: vs => noEnum v && noEnumList vs
end

mutual
/-- Every list, at every depth, holds (apart from nulls) values of one kind — null / integer (either
representation) / float / string / boolean / list.  Every value of a schema type is of this shape;
a Rust `FieldValue::List` mixing, say, an integer and a string has no Trustfall type and no Python
counterpart that converts back. -/
def homogeneous : Value → Bool
  | .list l => homogeneousList l && listCheck l
  | _ => true
def homogeneousList : List Value → Bool
  | [] => true
  | v :: vs => homogeneous v && homogeneousList vs
end

/-! ### Python-side description of what is rejected (independent of `fromPy`) -/

/-- Kind a Python object converts to (meaningful when it is accepted). -/
def pyDisc : Py → Nat
  | .none => 0
  | .bool _ => 5
  | .int _ => 1
  | .float _ => 3
  | .floatNonFinite => 3
  | .str _ => 4
  | .list _ => 7
  | .other => 8

def pyIsNone : Py → Bool
  | .none => true
  | _ => false

def pyListCheck (ps : List Py) : Bool := checkBy pyIsNone pyDisc ps

mutual
/-- What the code rejects: a non-finite float, an unsupported object, an int outside
`[-2^63, 2^64)`, a list with a rejected element, or a list whose non-`None` elements are of
different kinds (`bool`, `int`, `float`, `str`, `list`). -/
def rejects : Py → Bool
  | .floatNonFinite => true
  | .other => true
  | .int z => !fitsI64 z && !fitsU64 z
  | .list l => rejectsAny l || !pyListCheck l
  | _ => false
def rejectsAny : List Py → Bool
  | [] => false
  | p :: ps => rejects p || rejectsAny ps
end

def isOk {ε α : Type} : Except ε α → Bool
  | .ok _ => true
  | .error _ => false

end PyValue
end TF
