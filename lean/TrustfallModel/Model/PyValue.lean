/-
Model of `pytrustfall/src/value.rs`: the shim `FieldValue` and its conversions to and from Python
objects (`impl IntoPyObject for FieldValue`, `impl FromPyObject for FieldValue`).

Python objects (`Py`):
* `none`, `bool b` (exactly Python `bool`), `int z` (a Python `int` that is not a `bool`, any
  magnitude), `float k` (a *finite* Python `float`, carried as the order-preserving integer key of
  its f64 – the same key as `Value.float64`), `floatNonFinite` (`nan`, `inf`, `-inf`), `str s`
  (UTF-8 bytes of a `str` without lone surrogates), `list l` (a Python `list`, not a tuple), `other`
  (any object that is none of the above and implements none of `__index__`, `__float__`: `dict`,
  `tuple`, `bytes`, `object()` …).

pyo3 0.29 `extract` semantics transcribed (pyo3 `conversions/std/num.rs`, `types/boolobject.rs`,
`types/float.rs`, `conversions/std/string.rs`):
* `extract::<bool>`  succeeds only on a Python `bool` (`cast::<PyBool>`; numpy bools are outside the
  model);
* `extract::<i64>`   `PyLong_AsLong` (3.10+: goes through `__index__`): succeeds on an `int`
  (`bool` is an `int` too, but it is tried earlier) iff `-2^63 ≤ z < 2^63`, `OverflowError`
  otherwise; `TypeError` on `float`, `str`, `list`, `None`;
* `extract::<u64>`   `PyLong_AsUnsignedLongLong` on an `int`: succeeds iff `0 ≤ z < 2^64`;
* `extract::<f64>`   `PyFloat_AsDouble`: a `float` gives itself; an **`int` is accepted too**
  (`int.__float__`, `PyLong_AsDouble`): correctly rounded (round-half-even to 53 bits),
  `OverflowError` when the rounded magnitude is ≥ 2^1024; `TypeError` on `str`, `list`, `None`;
* `extract::<String>` only on `str`;
* `cast::<PyList>`   only on `list` (and subclasses).

The conversion tries, in this order: `is_none`, `bool`, `i64`, `u64`, `f64` (then the finiteness
test), `String`, list, and otherwise fails with "… is not supported by Trustfall".
-/
import TrustfallModel.Model.Value

namespace TF

inductive Py where
  | none
  | bool (b : Bool)
  | int (z : Int)
  | float (k : Int)
  | floatNonFinite
  | str (s : Bytes)
  | list (l : List Py)
  | other
  deriving Repr, Inhabited

namespace PyValue

/-- The three `PyValueError`s of `FromPyObject for FieldValue`. -/
inductive Err where
  /-- "float values may not be NaN or infinity" -/
  | nonFinite
  /-- "Found elements of different (non-null) types in the same list" -/
  | mixedList
  /-- "Value … of type … is not supported by Trustfall" -/
  | unsupported
  deriving Repr, DecidableEq, Inhabited

/-! ### `PyLong_AsDouble` on integers outside the 64-bit ranges -/

/-- Magnitude bits (sign bit cleared) of the f64 nearest to `n` (round-half-even), for `n ≥ 2^53`;
`none` when the rounded value is ≥ 2^1024 (`OverflowError: int too large to convert to float`).
Mirrors `_PyLong_Frexp` + `ldexp`. -/
def natToF64Bits (n : Nat) : Option Nat :=
  let e := n.log2                      -- 2^e ≤ n < 2^(e+1)
  let shift := e - 52                  -- keep 53 significant bits
  let q := n >>> shift
  let r := n - (q <<< shift)
  let half := 1 <<< (shift - 1)
  let up := shift ≠ 0 && (r > half || (r == half && q % 2 == 1))
  let q' := if up then q + 1 else q
  -- rounding may carry into the next binade
  let (m, e') := if q' == 2 ^ 53 then (2 ^ 52, e + 1) else (q', e)
  if e' > 1023 then Option.none else some ((e' + 1023) * 2 ^ 52 + (m - 2 ^ 52))

/-- Order key (see `values.rs::float_key`) of the f64 that `PyLong_AsDouble` returns for `z`,
for `|z| ≥ 2^53`. -/
def intToF64Key (z : Int) : Option Int :=
  match natToF64Bits z.natAbs with
  | Option.none => Option.none
  | some bits => some (if z < 0 then -(bits : Int) else (bits : Int))

/-- `value.extract::<i64>()` on a Python int. -/
def fitsI64 (z : Int) : Bool := -(2 ^ 63 : Int) ≤ z && z < (2 ^ 63 : Int)
/-- `value.extract::<u64>()` on a Python int. -/
def fitsU64 (z : Int) : Bool := 0 ≤ z && z < (2 ^ 64 : Int)

/-- The branch chain of `extract` on a Python `int` (not a `bool`). -/
def fromInt (z : Int) : Except Err Value :=
  if fitsI64 z then .ok (.int64 (Int64.ofInt z))          -- `extract::<i64>()` is `Ok`
  else if fitsU64 z then .ok (.uint64 (UInt64.ofNat z.toNat))  -- `extract::<u64>()` is `Ok`
  else match intToF64Key z with                            -- `extract::<f64>()` accepts ints
    | some k => .ok (.float64 k)                           --   (always finite when it succeeds)
    | Option.none => .error .unsupported                   -- OverflowError → String ✗ → list ✗ → else

def isNull : Value → Bool
  | .null => true
  | _ => false

/-- The shape of the "same type" loop: skip leading nulls, take the first non-null element, compare
the tag of every later non-null element with the tag of that first one. -/
def checkBy {α : Type} (isN : α → Bool) (tag : α → Nat) (l : List α) : Bool :=
  match l.dropWhile isN with
  | [] => true
  | first :: rest => rest.all (fun o => isN o || tag o == tag first)

/-- "Ensure all non-null items in the list are of the same type": the tag is
`std::mem::discriminant` of the shim `FieldValue` (so `Int64` and `Uint64` differ). -/
def listCheck (vs : List Value) : Bool := checkBy isNull Value.disc vs

mutual
/-- `impl FromPyObject for FieldValue`. -/
def fromPy : Py → Except Err Value
  | .none => .ok .null
  | .bool b => .ok (.boolean b)
  | .int z => fromInt z
  | .float k => .ok (.float64 k)
  | .floatNonFinite => .error .nonFinite
  | .str s => .ok (.string s)
  | .list l =>
    match fromPyList l with
    | .error e => .error e        -- `element.extract::<FieldValue>()?`
    | .ok vs => if listCheck vs then .ok (.list vs) else .error .mixedList
  | .other => .error .unsupported
/-- The element loop: stops at the first element that fails. -/
def fromPyList : List Py → Except Err (List Value)
  | [] => .ok []
  | p :: ps =>
    match fromPy p with
    | .error e => .error e
    | .ok v =>
      match fromPyList ps with
      | .error e => .error e
      | .ok vs => .ok (v :: vs)
end

mutual
/-- `impl IntoPyObject for FieldValue`; `none` is the `todo!()` panic of the `Enum` arm. -/
def toPy : Value → Option Py
  | .null => some .none
  | .uint64 u => some (.int (u.toNat : Int))
  | .int64 i => some (.int i.toInt)
  | .float64 k => some (.float k)
  | .string s => some (.str s)
  | .boolean b => some (.bool b)
  | .enum _ => Option.none
  | .list l =>
    match toPyList l with
    | some ps => some (.list ps)
    | Option.none => Option.none
def toPyList : List Value → Option (List Py)
  | [] => some []
  | v :: vs =>
    match toPy v with
    | Option.none => Option.none
    | some p =>
      match toPyList vs with
      | Option.none => Option.none
      | some ps => some (p :: ps)
end

/-! ### Guards used by the property statements -/

mutual
/-- No `Enum` anywhere (the shim's `Enum` arm is `todo!()`; nothing produces enums today). -/
def noEnum : Value → Bool
  | .enum _ => false
  | .list l => noEnumList l
  | _ => true
def noEnumList : List Value → Bool
  | [] => true
  | v :: vs => noEnum v && noEnumList vs
end

/-- The variant that comes back from Python: an unsigned value below `2^63` returns as `Int64`. -/
def backDisc : Value → Nat
  | .uint64 u => if u.toNat < 2 ^ 63 then 1 else 2
  | v => v.disc

/-- `listCheck` phrased on the variants that will come back. -/
def backCheck (vs : List Value) : Bool := checkBy isNull backDisc vs

mutual
/-- Every list, at every depth, holds (apart from nulls) values that return from Python as one and
the same variant; in particular no list mixes integers below and at-or-above `2^63`. -/
def homogeneous : Value → Bool
  | .list l => homogeneousList l && backCheck l
  | _ => true
def homogeneousList : List Value → Bool
  | [] => true
  | v :: vs => homogeneous v && homogeneousList vs
end

/-! ### Python-side description of what is rejected (independent of `fromPy`) -/

/-- Variant a Python object converts to (meaningful when it is accepted). -/
def pyDisc : Py → Nat
  | .none => 0
  | .bool _ => 5
  | .int z => if fitsI64 z then 1 else if fitsU64 z then 2 else 3
  | .float _ => 3
  | .floatNonFinite => 3
  | .str _ => 4
  | .list _ => 7
  | .other => 8

def pyIsNone : Py → Bool
  | .none => true
  | _ => false

def pyListCheck (ps : List Py) : Bool := checkBy pyIsNone pyDisc ps

mutual
/-- What the code rejects: a non-finite float, an unsupported object, an int so large that even the
float conversion overflows, a list with a rejected element, or a list whose non-`None` elements
convert to different variants (`int` below `2^63` vs `int` from `2^63` up count as different). -/
def rejects : Py → Bool
  | .floatNonFinite => true
  | .other => true
  | .int z => !fitsI64 z && !fitsU64 z && (intToF64Key z).isNone
  | .list l => rejectsAny l || !pyListCheck l
  | _ => false
def rejectsAny : List Py → Bool
  | [] => false
  | p :: ps => rejects p || rejectsAny ps
end

mutual
/-- Every Python int inside (at any depth) lies in `[-2^63, 2^64)`. -/
def intsInRange : Py → Bool
  | .int z => fitsI64 z || fitsU64 z
  | .list l => intsInRangeList l
  | _ => true
def intsInRangeList : List Py → Bool
  | [] => true
  | p :: ps => intsInRange p && intsInRangeList ps
end

def isOk {ε α : Type} : Except ε α → Bool
  | .ok _ => true
  | .error _ => false

end PyValue
end TF
