/-
Model of the parse layer of the Trustfall frontend:
`trustfall_core/src/graphql_query/query.rs` (`parse_document`, `try_get_query_root`,
`parse_operation_definition`, `make_directives`, `make_field_node`, `make_field_connection`,
`make_fold_group`, `make_transform_group`) and `graphql_query/directives.rs` (every
`TryFrom<&Positioned<Directive>>`, `ensure_name_is_valid`), plus `TryFrom<Value> for FieldValue`
(`ir/value.rs`) as used for edge arguments.

Input: the *abstract document* produced by the external text parser (`async-graphql-parser`,
not modelled): `ExecutableDocument { operations, fragments }` with positions dropped.
Representation choices:
* names and string values are Lean `String`s (only `==`, `++`, `toList`, `Char.isAlpha`,
  `Char.isAlphanum` are used, all of which the kernel evaluates, so witnesses are `by decide`);
* `HashMap`s of the document (`operations`, `fragments`) are lists: the code only looks at their
  size and, for size 1, at the single element, so iteration order cannot influence the outcome class;
* numbers are `serde_json::Number`s: `int i` for an integer literal in `[-2^63, 2^64)`, `float` for
  everything else (the text of the literal is carried along for the harness, the model ignores it);
* `Value::Binary` cannot be written in GraphQL text and is not modelled;
* errors are modelled by *variant name* (`ParseErr`), not by message or position;
* every `expect/unwrap/unreachable!/assert!/index` is an explicit `panic site` outcome, never a
  default value.  Whether a site is reachable is the subject of `Props/C10.lean`.
* `usize` is 64 bits (`v as usize` in `RecurseDirective::try_from` is the identity).

Core Lean only (compiled into the native driver).
-/

namespace TF.FE

/-- Panic sites of the frontend (parse layer first, then `frontend/*`, then the `IndexedQuery`
conversion performed by `frontend::parse`).  Each constructor names one `expect/unwrap/
unreachable!/unimplemented!/assert!/index` expression of the Rust source. -/
inductive Site where
  /-- query.rs:132 `mult.values().nth(1).expect(..)` (was `nth(2)`: **F-6**, fixed). -/
  | opsNth2
  /-- query.rs:139 `unreachable!` on `DocumentOperations::Multiple` with no entries. -/
  | opsMultipleEmpty
  /-- query.rs:172 `root_items[1]` when the operation's selection set is empty. -/
  | rootItemsIndex
  /-- query.rs:186 `unreachable!` "root_node with no items". -/
  | rootItemsEmpty
  /-- query.rs:287 `_ => unreachable!()` after `find` returned an inline fragment. -/
  | inlineNotInline
  /-- query.rs:506 `assert!(directive_iter.next().is_none())`. -/
  | transformLeftover
  /-- query.rs:523 `assert!(root_connection.optional.is_none())`. -/
  | rootOptional
  /-- query.rs:524 `assert!(root_connection.recurse.is_none())`. -/
  | rootRecurse
  /-- query.rs:525 `assert!(root_connection.fold.is_none())`. -/
  | rootFold
  /-- directives.rs:118 `name.chars().next().unwrap()`. -/
  | operandFirstChar
  /-- directives.rs:140 `unreachable!()` (operand starts with neither `$` nor `%`). -/
  | operandPrefix
  /-- directives.rs:172–189 `parsed_args.pop().unwrap()`. -/
  | filterPop
  /-- directives.rs:263 `output_argument_node.unwrap()`. -/
  | outputArgNode
  /-- directives.rs:411 `tag_argument_node.unwrap()`. -/
  | tagArgNode
  -- ---- frontend/validation.rs
  /-- validation.rs:38–39 `assert_eq!(connection.name, node.name)` / `alias`. -/
  | connNodeMismatch
  /-- validation.rs:68 `schema.vertex_types[pre_coercion_type_name]` (**F-8**, fixed: the index
  expression was replaced by `.get(..)`; the site no longer exists in the code or the model). -/
  | coercePropertyIndex
  /-- validation.rs:87 `unreachable!()` (coerced-to type is not an object/interface). -/
  | coerceKind
  /-- validation.rs:115–119 `path.pop().unwrap()` / `assert_eq!(old_path_length, ..)`. -/
  | validatePath
  -- ---- frontend/mod.rs
  /-- mod.rs:102 `unreachable!()` in `get_field_name_and_type_from_schema`. -/
  | fieldLookup
  /-- mod.rs:130 `unreachable!()` in `get_edge_definition_from_schema` for the root field
  (`{ __typename }`: **N-1** / F-C10-1, fixed: validation now refuses that root field). -/
  | rootEdgeLookup
  /-- mod.rs:130 `unreachable!()` in `get_edge_definition_from_schema` elsewhere. -/
  | edgeLookup
  /-- mod.rs:137/140 `schema.vertex_types[type_name]` / kind `unreachable!()`. -/
  | vertexTypeIndex
  /-- mod.rs:163/167 default value of an edge parameter does not convert / is invalid. -/
  | paramDefault
  /-- base.rs:380 `unimplemented!` in `is_valid_value` on an enum-valued edge argument (**N-2** /
  F-C10-2, fixed: the enum arm is `false`, the argument is refused with `InvalidEdgeParameterType`;
  the site no longer exists in the code or the model). -/
  | enumArgument
  /-- mod.rs:195 `edge_arguments.insert_or_error(..).unwrap()` (duplicated parameter name in the
  schema's edge definition) — **N-5** when the schema declares a parameter twice (F-C10-5; since its
  repair `Schema::new` rejects such a schema, so the site needs a `Schema` that validation cannot
  produce). -/
  | paramDuplicate
  /-- mod.rs:309 `root_parameters.unwrap()`. -/
  | rootParametersUnwrap
  /-- mod.rs:399/405 `ir_vertices[&vid]` in `make_duplicated_output_names_error` called from
  `make_query_component` (**N-3** / F-C10-3, fixed: the call now passes the component's vertices
  together with those of its folds). -/
  | dupOutputVertexIndex
  /-- the same index expressions when called from `make_ir_for_query` (mod.rs:302) with the
  vertices of all components (`collect_ir_vertices`). -/
  | dupOutputGlobalIndex
  /-- mod.rs:513 `try_collect_unique().unwrap()`. -/
  | vertexCollect
  /-- mod.rs:521/537 `ir_vertices[from_vid]`. -/
  | edgeFromVertexIndex
  /-- mod.rs:706/710 `schema.field_origins[..]` / `schema.fields[..]`. -/
  | originIndex
  /-- mod.rs:787 `properties.get(..).unwrap()`. -/
  | propertyLookup
  /-- mod.rs:846 `vertices.insert_or_error(..).unwrap()`. -/
  | vertexInsert
  /-- mod.rs:919 `edges.insert_or_error(..).expect(..)`. -/
  | edgeInsert
  /-- mod.rs:980–981 `assert_eq!` on a repeated property's name/type. -/
  | propertyRepeat
  /-- mod.rs:1048 `unreachable!("field name: ..")`. -/
  | fieldKind
  /-- mod.rs:1111 `unimplemented!("re-transforming ..")` (**F-7**: unreachable since the parse layer
  refuses a second `@transform`). -/
  | retransform
  /-- error.rs:320 `assert!(!v.is_empty())` in `From<Vec<FrontendError>>`. -/
  | emptyErrors
  -- ---- frontend/filters.rs
  /-- filters.rs:148 `unreachable!()` in `infer_variable_type` for a unary operator. -/
  | inferUnary
  /-- base.rs:160 `panic!("too many nested lists")` from `Type::new_list_type` in
  `infer_variable_type` (`one_of` on a 30-level list property) — **N-6**. -/
  | oneOfListDepth
  /-- filters.rs:243.. `right_type.unwrap()` (binary operator without right operand). -/
  | rightTypeUnwrap
  /-- filters.rs:250.. `right.unwrap().as_tag().unwrap()` on a *variable* operand (**F-12** was
  the instance in `ordering_types_valid`, fixed: that check now looks at tags only). -/
  | asTagUnwrap
  /-- filters.rs:256.. `tag_name.unwrap()`. -/
  | tagNameUnwrap
  -- ---- frontend/tags.rs, outputs.rs, util.rs
  /-- tags.rs:54–55 `component_imported_tags.pop().unwrap()` / `assert_eq!`. -/
  | tagsEndSubcomponent
  /-- tags.rs:76 `use_path[entry.path.len()]`. -/
  | tagsUsePathIndex
  /-- tags.rs:81–82 `component_imported_tags.get_mut(..).unwrap()` / `assert_eq!`. -/
  | tagsImportSlot
  /-- outputs.rs:32 `assert!(prior_value.is_none())`. -/
  | outputsPrefixInsert
  /-- outputs.rs:36–37 `vid_stack.pop().expect(..)` / `assert_eq!`. -/
  | outputsEndScope
  /-- outputs.rs:45 `component_outputs_stack.pop().expect(..)`. -/
  | outputsEndSubcomponent
  /-- outputs.rs:61 `self.prefixes[vid]`. -/
  | outputsPrefixIndex
  /-- outputs.rs:75 `component_outputs_stack.last_mut().expect(..)`. -/
  | outputsRegister
  /-- outputs.rs:106–107 `assert!(..is_empty())` in `finish`. -/
  | outputsFinish
  /-- util.rs:43–44 `path.pop().unwrap()` / `assert_eq!` in `ComponentPath::pop`. -/
  | componentPathPop
  /-- util.rs:60 `path.last().expect("empty component path")`. -/
  | componentPathLast
  -- ---- ir/indexed.rs via `frontend::parse`
  /-- base.rs:160 `panic!("too many nested lists")` from `get_output_type` (an output under more
  `@fold`s than its type has list levels to spare) — **N-4**. -/
  | outputListDepth
  /-- mod.rs:51 `ir_query.try_into().unwrap()` (`IndexedQuery::try_from` returned `Err`). -/
  | indexedQueryUnwrap
  deriving DecidableEq, Repr, Inhabited

/-- Result of a step that may return a typed error or panic. -/
inductive Res (ε α : Type) where
  | ok (a : α)
  | err (e : ε)
  | panic (s : Site)
  deriving Repr, Inhabited

namespace Res
variable {ε α β : Type}

@[inline] def bind : Res ε α → (α → Res ε β) → Res ε β
  | ok a, f => f a
  | err e, _ => err e
  | panic s, _ => panic s

instance : Monad (Res ε) where
  pure := ok
  bind := bind

/-- The site, when the outcome is a panic. -/
def panicSite? : Res ε α → Option Site
  | panic s => some s
  | _ => none

/-- `true` iff the outcome is a panic. -/
def isPanic (r : Res ε α) : Bool := r.panicSite?.isSome

/-- The outcome is not a panic. -/
def NoPanic (r : Res ε α) : Prop := ∀ s, r ≠ panic s

/-- Outcome class of a result: the success value is dropped (this is what the correspondence run
compares and what witnesses are stated about; it has decidable equality). -/
inductive Cls (ε : Type) where
  | ok
  | err (e : ε)
  | panic (s : Site)
  deriving DecidableEq, Repr

def cls : Res ε α → Cls ε
  | ok _ => .ok
  | err e => .err e
  | panic s => .panic s

theorem cls_eq_panic {r : Res ε α} {s : Site} : r.cls = .panic s ↔ r = panic s := by
  cases r <;> simp [cls]

theorem cls_eq_err {r : Res ε α} {e : ε} : r.cls = .err e ↔ r = err e := by
  cases r <;> simp [cls]

/-- `Option::ok_or(e)?`. -/
@[inline] def ofOption (e : ε) : Option α → Res ε α
  | some a => ok a
  | none => err e

/-- `Option::unwrap()` / `expect`. -/
@[inline] def unwrap (s : Site) : Option α → Res ε α
  | some a => ok a
  | none => panic s

/-- `assert!(b)`. -/
@[inline] def assert (s : Site) (b : Bool) : Res ε Unit := if b then ok () else panic s
end Res

/-! ## The abstract document (`async_graphql_parser::types::ExecutableDocument`) -/

/-- `serde_json::Number` as produced by the text parser. -/
inductive GNum where
  /-- an integer literal within `[-2^63, 2^64)` (`PosInt`/`NegInt`) -/
  | int (i : Int)
  /-- any other number literal (`Float`); the literal text is kept for the harness only -/
  | float (text : String)
  deriving Repr, Inhabited, DecidableEq

/-- `async_graphql_value::Value` (executable documents use `Value`, which admits variables). -/
inductive GValue where
  | var (name : String)
  | null
  | num (n : GNum)
  | str (s : String)
  | bool (b : Bool)
  | enum (name : String)
  | list (items : List GValue)
  | object (keys : List String) (vals : List GValue)
  deriving Repr, Inhabited

/-- One `name: value` argument. -/
structure Arg where
  name : String
  value : GValue
  deriving Repr, Inhabited

/-- `Directive { name, arguments }`. -/
structure Directive where
  name : String
  args : List Arg
  deriving Repr, Inhabited

/-- The non-recursive part of a `Field`. -/
structure FieldHead where
  alias : Option String
  name : String
  args : List Arg
  dirs : List Directive
  deriving Repr, Inhabited

/-- `Selection`. -/
inductive Selection where
  | field (h : FieldHead) (sels : List Selection)
  | spread (name : String) (dirs : List Directive)
  | inline (typeCond : Option String) (dirs : List Directive) (sels : List Selection)
  deriving Repr, Inhabited

inductive OpKind where
  | query | mutation | subscription
  deriving Repr, DecidableEq, Inhabited

/-- `OperationDefinition`; of the variable definitions only their number is kept (the code only
asks whether there is a first one). -/
structure Operation where
  kind : OpKind
  nVarDefs : Nat
  dirs : List Directive
  sels : List Selection
  deriving Repr, Inhabited

/-- `FragmentDefinition` (the parse layer rejects any document that has one). -/
structure Fragment where
  name : String
  typeCond : String
  dirs : List Directive
  sels : List Selection
  deriving Repr, Inhabited

/-- `DocumentOperations`. -/
inductive Ops where
  | single (op : Operation)
  | multiple (ops : List (String × Operation))
  deriving Repr, Inhabited

structure Doc where
  ops : Ops
  frags : List Fragment
  deriving Repr, Inhabited

/-! ## The parsed query (`graphql_query::query::Query`) -/

/-- `ParseError` by variant name. -/
inductive ParseErr where
  | UnrecognizedDirective | UnsupportedDirectivePosition | MissingRequiredDirectiveArgument
  | UnrecognizedDirectiveArgument | DuplicatedDirectiveArgument
  | InappropriateTypeForDirectiveArgument | FilterExpectsListNotString | InvalidFieldArgument
  | DocumentContainsNonInlineFragments | MultipleOperationsInDocument | MultipleQueryRoots
  | UnsupportedQueryRoot | DirectiveNotInsideQueryRoot | DocumentNotAQuery
  | UnsupportedFilterOperator | InvalidFilterOperandName | UnsupportedTransformOperator
  | InvalidOutputName | InvalidTagName | InvalidGraphQL | UnsupportedSyntax | NestedTypeCoercion
  | TypeCoercionWithSiblingFields | UnsupportedDuplicatedDirective | DuplicatedEdgeParameter
  | VariableDefinitionInQuery | OtherError
  deriving Repr, DecidableEq, Inhabited

/-- `FieldValue` as far as the frontend looks at it (kinds and list structure). -/
inductive FV where
  | null
  | int (i : Int)
  | float
  | str (s : String)
  | bool (b : Bool)
  | enum (s : String)
  | list (items : List FV)
  deriving Repr, Inhabited

/-- `OperatorArgument`. -/
inductive OpArg where
  | variable (name : String)
  | tag (name : String)
  deriving Repr, DecidableEq, Inhabited

/-- The binary operators of `ir::Operation`. -/
inductive BinOp where
  | equals | notEquals | lessThan | lessThanOrEqual | greaterThan | greaterThanOrEqual
  | contains | notContains | oneOf | notOneOf
  | hasPrefix | notHasPrefix | hasSuffix | notHasSuffix | hasSubstring | notHasSubstring
  | regexMatches | notRegexMatches
  deriving Repr, DecidableEq, Inhabited

/-- The operator named by `@filter(op: ..)`. -/
inductive FilterOp where
  | isNull | isNotNull
  | bin (op : BinOp)
  deriving Repr, DecidableEq, Inhabited

/-- `FilterDirective { operation: Operation<(), OperatorArgument> }`: as in the Rust enum, the two
unary variants carry no right operand and every binary variant carries one. -/
inductive FilterDirective where
  | isNull
  | isNotNull
  | binary (op : BinOp) (arg : OpArg)
  deriving Repr, DecidableEq, Inhabited

structure OutputDirective where
  name : Option String
  deriving Repr, DecidableEq, Inhabited

structure TagDirective where
  name : Option String
  deriving Repr, DecidableEq, Inhabited

/-- `RecurseDirective { depth: NonZeroUsize }`. -/
structure RecurseDirective where
  depth : Nat
  deriving Repr, DecidableEq, Inhabited

/-- `TransformGroup` (the only `TransformationKind` is `Count`). -/
inductive TransformGroup where
  | mk (outputs : List OutputDirective) (tags : List TagDirective) (filters : List FilterDirective)
      (retransform : Option TransformGroup)
  deriving Repr, Inhabited

namespace TransformGroup
def outputs : TransformGroup → List OutputDirective | mk o _ _ _ => o
def tags : TransformGroup → List TagDirective | mk _ t _ _ => t
def filters : TransformGroup → List FilterDirective | mk _ _ f _ => f
def retransform : TransformGroup → Option TransformGroup | mk _ _ _ r => r
end TransformGroup

/-- `FoldGroup { fold, transform }`. -/
structure FoldGroup where
  transform : Option TransformGroup
  deriving Repr, Inhabited

/-- `FieldConnection`. -/
structure FieldConnection where
  name : String
  alias : Option String
  arguments : List (String × FV)
  optional : Bool
  recurse : Option RecurseDirective
  fold : Option FoldGroup
  deriving Repr, Inhabited

/-- `FieldNode`; `connections : Vec<(FieldConnection, FieldNode)>`. -/
inductive FieldNode where
  | mk (name : String) (alias : Option String) (coercedTo : Option String)
      (filters : List FilterDirective) (outputs : List OutputDirective) (tags : List TagDirective)
      (connections : List (FieldConnection × FieldNode)) (transformGroup : Option TransformGroup)
  deriving Repr, Inhabited

namespace FieldNode
def name : FieldNode → String | mk n _ _ _ _ _ _ _ => n
def alias : FieldNode → Option String | mk _ a _ _ _ _ _ _ => a
def coercedTo : FieldNode → Option String | mk _ _ c _ _ _ _ _ => c
def filters : FieldNode → List FilterDirective | mk _ _ _ f _ _ _ _ => f
def outputs : FieldNode → List OutputDirective | mk _ _ _ _ o _ _ _ => o
def tags : FieldNode → List TagDirective | mk _ _ _ _ _ t _ _ => t
def connections : FieldNode → List (FieldConnection × FieldNode) | mk _ _ _ _ _ _ c _ => c
def transformGroup : FieldNode → Option TransformGroup | mk _ _ _ _ _ _ _ t => t
end FieldNode

/-- `Query { root_connection, root_field }`. -/
structure Query where
  rootConnection : FieldConnection
  rootField : FieldNode
  deriving Repr, Inhabited

abbrev PRes := Res ParseErr

/-! ## `directives.rs` -/

/-- `Directive::get_argument(name)`: the first argument with that name. -/
def getArg (args : List Arg) (name : String) : Option GValue :=
  (args.find? (fun a => a.name == name)).map (·.value)

/-- A character outside `[A-Za-z0-9_]`. -/
def badNameChar (c : Char) : Bool := !c.isAlphanum && c != '_'

/-- `ensure_name_is_valid(name).is_ok()`. -/
def nameIsValid (name : String) : Bool := !(name.toList.any badNameChar)

/-- One element of `@filter`'s `value` list (directives.rs:98–148). -/
def parseOperand : GValue → PRes OpArg
  | .str s =>
    match s.toList with
    | [] => .err .InvalidFilterOperandName
    | c :: name =>
      if c != '$' && c != '%' then .err .InvalidFilterOperandName
      else if name.isEmpty then .err .InvalidFilterOperandName
      else
        match name.head? with
        | none => .panic .operandFirstChar
        | some first =>
          if !first.isAlpha && first != '_' then .err .InvalidFilterOperandName
          else if name.any badNameChar then .err .InvalidFilterOperandName
          else if c == '$' then .ok (.variable (String.ofList name))
          else if c == '%' then .ok (.tag (String.ofList name))
          else .panic .operandPrefix
  | _ => .err .InappropriateTypeForDirectiveArgument

/-- `.map(..).collect::<Result<SmallVec<_>, _>>()`: stops at the first error. -/
def parseOperands : List GValue → PRes (List OpArg)
  | [] => .ok []
  | v :: vs => do
    let a ← parseOperand v
    let as ← parseOperands vs
    pure (a :: as)

/-- The operator table at directives.rs:169–194. -/
def filterOpTable : List (String × FilterOp) :=
  [("is_null", .isNull), ("is_not_null", .isNotNull), ("=", .bin .equals), ("!=", .bin .notEquals),
   ("<", .bin .lessThan), ("<=", .bin .lessThanOrEqual), (">", .bin .greaterThan),
   (">=", .bin .greaterThanOrEqual), ("contains", .bin .contains),
   ("not_contains", .bin .notContains), ("one_of", .bin .oneOf), ("not_one_of", .bin .notOneOf),
   ("has_prefix", .bin .hasPrefix), ("not_has_prefix", .bin .notHasPrefix),
   ("has_suffix", .bin .hasSuffix), ("not_has_suffix", .bin .notHasSuffix),
   ("has_substring", .bin .hasSubstring), ("not_has_substring", .bin .notHasSubstring),
   ("regex", .bin .regexMatches), ("not_regex", .bin .notRegexMatches)]

/-- `match op.as_ref() { .. }` (`none` = `unknown_op_name`). -/
def filterOpOfName (op : String) : Option FilterOp :=
  (filterOpTable.find? (fun e => e.1 == op)).map (·.2)

/-- `match &op_argument.node { Value::String(s) => Ok(s), _ => Err(..) }`. -/
def stringArgument : GValue → PRes String
  | .str s => .ok s
  | _ => .err .InappropriateTypeForDirectiveArgument

/-- The `value` argument of `@filter` (directives.rs:80–152). -/
def filterValueArgument : Option GValue → PRes (List OpArg)
  | some (.list l) => parseOperands l
  | some (.str _) => .err .FilterExpectsListNotString
  | some _ => .err .InappropriateTypeForDirectiveArgument
  | none => .ok []

/-- directives.rs:154–194: argument count check, then the operator table. -/
def expectedArgCount (op : String) : Nat :=
  if op == "is_null" || op == "is_not_null" then 0 else 1

/-- directives.rs:158–194. -/
def filterOperation (op : String) (parsedArgs : List OpArg) : PRes FilterDirective :=
  if parsedArgs.length != expectedArgCount op then .err .OtherError
  else
    match filterOpOfName op with
    | none => .err .UnsupportedFilterOperator
    | some .isNull => .ok .isNull
    | some .isNotNull => .ok .isNotNull
    | some (.bin b) =>
      -- `parsed_args.pop().unwrap()`
      match parsedArgs.getLast? with
      | some a => .ok (.binary b a)
      | none => .panic .filterPop

/-- `impl TryFrom<&Positioned<Directive>> for FilterDirective`. -/
def parseFilter (d : Directive) : PRes FilterDirective := do
  let opArgument ← Res.ofOption .MissingRequiredDirectiveArgument (getArg d.args "op")
  let op ← stringArgument opArgument
  if d.args.any (fun a => !(a.name == "op" || a.name == "value")) then
    .err .UnrecognizedDirectiveArgument
  else do
    let parsedArgs ← filterValueArgument (getArg d.args "value")
    filterOperation op parsedArgs

/-- The argument-name loop shared by `@output`, `@tag`, `@transform`, `@recurse`: the only accepted
name is `expected`, at most once. -/
def checkSingleArgName (expected : String) : List Arg → Bool → PRes Unit
  | [], _ => .ok ()
  | a :: rest, seen =>
    if a.name == expected then
      if !seen then checkSingleArgName expected rest true
      else .err .DuplicatedDirectiveArgument
    else .err .UnrecognizedDirectiveArgument

/-- `argument_node.map(|x| match &x.node { Value::String(s) => Ok(s), _ => Err(..) })` followed by
the `match` that propagates the error. -/
def optionalStringArgument : Option GValue → PRes (Option String)
  | none => .ok none
  | some (.str s) => .ok (some s)
  | some _ => .err .InappropriateTypeForDirectiveArgument

/-- `ensure_name_is_valid(..).map_err(|chars| Invalid..Name(.., argument_node.unwrap().pos))?`. -/
def checkOptionalName (node : Option GValue) (invalid : ParseErr) (site : Site) :
    Option String → PRes (Option String)
  | none => .ok none
  | some name =>
    if nameIsValid name then .ok (some name)
    else
      -- the error closure evaluates `argument_node.unwrap().pos`
      match node with
      | some _ => .err invalid
      | none => .panic site

/-- The optional `name: "<string>"` argument of `@output` / `@tag`, validated. -/
def parseOptionalName (d : Directive) (invalid : ParseErr) (site : Site) : PRes (Option String) := do
  checkSingleArgName "name" d.args false
  let parsed ← optionalStringArgument (getArg d.args "name")
  checkOptionalName (getArg d.args "name") invalid site parsed

/-- `impl TryFrom<&Positioned<Directive>> for OutputDirective`. -/
def parseOutput (d : Directive) : PRes OutputDirective := do
  let n ← parseOptionalName d .InvalidOutputName .outputArgNode
  pure ⟨n⟩

/-- `impl TryFrom<&Positioned<Directive>> for TagDirective`. -/
def parseTag (d : Directive) : PRes TagDirective := do
  let n ← parseOptionalName d .InvalidTagName .tagArgNode
  pure ⟨n⟩

/-- `impl TryFrom<&Positioned<Directive>> for TransformDirective` (the only kind is `Count`). -/
def parseTransform (d : Directive) : PRes Unit := do
  checkSingleArgName "op" d.args false
  let node ← Res.ofOption .MissingRequiredDirectiveArgument (getArg d.args "op")
  match node with
  | .str s => if s == "count" then .ok () else .err .UnsupportedTransformOperator
  | _ => .err .InappropriateTypeForDirectiveArgument

/-- `OptionalDirective::try_from` / `FoldDirective::try_from`: no arguments allowed. -/
def parseNoArgs (d : Directive) : PRes Unit :=
  match d.args with
  | [] => .ok ()
  | _ :: _ => .err .UnrecognizedDirectiveArgument

/-- `impl TryFrom<&Positioned<Directive>> for RecurseDirective`:
`n.as_u64().and_then(|v| NonZeroUsize::new(v as usize))`. -/
def parseRecurse (d : Directive) : PRes RecurseDirective := do
  checkSingleArgName "depth" d.args false
  let node ← Res.ofOption .MissingRequiredDirectiveArgument (getArg d.args "depth")
  match node with
  | .num (.int i) =>
    if 0 < i then .ok ⟨i.toNat⟩ else .err .InappropriateTypeForDirectiveArgument
  | _ => .err .InappropriateTypeForDirectiveArgument

/-! ## `query.rs` -/

/-- `ParsedDirective` (positions dropped). -/
inductive PDir where
  | filter (f : FilterDirective)
  | fold
  | optional
  | output (o : OutputDirective)
  | recurse (r : RecurseDirective)
  | tag (t : TagDirective)
  | transform
  deriving Repr, Inhabited

/-- One iteration of the loop in `make_directives`. -/
def makeDirective (d : Directive) : PRes PDir :=
  if d.name == "filter" then do let f ← parseFilter d; pure (.filter f)
  else if d.name == "output" then do let o ← parseOutput d; pure (.output o)
  else if d.name == "tag" then do let t ← parseTag d; pure (.tag t)
  else if d.name == "transform" then do parseTransform d; pure .transform
  else if d.name == "optional" then do parseNoArgs d; pure .optional
  else if d.name == "recurse" then do let r ← parseRecurse d; pure (.recurse r)
  else if d.name == "fold" then do parseNoArgs d; pure .fold
  else .err .UnrecognizedDirective

/-- `make_directives`. -/
def makeDirectives : List Directive → PRes (List PDir)
  | [] => .ok []
  | d :: ds => do
    let p ← makeDirective d
    let ps ← makeDirectives ds
    pure (p :: ps)

/-- `make_transform_group(transform, directive_iter)`: the argument is what is left in the
iterator; the result also carries what is left afterwards, which the `assert!` after the loop
inspects.  Accumulators are in reverse order.  `retransform` is always `None` since the fix of F-7. -/
def transformGroupLoop (outs : List OutputDirective) (tags : List TagDirective)
    (filts : List FilterDirective) : List PDir → PRes (TransformGroup × List PDir)
  | [] =>
    -- `break None`, then `assert!(directive_iter.next().is_none())` on the exhausted iterator
    .ok (.mk outs.reverse tags.reverse filts.reverse none, [])
  | .filter f :: rest => transformGroupLoop outs tags (f :: filts) rest
  | .output o :: rest => transformGroupLoop (o :: outs) tags filts rest
  | .tag t :: rest => transformGroupLoop outs (t :: tags) filts rest
  | .transform :: _ =>
    -- a second `@transform` is refused (fix of F-7; before it, the rest of the iterator became
    -- `retransform: Some(Box::new(make_transform_group(..)?))`, which `make_fold` could not handle)
    .err .UnsupportedDirectivePosition
  | .fold :: _ => .err .UnsupportedDirectivePosition
  | .optional :: _ => .err .UnsupportedDirectivePosition
  | .recurse _ :: _ => .err .UnsupportedDirectivePosition

def makeTransformGroup (rest : List PDir) : PRes (TransformGroup × List PDir) :=
  transformGroupLoop [] [] [] rest

/-- `make_fold_group(fold, directive_iter)`. -/
def makeFoldGroup : List PDir → PRes FoldGroup
  | [] => .ok ⟨none⟩
  | .transform :: rest => do
    let r ← makeTransformGroup rest
    pure ⟨some r.1⟩
  | .fold :: _ => .err .UnsupportedDuplicatedDirective
  | _ :: _ => .err .UnsupportedDirectivePosition

mutual
/-- `impl TryFrom<Value> for FieldValue` (`none` = `Err`). -/
def toFV : GValue → Option FV
  | .null => some .null
  | .num (.int i) => some (.int i)
  | .num (.float _) => some .float
  | .str s => some (.str s)
  | .bool b => some (.bool b)
  | .list l => (toFVs l).map .list
  | .enum n => some (.enum n)
  | .var _ => none
  | .object _ _ => none
/-- `l.into_iter().map(Self::try_from).collect::<Result<Self, _>>()`. -/
def toFVs : List GValue → Option (List FV)
  | [] => some []
  | v :: vs =>
    match toFV v with
    | none => none
    | some x => (toFVs vs).map (x :: ·)
end

/-- The `try_fold` over `field.node.arguments` in `make_field_connection` (`acc` is the map built
so far, in insertion order). -/
def connectionArguments (acc : List (String × FV)) : List Arg → PRes (List (String × FV))
  | [] => .ok acc
  | a :: rest =>
    match toFV a.value with
    | none => .err .InvalidFieldArgument
    | some v =>
      if acc.any (fun kv => kv.1 == a.name) then .err .DuplicatedEdgeParameter
      else connectionArguments (acc ++ [(a.name, v)]) rest

/-- The directive loop of `make_field_connection` (query.rs:387–426): state is the `optional` and
`recurse` seen so far; the result also says whether a `@fold` ended the loop and what follows it. -/
def connectionLoop (optional : Bool) (recurse : Option RecurseDirective) :
    List PDir → PRes (Bool × Option RecurseDirective × Option (List PDir))
  | [] => .ok (optional, recurse, none)
  | .optional :: rest =>
    if !optional then connectionLoop true recurse rest
    else .err .UnsupportedDuplicatedDirective
  | .recurse r :: rest =>
    match recurse with
    | none => connectionLoop optional (some r) rest
    | some _ => .err .UnsupportedDuplicatedDirective
  | .fold :: rest => .ok (optional, recurse, some rest)
  | .transform :: _ => .err .UnsupportedDirectivePosition
  | .filter _ :: rest => connectionLoop optional recurse rest
  | .output _ :: rest => connectionLoop optional recurse rest
  | .tag _ :: rest => connectionLoop optional recurse rest

/-- query.rs:428–432: the fold group, when the loop ended on a `@fold`. -/
def foldGroupAfter : Option (List PDir) → PRes (Option FoldGroup)
  | none => .ok none
  | some rest => do
    let g ← makeFoldGroup rest
    pure (some g)

/-- `make_field_connection`. -/
def makeFieldConnection (h : FieldHead) : PRes FieldConnection := do
  let arguments ← connectionArguments [] h.args
  let directives ← makeDirectives h.dirs
  let st ← connectionLoop false none directives
  let fold ← foldGroupAfter st.2.2
  pure ⟨h.name, h.alias, arguments, st.1, st.2.1, fold⟩

/-- The directive loop of `make_field_node` (query.rs:300–315): collects filters/outputs/tags
until the first `@transform`; the result carries what follows it. Accumulators are reversed. -/
def nodeLoop (filts : List FilterDirective) (outs : List OutputDirective) (tags : List TagDirective) :
    List PDir → List FilterDirective × List OutputDirective × List TagDirective × Option (List PDir)
  | [] => (filts.reverse, outs.reverse, tags.reverse, none)
  | .filter f :: rest => nodeLoop (f :: filts) outs tags rest
  | .output o :: rest => nodeLoop filts (o :: outs) tags rest
  | .tag t :: rest => nodeLoop filts outs (t :: tags) rest
  | .transform :: rest => (filts.reverse, outs.reverse, tags.reverse, some rest)
  | .optional :: rest => nodeLoop filts outs tags rest
  | .fold :: rest => nodeLoop filts outs tags rest
  | .recurse _ :: rest => nodeLoop filts outs tags rest

def Selection.isSpread : Selection → Bool
  | .spread .. => true
  | _ => false

def Selection.isInline : Selection → Bool
  | .inline .. => true
  | _ => false

/-- query.rs:317–321: the transform group, when the loop ended on a `@transform`. -/
def transformGroupAfter : Option (List PDir) → PRes (Option TransformGroup)
  | none => .ok none
  | some rest => do
    let r ← makeTransformGroup rest
    pure (some r.1)

/-- The directive part of `make_field_node` (query.rs:294–321). -/
def nodeDirectives (dirs : List Directive) :
    PRes (List FilterDirective × List OutputDirective × List TagDirective × Option TransformGroup) := do
  let directives ← makeDirectives dirs
  let st := nodeLoop [] [] [] directives
  let tg ← transformGroupAfter st.2.2.2
  pure (st.1, st.2.1, st.2.2.1, tg)

/-- The tail of `make_field_node` once the selections to descend into are known: directives first
(query.rs:294–321), then the loop over the selections (whose result is passed in), then the node. -/
def assembleNode (h : FieldHead) (coercedTo : Option String)
    (conns : PRes (List (FieldConnection × FieldNode))) : PRes FieldNode := do
  let ds ← nodeDirectives h.dirs
  let conns ← conns
  pure (.mk h.name h.alias coercedTo ds.1 ds.2.1 ds.2.2.1 conns ds.2.2.2)

/-- The outcome of query.rs:246–269 when the selection set is *not* exactly one inline fragment:
`none` = go on with the field's own selections. -/
def selectionGuard (sels : List Selection) : Option (PRes FieldNode) :=
  if sels.any Selection.isSpread then some (.err .UnsupportedSyntax)
  else if sels.any Selection.isInline then
    if sels.length > 1 then some (.err .TypeCoercionWithSiblingFields)
    else some (.panic .inlineNotInline)
  else none

mutual
/-- One iteration of the loop over `field_selections` in `make_field_node` (query.rs:324–341);
for a field: `make_field_connection(f)?` then `make_field_node(f)?` (its body is inlined here so
that the recursion is structural; `makeFieldNode` below is the same text). -/
def makeConnection : Selection → PRes (FieldConnection × FieldNode)
  | .spread _ _ => .err .UnsupportedSyntax
  | .inline _ _ _ => .err .NestedTypeCoercion
  | .field h sels =>
    let all := makeConnections sels
    let vertex : PRes FieldNode :=
      match sels with
      | [.inline typeCond _ inner] => assembleNode h typeCond (makeConnections inner)
      | _ =>
        match selectionGuard sels with
        | some r => r
        | none => assembleNode h none all
    makeFieldConnection h >>= fun edge => vertex >>= fun v => pure (edge, v)
/-- The loop over `field_selections` in `make_field_node`. -/
def makeConnections : List Selection → PRes (List (FieldConnection × FieldNode))
  | [] => .ok []
  | s :: rest => do
    let c ← makeConnection s
    let more ← makeConnections rest
    pure (c :: more)
end

/-- `make_field_node(field)`: fragment spreads among the direct selections are refused first; a
selection set consisting of exactly one inline fragment is a type coercion (its own directives are
ignored, query.rs:273); an inline fragment with siblings is an error; then directives; then the
selections. -/
def makeFieldNode (h : FieldHead) (sels : List Selection) : PRes FieldNode :=
  match sels with
  | [.inline typeCond _ inner] => assembleNode h typeCond (makeConnections inner)
  | _ =>
    match selectionGuard sels with
    | some r => r
    | none => assembleNode h none (makeConnections sels)

/-- `parse_operation_definition`: the root field of an operation. -/
def parseOperationDefinition (op : Operation) : PRes (FieldHead × List Selection) :=
  if op.kind != .query then .err .DocumentNotAQuery
  else if op.nVarDefs != 0 then .err .VariableDefinitionInQuery
  else if !op.dirs.isEmpty then .err .DirectiveNotInsideQueryRoot
  else if op.sels.length != 1 then
    -- `Err(MultipleQueryRoots(root_items[1].pos))`
    match op.sels[1]? with
    | some _ => .err .MultipleQueryRoots
    | none => .panic .rootItemsIndex
  else
    match op.sels.head? with
    | some (.field h sels) => .ok (h, sels)
    | some (.spread ..) => .err .UnsupportedQueryRoot
    | some (.inline ..) => .err .UnsupportedQueryRoot
    | none => .panic .rootItemsEmpty

/-- `try_get_query_root`. -/
def tryGetQueryRoot (doc : Doc) : PRes (FieldHead × List Selection) :=
  if !doc.frags.isEmpty then .err .DocumentContainsNonInlineFragments
  else
    match doc.ops with
    | .multiple mult =>
      if mult.length > 1 then
        -- `mult.values().nth(1).expect(..)` (`nth(2)` before the fix of F-6)
        match mult[1]? with
        | some _ => .err .MultipleOperationsInDocument
        | none => .panic .opsNth2
      else
        match mult.head? with
        | some (_, op) => parseOperationDefinition op
        | none => .panic .opsMultipleEmpty
    | .single op => parseOperationDefinition op

/-- `parse_document`. -/
def parseDocument (doc : Doc) : PRes Query := do
  let (h, sels) ← tryGetQueryRoot doc
  if !h.dirs.isEmpty then .err .DirectiveNotInsideQueryRoot
  else
    let rootConnection ← makeFieldConnection h
    Res.assert .rootOptional (!rootConnection.optional)
    Res.assert .rootRecurse rootConnection.recurse.isNone
    Res.assert .rootFold rootConnection.fold.isNone
    let rootField ← makeFieldNode h sels
    pure ⟨rootConnection, rootField⟩

end TF.FE
