/-
Record / replay (`trustfall_core/src/interpreter/trace.rs`, `replay.rs`).

Part (a) — the principle, generically.  The engine is a *deterministic strategy*: its next
observable action is a function of the interaction so far (the query and its arguments are fixed
parameters of the strategy).  The adapter is an *environment*: a state machine answering the
engine's actions.  `run σ E fuel` plays one against the other and returns the interaction
(`History`: the alternating sequence of actions and answers), `tap E` is `E` plus a log of the
interaction (`AdapterTap`), `replayEnv t` answers from a recorded interaction and fails on the first
action that differs from the recorded one (`TraceReaderAdapter`).

Part (b) — the alphabet of Trustfall's adapter interface and a model of `trace.rs` / `replay.rs`
that follows the code: `TraceOpContent`, `FunctionCall`, `YieldValue`, `Opid`s handed out by
`Trace::record` (`ops.len() + 1`), `parent_opid`; `tapEnv` performs, for every interaction step,
exactly the `record` calls the closures of `AdapterTap` / `tap_results` perform, in their order;
`readerEnv` is `TraceReaderAdapter` with its five iterator types, defunctionalised: the `loop` of
the `TraceReaderResolve*Iter::next` functions is suspended at `self.contexts.next()` (flag
`awaiting`) and resumed when the engine supplies the input.  Every `expect` / `assert!` /
`assert_eq!` / `unreachable!` of `replay.rs` is a failure of the environment (`none`).

What is not modelled: serde (`Trace<Vertex>: Serialize + Deserialize`), `Rc<RefCell<..>>` sharing
(one cursor / one trace per run here), `ir_query` / `arguments` stored inside the `Trace` (fixed
parameters of the strategy).

Core Lean only; everything is executable.
-/
namespace TF.Replay

/-! ## (a) strategies, environments, runs -/

/-- An environment (adapter): a state machine answering actions; `none` = the environment fails
(a panic of the adapter, a mismatch detected by a replaying adapter). -/
structure Env (A R : Type) : Type 1 where
  S : Type
  init : S
  step : S → A → Option (R × S)

/-- The interaction so far: actions of the engine with the environment's answers, oldest first. -/
abbrev History (A R : Type) := List (A × R)

/-- A deterministic engine: the next action as a function of the interaction so far; `none` = the
engine is done. -/
abbrev Strategy (A R : Type) := History A R → Option A

inductive Status where
  | stopped      -- the engine finished
  | outOfFuel    -- the step budget of the model ran out
  | envFailed    -- the environment failed
  deriving Repr, DecidableEq

structure Run (A R S : Type) where
  hist : History A R
  status : Status
  envState : S

/-- Play `σ` against `E` for at most `fuel` steps, from interaction `h` and environment state `s`. -/
def run {A R : Type} (σ : Strategy A R) (E : Env A R) : Nat → History A R → E.S → Run A R E.S
  | 0, h, s => ⟨h, .outOfFuel, s⟩
  | fuel + 1, h, s =>
    match σ h with
    | none => ⟨h, .stopped, s⟩
    | some a =>
      match E.step s a with
      | none => ⟨h, .envFailed, s⟩
      | some (r, s') => run σ E fuel (h ++ [(a, r)]) s'

/-- `σ ∥ E`. -/
def play {A R : Type} (σ : Strategy A R) (E : Env A R) (fuel : Nat) : Run A R E.S :=
  run σ E fuel [] E.init

/-- The interaction of `σ` with `E`. -/
def transcript {A R : Type} (σ : Strategy A R) (E : Env A R) (fuel : Nat) : History A R :=
  (play σ E fuel).hist

/-- The rows handed out during an interaction (`row?` picks the row-emitting actions). -/
def rowsOf {A R ρ : Type} (row? : A → Option ρ) (h : History A R) : List ρ :=
  h.filterMap fun p => row? p.1

/-- The environment that answers from a recorded interaction: its state is what is left of the
recording; an action that is not the recorded one, or any action once the recording is used up, is
a failure.  It does not mention the original environment. -/
@[reducible] def replayEnv {A R : Type} [DecidableEq A] (t : History A R) : Env A R where
  S := History A R
  init := t
  step := fun rest a =>
    match rest with
    | (a', r) :: rest' => if a = a' then some (r, rest') else none
    | [] => none

/-- `E` with a log of the interaction: answers exactly as `E` does. -/
@[reducible] def tap {A R : Type} (E : Env A R) : Env A R where
  S := E.S × History A R
  init := (E.init, [])
  step := fun (s, log) a =>
    match E.step s a with
    | some (r, s') => some (r, (s', log ++ [(a, r)]))
    | none => none

/-! ## (b) the adapter interface of Trustfall as an alphabet; `trace.rs`, `replay.rs` -/

/-- `Opid(NonZeroUsize)`. -/
abbrev Opid := Nat

/-- `trace::FunctionCall`; `Vid`/`Eid` are numbers, names are strings. -/
inductive FunctionCall where
  | resolveStartingVertices (vid : Nat)
  | resolveProperty (vid : Nat) (typeName : String) (property : String)
  | resolveNeighbors (vid : Nat) (typeName : String) (eid : Nat)
  | resolveCoercion (vid : Nat) (typeName : String) (coerceTo : String)
  deriving Repr, DecidableEq

/-- `trace::YieldValue<Vertex>`; `C` stands for `DataContext<Vertex>`. -/
inductive YieldValue (V C X : Type) where
  | resolveStartingVertices (v : V)
  | resolveProperty (c : C) (value : X)
  | resolveNeighborsOuter (c : C)
  | resolveNeighborsInner (index : Nat) (v : V)
  | resolveCoercion (c : C) (canCoerce : Bool)
  deriving Repr, DecidableEq

/-- `trace::TraceOpContent<Vertex>`; `X` = `FieldValue`, `ρ` = a result row. -/
inductive TraceOpContent (V C X ρ : Type) where
  | call (f : FunctionCall)
  | advanceInputIterator
  | yieldInto (c : C)
  | yieldFrom (y : YieldValue V C X)
  | inputIteratorExhausted
  | outputIteratorExhausted
  | produceQueryResult (row : ρ)
  deriving Repr, DecidableEq

/-- `trace::TraceOp<Vertex>`. -/
structure TraceOp (V C X ρ : Type) where
  opid : Opid
  parentOpid : Option Opid
  content : TraceOpContent V C X ρ
  deriving Repr, DecidableEq

/-- `trace::Trace<Vertex>`: `ops : BTreeMap<Opid, TraceOp>` in key order. -/
structure Trace (V C X ρ : Type) where
  ops : List (TraceOp V C X ρ) := []
  deriving Repr

/-- `Trace::record`: `next_opid = ops.len() + 1`. -/
def Trace.record {V C X ρ : Type} (t : Trace V C X ρ) (content : TraceOpContent V C X ρ)
    (parent : Option Opid) : Trace V C X ρ × Opid :=
  let next := t.ops.length + 1
  ({ ops := t.ops ++ [⟨next, parent, content⟩] }, next)

/-- What the engine does at the adapter interface.  An iterator is named by its *handle*: the
index, in the interaction, of the step that created it (the `call` step for the output iterator of
a resolver, the step answered by `yieldFrom (resolveNeighborsOuter _)` for a neighbour iterator). -/
inductive Action (V C X ρ : Type) where
  /-- invoke a resolver (`resolve_starting_vertices` / `_property` / `_neighbors` / `_coercion`);
  for the last three the engine hands over its input iterator `contexts` at the same time -/
  | call (f : FunctionCall)
  /-- `.next()` on the output iterator with this handle -/
  | pullOutput (handle : Nat)
  /-- `contexts.next()` of the resolver call `handle` returns `Some(c)` -/
  | yieldInto (handle : Nat) (c : C)
  /-- `contexts.next()` of the resolver call `handle` returns `None` -/
  | inputExhausted (handle : Nat)
  /-- the result iterator hands out a row (`tap_results`) -/
  | emitRow (row : ρ)
  deriving Repr, DecidableEq

/-- What the adapter does in return. -/
inductive Response (V C X : Type) where
  /-- the resolver returned its output iterator -/
  | called
  /-- the adapter calls `contexts.next()` on the input iterator of the call being pulled -/
  | advanceInput
  /-- the pulled iterator returns `Some(..)` -/
  | yieldFrom (y : YieldValue V C X)
  /-- the pulled iterator returns `None` -/
  | outputExhausted
  /-- nothing to answer (`emitRow`) -/
  | ack
  deriving Repr, DecidableEq

def Action.row? {V C X ρ : Type} : Action V C X ρ → Option ρ
  | .emitRow r => some r
  | _ => none

/-! ### `AdapterTap` -/

/-- handle ↦ the opid the tap's closures captured for it (`call_opid` / `outer_iterator_opid`) -/
abbrev HandleMap := List (Nat × Opid)

def HandleMap.opid? (m : HandleMap) (h : Nat) : Option Opid := (List.find? (fun p => p.1 == h) m).map (·.2)

structure TapState (V C X ρ S : Type) where
  inner : S
  trace : Trace V C X ρ := {}
  handles : HandleMap := []
  steps : Nat := 0

/-- The op a response of the inner adapter is recorded as. -/
def Response.content? {V C X ρ : Type} : Response V C X → Option (TraceOpContent V C X ρ)
  | .advanceInput => some .advanceInputIterator     -- `make_iter_with_pre_action`
  | .yieldFrom y => some (.yieldFrom y)             -- `.inspect` / `.map` on the output iterator
  | .outputExhausted => some .outputIteratorExhausted  -- `make_iter_with_end_action` (output)
  | .called | .ack => none

/-- The `record` calls of one interaction step, in the order the closures of `AdapterTap` run:
first what the engine's action makes the tap record (`Call`, `YieldInto`, `InputIteratorExhausted`,
`ProduceQueryResult`), then what the inner adapter's answer makes it record, under the opid of the
iterator concerned.  `none`: the action names an iterator that was never created. -/
def recordStep {V C X ρ : Type} (trace : Trace V C X ρ) (handles : HandleMap) (steps : Nat)
    (a : Action V C X ρ) (r : Response V C X) : Option (Trace V C X ρ × HandleMap) :=
  -- the response's op, its parent being `parent`
  let recordResponse (trace : Trace V C X ρ) (handles : HandleMap) (parent : Opid) :
      Trace V C X ρ × HandleMap :=
    match r.content? (ρ := ρ) with
    | none => (trace, handles)
    | some content =>
      let (trace', opid) := trace.record content (some parent)
      match r with
      -- `outer_iterator_opid`: the neighbour iterator created by this step records under it
      | .yieldFrom (.resolveNeighborsOuter _) => (trace', handles ++ [(steps, opid)])
      | _ => (trace', handles)
  match a with
  | .call f =>
    let (trace', opid) := trace.record (.call f) none
    some (trace', handles ++ [(steps, opid)])
  | .pullOutput h =>
    match handles.opid? h with
    | some parent => some (recordResponse trace handles parent)
    | none => none
  | .yieldInto h c =>
    match handles.opid? h with
    | some parent =>
      let (trace', _) := trace.record (.yieldInto c) (some parent)   -- `.inspect` on the input
      some (recordResponse trace' handles parent)
    | none => none
  | .inputExhausted h =>
    match handles.opid? h with
    | some parent =>
      let (trace', _) := trace.record .inputIteratorExhausted (some parent)  -- end action (input)
      some (recordResponse trace' handles parent)
    | none => none
  | .emitRow row =>
    let (trace', _) := trace.record (.produceQueryResult row) none   -- `tap_results`
    some (trace', handles)

/-- `AdapterTap` around the adapter `E` (+ `tap_results` around the result iterator). -/
@[reducible] def tapEnv {V C X ρ : Type} (E : Env (Action V C X ρ) (Response V C X)) :
    Env (Action V C X ρ) (Response V C X) where
  S := TapState V C X ρ E.S
  init := { inner := E.init }
  step := fun st a =>
    match E.step st.inner a with
    | none => none
    | some (r, inner') =>
      match recordStep st.trace st.handles st.steps a r with
      | none => none
      | some (trace', handles') =>
        some (r, { inner := inner', trace := trace', handles := handles', steps := st.steps + 1 })

/-! ### `TraceReaderAdapter` -/

inductive IterKind where
  | startingVertices   -- `TraceReaderStartingVerticesIter`
  | property           -- `TraceReaderResolvePropertiesIter`
  | neighbors          -- `TraceReaderResolveNeighborsIter`
  | coercion           -- `TraceReaderResolveCoercionIter`
  | neighborInner      -- `TraceReaderNeighborIter`
  deriving Repr, DecidableEq

/-- The fields of the five reader iterators. -/
structure IterState (C : Type) where
  handle : Nat
  kind : IterKind
  /-- `parent_opid` / `parent_iterator_opid` -/
  parentOpid : Opid
  exhausted : Bool := false
  /-- `input_batch: VecDeque<DataContext<V>>`, front at the head -/
  inputBatch : List C := []
  /-- the `loop` of `next()` is suspended at `self.contexts.next()` -/
  awaiting : Bool := false
  /-- `next_index` of `TraceReaderNeighborIter` -/
  nextIndex : Nat := 0
  deriving Repr

structure ReaderState (V C X ρ : Type) where
  /-- `next_op`: the one cursor over `trace.ops` shared by the adapter and all its iterators -/
  nextOp : List (TraceOp V C X ρ)
  iters : List (IterState C) := []
  steps : Nat := 0

namespace ReaderState
variable {V C X ρ : Type}

def iter? (s : ReaderState V C X ρ) (h : Nat) : Option (IterState C) := s.iters.find? (·.handle == h)

def setIter (s : ReaderState V C X ρ) (it : IterState C) : ReaderState V C X ρ :=
  { s with iters := s.iters.map fun x => if x.handle == it.handle then it else x }

/-- `advance_ref_iter(..).expect("Expected to have an item but found none.")` followed by
`assert_eq!(self.parent_opid, trace_op.parent_opid.expect(..))`. -/
def advanceChild (s : ReaderState V C X ρ) (parent : Opid) :
    Option (TraceOp V C X ρ × ReaderState V C X ρ) :=
  match s.nextOp with
  | [] => none
  | op :: rest =>
    match op.parentOpid with
    | some p => if p = parent then some (op, { s with nextOp := rest }) else none
    | none => none

end ReaderState

/-- Which resolver a `Call` op belongs to. -/
def FunctionCall.kind : FunctionCall → IterKind
  | .resolveStartingVertices _ => .startingVertices
  | .resolveProperty .. => .property
  | .resolveNeighbors .. => .neighbors
  | .resolveCoercion .. => .coercion

/-- The `YieldFrom` payload a resolver iterator of kind `k` accepts, with its context. -/
def YieldValue.ctxFor? {V C X : Type} (k : IterKind) : YieldValue V C X → Option C
  | .resolveProperty c _ => if k = .property then some c else none
  | .resolveNeighborsOuter c => if k = .neighbors then some c else none
  | .resolveCoercion c _ => if k = .coercion then some c else none
  | _ => none

section reader
variable {V C X ρ : Type} [DecidableEq C] [DecidableEq ρ]

/-- The `loop { … }` of `TraceReaderResolve{Properties,Neighbors,Coercion}Iter::next` from its top,
and the `match &next_op.content` after it.  Returns the response and the new state; the state has
`steps` not yet incremented. -/
def resumeLoop (s : ReaderState V C X ρ) (it : IterState C) :
    Option (Response V C X × ReaderState V C X ρ) :=
  match s.advanceChild it.parentOpid with
  | none => none
  | some (op, s) =>
    match op.content with
    | .advanceInputIterator =>
      -- `let input_data = self.contexts.next();` — over to the engine
      some (.advanceInput, s.setIter { it with awaiting := true })
    | .yieldFrom y =>
      match y.ctxFor? it.kind with
      | none => none                                   -- `_ => unreachable!()`
      | some traceContext =>
        match it.inputBatch with
        | [] => none                                   -- `pop_front().unwrap()`
        | inputContext :: restBatch =>
          if traceContext = inputContext then          -- `assert_eq!(trace_context, &input_context…)`
            let it' := { it with inputBatch := restBatch, awaiting := false }
            let s := s.setIter it'
            match y with
            | .resolveNeighborsOuter _ =>
              -- `TraceReaderNeighborIter { parent_iterator_opid: next_op.opid, next_index: 0, .. }`
              some (.yieldFrom y,
                { s with iters := s.iters ++
                    [{ handle := s.steps, kind := .neighborInner, parentOpid := op.opid }] })
            | _ => some (.yieldFrom y, s)
          else none
    | .outputIteratorExhausted =>
      match it.inputBatch with
      | [] => some (.outputExhausted, s.setIter { it with exhausted := true, awaiting := false })
      | _ :: _ => none                                 -- `assert!(input_batch.pop_front().is_none())`
    | _ => none                                        -- `_ => unreachable!()`

/-- One action of the engine against `TraceReaderAdapter` (and `assert_interpreted_results` for
the rows). -/
def readerStep (s : ReaderState V C X ρ) (a : Action V C X ρ) :
    Option (Response V C X × ReaderState V C X ρ) :=
  let done (x : Option (Response V C X × ReaderState V C X ρ)) :=
    x.map fun (r, s') => (r, { s' with steps := s'.steps + 1 })
  done <|
  match a with
  | .call f =>
    -- `advance_ref_iter(self.next_op).expect("Expected a resolve_…() call operation…")`
    match s.nextOp with
    | [] => none
    | op :: rest =>
      match op.parentOpid, op.content with
      | none, .call g =>                               -- `assert_eq!(None, trace_op.parent_opid)`
        if f = g then                                  -- the `if let` on the kind + the `assert_eq!`s
          some (.called,
            { s with nextOp := rest,
                     iters := s.iters ++ [{ handle := s.steps, kind := f.kind, parentOpid := op.opid }] })
        else none
      | _, _ => none
  | .pullOutput h =>
    match s.iter? h with
    | none => none
    | some it =>
      if it.exhausted || it.awaiting then none         -- `assert!(!self.exhausted)`
      else
        match it.kind with
        | .startingVertices =>
          match s.advanceChild it.parentOpid with
          | none => none
          | some (op, s) =>
            match op.content with
            | .outputIteratorExhausted =>
              some (.outputExhausted, s.setIter { it with exhausted := true })
            | .yieldFrom (.resolveStartingVertices v) =>
              some (.yieldFrom (.resolveStartingVertices v), s)
            | _ => none                                -- `_ => unreachable!()`
        | .neighborInner =>
          match s.advanceChild it.parentOpid with
          | none => none
          | some (op, s) =>
            match op.content with
            | .outputIteratorExhausted =>
              some (.outputExhausted, s.setIter { it with exhausted := true })
            | .yieldFrom (.resolveNeighborsInner index v) =>
              if it.nextIndex = index then             -- `assert_eq!(self.next_index, *index)`
                some (.yieldFrom (.resolveNeighborsInner index v),
                  s.setIter { it with nextIndex := it.nextIndex + 1 })
              else none
            | _ => none
        | .property | .neighbors | .coercion => resumeLoop s it
  | .yieldInto h c =>
    match s.iter? h with
    | none => none
    | some it =>
      if !it.awaiting then none
      else
        -- the second `advance_ref_iter` of the loop body, after `self.contexts.next()`
        match s.advanceChild it.parentOpid with
        | none => none
        | some (op, s) =>
          match op.content with
          | .yieldInto context =>
            if context = c then                        -- `assert_eq!(context, &input_context…)`
              resumeLoop s { it with inputBatch := it.inputBatch ++ [c], awaiting := false }
            else none
          | _ => none     -- `InputIteratorExhausted`: `assert!(input_data.is_none())`; else `unreachable!()`
  | .inputExhausted h =>
    match s.iter? h with
    | none => none
    | some it =>
      if !it.awaiting then none
      else
        match s.advanceChild it.parentOpid with
        | none => none
        | some (op, s) =>
          match op.content with
          | .inputIteratorExhausted => resumeLoop s { it with awaiting := false }
          | _ => none     -- `YieldInto`: `input_data.unwrap()`; else `unreachable!()`
  | .emitRow row =>
    -- `assert_interpreted_results`: the next op must be `ProduceQueryResult` of this very row
    match s.nextOp with
    | [] => none
    | op :: rest =>
      match op.content with
      | .produceQueryResult expected => if expected = row then some (.ack, { s with nextOp := rest }) else none
      | _ => none

/-- `TraceReaderAdapter` over `trace.ops`. -/
@[reducible] def readerEnv (trace : Trace V C X ρ) : Env (Action V C X ρ) (Response V C X) where
  S := ReaderState V C X ρ
  init := { nextOp := trace.ops }
  step := readerStep

end reader

/-- The trace `AdapterTap::finish` returns after playing `σ` against the tapped `E`. -/
def recordTrace {V C X ρ : Type} (σ : Strategy (Action V C X ρ) (Response V C X))
    (E : Env (Action V C X ρ) (Response V C X)) (fuel : Nat) : Trace V C X ρ :=
  (play σ (tapEnv E) fuel).envState.trace

end TF.Replay
