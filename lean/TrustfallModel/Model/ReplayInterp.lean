/-
Record / replay on the list-level interpreter (`Model/Interp.lean`).

The interpreter sees the adapter as four pure functions, so what a run "asked the adapter" is a
finite table `call ↦ answer`.  `replayAdapter T` answers from such a table and fails — with a
recognisable panic site naming the call — on any call that is not in it (as `TraceReaderAdapter`
fails on any operation the trace does not contain); it does not mention the original adapter.
`record env ir` builds the table of the answers the run asks for, in the order of first use: run
against the table gathered so far, and when the run stops at a missing call, ask the real adapter
for exactly that call, append, repeat.

What this level cannot express — the interleaving of `next()` calls — is the subject of the
generic part of `Model/Replay.lean`.
-/
import TrustfallModel.Model.Interp

namespace TF
mutual
/-- Structural equality of values (representation-sensitive, unlike `==`). -/
def Value.same : Value → Value → Bool
  | .null, .null => true
  | .int64 a, .int64 b => a == b
  | .uint64 a, .uint64 b => a == b
  | .float64 a, .float64 b => a == b
  | .string a, .string b => a == b
  | .boolean a, .boolean b => a == b
  | .enum a, .enum b => a == b
  | .list a, .list b => Value.sameList a b
  | _, _ => false
def Value.sameList : List Value → List Value → Bool
  | [], [] => true
  | a :: as, b :: bs => Value.same a b && Value.sameList as bs
  | _, _ => false
end
end TF

namespace TF.Engine
open TF

def Params.same : Params → Params → Bool
  | [], [] => true
  | (n, v) :: ps, (m, w) :: qs => n == m && v.same w && Params.same ps qs
  | _, _ => false

/-- One call of the adapter, with everything the interpreter passes. -/
inductive CallKey where
  | start (edge : Name) (ps : Params) (vid : Vid)
  | prop (vid : Vid) (typeName field : Name) (v : Option VertexId)
  | nbrs (eid : Eid) (typeName edge : Name) (ps : Params) (v : Option VertexId)
  | coerce (vid : Vid) (typeName coerceTo : Name) (v : Option VertexId)
  deriving Repr

def CallKey.same : CallKey → CallKey → Bool
  | .start e ps vid, .start e' ps' vid' => e == e' && Params.same ps ps' && vid == vid'
  | .prop vid t f v, .prop vid' t' f' v' => vid == vid' && t == t' && f == f' && v == v'
  | .nbrs eid t e ps v, .nbrs eid' t' e' ps' v' =>
    eid == eid' && t == t' && e == e' && Params.same ps ps' && v == v'
  | .coerce vid t c v, .coerce vid' t' c' v' => vid == vid' && t == t' && c == c' && v == v'
  | _, _ => false

/-- The adapter's answer to a call (a failure of the adapter is an answer too). -/
inductive CallAnswer where
  | verts (r : R (List VertexId))
  | value (r : R Value)
  | flag (r : R Bool)
  deriving Repr

def ask (A : Adapter) : CallKey → CallAnswer
  | .start e ps vid => .verts (A.start e ps vid)
  | .prop vid t f v => .value (A.prop vid t f v)
  | .nbrs eid t e ps v => .verts (A.nbrs eid t e ps v)
  | .coerce vid t c v => .flag (A.coerce vid t c v)

abbrev Table := List (CallKey × CallAnswer)

def Table.lookup (T : Table) (k : CallKey) : Option CallAnswer :=
  (T.find? fun p => p.1.same k).map (·.2)

/-! ### the panic site of a call that is not in the table -/

def missingSite : String := "replay: call not in trace: "

def renderParams (ps : Params) : String :=
  "(ps" ++ String.join (ps.map fun (n, v) => s!" ({n} {v.render})") ++ ")"

def renderVertex : Option VertexId → String
  | none => "-"
  | some v => toString v

def CallKey.render : CallKey → String
  | .start e ps vid => s!"(start {e} {renderParams ps} {vid})"
  | .prop vid t f v => s!"(prop {vid} {t} {f} {renderVertex v})"
  | .nbrs eid t e ps v => s!"(nbrs {eid} {t} {e} {renderParams ps} {renderVertex v})"
  | .coerce vid t c v => s!"(coerce {vid} {t} {c} {renderVertex v})"

def missing {α : Type} (k : CallKey) : R α := .panic (missingSite ++ k.render)

/-- The run stopped at a call that is not in the table. -/
def isMissing {α : Type} : R α → Bool
  | .panic s => missingSite.toList.isPrefixOf s.toList
  | _ => false

def parseKeyParams : Sexp → Option Params
  | .list (.atom "ps" :: items) =>
    items.mapM fun
      | .list [.atom n, v] => (fun x => (n, x)) <$> Sexp.toValue v
      | _ => none
  | _ => none

def parseKeyVertex : Sexp → Option (Option VertexId)
  | .atom "-" => some none
  | .atom s => some <$> s.toNat?
  | _ => none

def CallKey.parse (s : String) : Option CallKey := do
  match ← Sexp.parse s with
  | .list [.atom "start", .atom e, ps, .atom vid] =>
    pure (.start e (← parseKeyParams ps) (← vid.toNat?))
  | .list [.atom "prop", .atom vid, .atom t, .atom f, v] =>
    pure (.prop (← vid.toNat?) t f (← parseKeyVertex v))
  | .list [.atom "nbrs", .atom eid, .atom t, .atom e, ps, v] =>
    pure (.nbrs (← eid.toNat?) t e (← parseKeyParams ps) (← parseKeyVertex v))
  | .list [.atom "coerce", .atom vid, .atom t, .atom c, v] =>
    pure (.coerce (← vid.toNat?) t c (← parseKeyVertex v))
  | _ => none

/-- The call a run stopped at, read back from the panic site. -/
def missingKey? {α : Type} : R α → Option CallKey
  | .panic s =>
    if missingSite.toList.isPrefixOf s.toList then
      CallKey.parse (String.ofList (s.toList.drop missingSite.toList.length))
    else none
  | _ => none

/-! ### the replaying adapter -/

/-- Answers from the table; a call that is not in the table is `missing`. -/
def replayAdapter (T : Table) : Adapter where
  start := fun e ps vid =>
    match T.lookup (.start e ps vid) with
    | some (.verts r) => r
    | some _ => .panic "replay: recorded answer of another kind"
    | none => missing (.start e ps vid)
  prop := fun vid t f v =>
    match T.lookup (.prop vid t f v) with
    | some (.value r) => r
    | some _ => .panic "replay: recorded answer of another kind"
    | none => missing (.prop vid t f v)
  nbrs := fun eid t e ps v =>
    match T.lookup (.nbrs eid t e ps v) with
    | some (.verts r) => r
    | some _ => .panic "replay: recorded answer of another kind"
    | none => missing (.nbrs eid t e ps v)
  coerce := fun vid t c v =>
    match T.lookup (.coerce vid t c v) with
    | some (.flag r) => r
    | some _ => .panic "replay: recorded answer of another kind"
    | none => missing (.coerce vid t c v)

/-- `env` with another adapter. -/
abbrev Env.withAdapter (env : Env) (A : Adapter) : Env := { env with adapter := A }

/-- The replay of `ir` from a table. -/
def replay (env : Env) (T : Table) (ir : IRQuery) : R (List Row) :=
  interpret (env.withAdapter (replayAdapter T)) ir

/-- Build the table of the answers the run of `ir` asks the adapter of `env` for: at most `fuel`
distinct calls.  The flag says that the last replay did not stop at a missing call (the table is
complete for this run). -/
def record (env : Env) (ir : IRQuery) : Nat → Table → Table × Bool
  | 0, T => (T, !isMissing (replay env T ir))
  | fuel + 1, T =>
    let r := replay env T ir
    if isMissing r then
      match missingKey? r with
      | some k => record env ir fuel (T ++ [(k, ask env.adapter k)])
      | none => (T, false)
    else (T, true)

end TF.Engine
