/-
Model of `trustfall_core/src/schema/adapter/mod.rs`: the adapter that answers introspection queries
over a validated `Schema` (the meta-schema is `adapter/schema.graphql`).

* `Vertex` is `enum SchemaVertex`; `startingVertices`, `resolveProperty`, `resolveNeighbors`,
  `resolveCoercion` mirror the four `Adapter` methods resolver by resolver, for one active vertex;
  `resolvePropertyWith` / `resolveNeighborsWith` are the helpers `resolve_property_with` /
  `resolve_neighbors_with` (interpreter/helpers/mod.rs:23–68) that lift them over a list of contexts
  whose active vertex may be `None` (the adapter contract).
* Every `expect` / `unwrap_or_else(panic!)` / `unreachable!` is an explicit panic outcome:
  `adapterConversion` (a vertex of the wrong kind reaches a resolver), `adapterUnreachable`
  (a type/property/edge name outside the meta-schema, or any coercion), `adapterDefault`
  (`expect("failed to convert ConstValue")` on a default value that is not a `FieldValue`),
  `adapterSubtypes` (`expect("input type was not part of this schema")`).
* Property values are `Cell`s: strings stay `String`s (the driver renders them), the `default`
  property carries the `Value` whose JSON serialisation the real adapter returns (`serde_json`
  text formatting is outside the model; the harness parses the text back).  Descriptions (`docs`) are
  not part of the abstract document: always `null`.
* `vertex_types.values()` (a `HashMap` iteration, *unsorted* in `vertex_type_iter`) is the document
  order here; the driver sorts rows, the theorems are stated up to permutation where it matters.
* `introspect` evaluates the fixed set of introspection queries of the C20 check the way the engine
  does for such tree-shaped queries (nested iteration; `@optional` yields one all-`null` branch when
  there is no neighbour; a filter on `name` is applied after the `name`-candidate shortcut of
  `vertex_type_iter`).

Core Lean only (compiled into the native driver).
-/
import TrustfallModel.Model.SchemaDoc

namespace TF.SchemaDoc

/-- `enum SchemaVertex`. -/
inductive Vertex where
  | vertexType (t : TypeDef)
  | property (parent : TypeDef) (name : Name) (ty : PTy)
  | edge (f : Field)
  | edgeParameter (a : Arg)
  | schema
  deriving Repr, Inhabited

/-- `impl Typename for SchemaVertex`. -/
def Vertex.typename : Vertex → String
  | .vertexType _ => "VertexType"
  | .property _ _ _ => "Property"
  | .edge _ => "Edge"
  | .edgeParameter _ => "EdgeParameter"
  | .schema => "Schema"

/-- A property value as the adapter produces it. -/
inductive Cell where
  | null
  | str (s : String)
  | bool (b : Bool)
  /-- `serde_json::to_string(&TransparentValue::from(v))` -/
  | json (v : Value)
  deriving Repr, Inhabited

def asVertexType : Vertex → Outcome TypeDef
  | .vertexType t => .ok t
  | _ => .panic .adapterConversion

def asProperty : Vertex → Outcome (TypeDef × Name × PTy)
  | .property p n t => .ok (p, n, t)
  | _ => .panic .adapterConversion

def asEdge : Vertex → Outcome Field
  | .edge f => .ok f
  | _ => .panic .adapterConversion

def asEdgeParameter : Vertex → Outcome Arg
  | .edgeParameter a => .ok a
  | _ => .panic .adapterConversion

/-- `CandidateValue` for the `name` property, as far as `vertex_type_iter` looks at it. -/
inductive NameCandidate where
  | single (n : Name)
  | multiple (ns : List Name)
  /-- no static information, or any other candidate shape -/
  | other
  deriving Repr, Inhabited

/-- `schema.vertex_types.get(name)` followed by the exclusion of the root query type. -/
def candidateVertex (s : Schema) (n : Name) : Option Vertex :=
  match findType s.vertexTypes n with
  | some d => if d.name != s.queryType.name then some (.vertexType d) else none
  | none => none

/-- The candidate names with repetitions dropped (first occurrences kept): the `seen_names` set of
`vertex_type_iter` (the repair of F-C20-1). -/
def dedupNames : List Name → List Name → List Name
  | _, [] => []
  | seen, n :: ns => if seen.contains n then dedupNames seen ns else n :: dedupNames (n :: seen) ns

/-- `vertex_type_iter` (adapter/mod.rs:78–119): never yields the root query type.  With a
`Multiple` candidate it yields one vertex per *distinct* name of the candidate list. -/
def vertexTypeIter (s : Schema) : NameCandidate → List Vertex
  | .single n => (candidateVertex s n).toList
  | .multiple ns => (dedupNames [] ns).filterMap (candidateVertex s)
  | .other =>
    (s.vertexTypes.filter (fun t => t.name != s.queryType.name)).map .vertexType

/-- `entrypoints_iter`. -/
def entrypointsIter (s : Schema) : List Vertex := s.queryType.fields.map .edge

/-- `resolve_starting_vertices`. -/
def startingVertices (s : Schema) (edge : String) (cand : NameCandidate) : Outcome (List Vertex) :=
  if edge == "VertexType" then .ok (vertexTypeIter s cand)
  else if edge == "Entrypoint" then .ok (entrypointsIter s)
  else if edge == "Schema" then .ok [.schema]
  else .panic .adapterUnreachable

/-- The `default` property of an `EdgeParameter` (adapter/mod.rs:349–369). -/
def defaultCell (a : Arg) : Outcome Cell :=
  match a.default with
  | some (.val v) => .ok (.json v)
  | some .bad => .panic .adapterDefault
  | none => if a.ty.nullable then .ok (.json .null) else .ok .null

/-- `resolve_property` for one (present) vertex. -/
def resolveProperty (v : Vertex) (typeName propName : String) : Outcome Cell :=
  if propName == "__typename" then .ok (.str v.typename)
  else if typeName == "VertexType" then
    if propName == "name" then (asVertexType v).bind fun t => .ok (.str t.name)
    else if propName == "docs" then (asVertexType v).bind fun _ => .ok .null
    else if propName == "is_interface" then (asVertexType v).bind fun t => .ok (.bool t.isInterface)
    else .panic .adapterUnreachable
  else if typeName == "Property" then
    if propName == "name" then (asProperty v).bind fun p => .ok (.str p.2.1)
    else if propName == "docs" then (asProperty v).bind fun _ => .ok .null
    else if propName == "type" then (asProperty v).bind fun p => .ok (.str p.2.2.display)
    else .panic .adapterUnreachable
  else if typeName == "Edge" then
    if propName == "name" then (asEdge v).bind fun f => .ok (.str f.name)
    else if propName == "docs" then (asEdge v).bind fun _ => .ok .null
    else if propName == "to_many" then (asEdge v).bind fun f => .ok (.bool f.ty.isList)
    else if propName == "at_least_one" then (asEdge v).bind fun f => .ok (.bool f.ty.nonNull)
    else .panic .adapterUnreachable
  else if typeName == "EdgeParameter" then
    if propName == "name" then (asEdgeParameter v).bind fun a => .ok (.str a.name)
    else if propName == "docs" then (asEdgeParameter v).bind fun _ => .ok .null
    else if propName == "type" then (asEdgeParameter v).bind fun a => .ok (.str a.ty.display)
    else if propName == "default" then (asEdgeParameter v).bind defaultCell
    else .panic .adapterUnreachable
  else .panic .adapterUnreachable

/-- `resolve_vertex_type_property_edge`: the fields whose base type is *not* a vertex type. -/
def propertyNeighbors (s : Schema) (t : TypeDef) : Outcome (List Vertex) :=
  Outcome.collect (fun (f : Field) =>
    match PTy.fromType f.ty with
    | .panic p => .panic p
    | .ok ty =>
      if (findType s.vertexTypes ty.base).isSome then .ok []
      else .ok [Vertex.property t f.name ty]) t.fields

/-- `resolve_vertex_type_edge_edge`: the fields whose base type is a vertex type. -/
def edgeNeighbors (s : Schema) (t : TypeDef) : Outcome (List Vertex) :=
  Outcome.collect (fun (f : Field) =>
    match PTy.fromType f.ty with
    | .panic p => .panic p
    | .ok ty =>
      if (findType s.vertexTypes ty.base).isSome then .ok [Vertex.edge f]
      else .ok []) t.fields

/-- `resolve_neighbors` for one (present) vertex; `cand` is the statically known candidate for the
destination's `name` (only `Schema.vertex_type` looks at it). -/
def resolveNeighbors (s : Schema) (v : Vertex) (typeName edgeName : String) (cand : NameCandidate) :
    Outcome (List Vertex) :=
  if typeName == "VertexType" then
    if edgeName == "implements" then
      (asVertexType v).bind fun t =>
        .ok (t.implements.filterMap fun i => (findType s.vertexTypes i).map .vertexType)
    else if edgeName == "implementer" then
      (asVertexType v).bind fun t =>
        match s.subtypes t.name with
        | none => .panic .adapterSubtypes
        | some names =>
          -- `.filter(|implementer_type| *implementer_type != vertex.defn.name…)`: the repair of F-27
          .ok ((names.filter (fun n => n != t.name)).filterMap fun n =>
            (findType s.vertexTypes n).map .vertexType)
    else if edgeName == "property" then (asVertexType v).bind (propertyNeighbors s)
    else if edgeName == "edge" then (asVertexType v).bind (edgeNeighbors s)
    else .panic .adapterUnreachable
  else if typeName == "Edge" then
    if edgeName == "target" then
      (asEdge v).bind fun f =>
        match PTy.fromType f.ty with
        | .panic p => .panic p
        | .ok ty => .ok ((findType s.vertexTypes ty.base).toList.map .vertexType)
    else if edgeName == "parameter" then (asEdge v).bind fun f => .ok (f.args.map .edgeParameter)
    else .panic .adapterUnreachable
  else if typeName == "Schema" then
    if edgeName == "vertex_type" then .ok (vertexTypeIter s cand)
    else if edgeName == "entrypoint" then .ok (entrypointsIter s)
    else .panic .adapterUnreachable
  else .panic .adapterUnreachable

/-- `resolve_coercion`: `unreachable!` (the meta-schema has no interfaces). -/
def resolveCoercion (_v : Vertex) (_typeName _coerceTo : String) : Outcome Bool :=
  .panic .adapterUnreachable

/-! ## The adapter contract helpers -/

/-- `resolve_property_with`: one output per context, in order; `None` ⇒ `Null`. -/
def resolvePropertyWith {κ : Type} (resolver : Vertex → Outcome Cell) :
    List (κ × Option Vertex) → Outcome (List ((κ × Option Vertex) × Cell))
  | [] => .ok []
  | ctx :: rest =>
    match (match ctx.2 with
      | none => Outcome.ok Cell.null
      | some v => resolver v) with
    | .panic p => .panic p
    | .ok c =>
      match resolvePropertyWith resolver rest with
      | .panic p => .panic p
      | .ok out => .ok ((ctx, c) :: out)

/-- `resolve_neighbors_with`: one output per context, in order; `None` ⇒ no neighbours. -/
def resolveNeighborsWith {κ : Type} (resolver : Vertex → Outcome (List Vertex)) :
    List (κ × Option Vertex) → Outcome (List ((κ × Option Vertex) × List Vertex))
  | [] => .ok []
  | ctx :: rest =>
    match (match ctx.2 with
      | none => Outcome.ok []
      | some v => resolver v) with
    | .panic p => .panic p
    | .ok ns =>
      match resolveNeighborsWith resolver rest with
      | .panic p => .panic p
      | .ok out => .ok ((ctx, ns) :: out)

/-! ## The fixed introspection queries -/

/-- One result row: output name ↦ value. -/
abbrev Row := List (String × Cell)

/-- `prop @output(name: out)` for several properties of the vertex `v : typeName`. -/
def outputs (v : Vertex) (typeName : String) : List (String × String) → Outcome Row
  | [] => .ok []
  | (out, prop) :: rest =>
    match resolveProperty v typeName prop with
    | .panic p => .panic p
    | .ok c =>
      match outputs v typeName rest with
      | .panic p => .panic p
      | .ok r => .ok ((out, c) :: r)

/-- Rows of `parent-row × (one row per neighbour)`. -/
def expand (s : Schema) (v : Vertex) (typeName edgeName : String) (cand : NameCandidate)
    (prefixRow : Row) (sub : Vertex → Outcome (List Row)) : Outcome (List Row) :=
  match resolveNeighbors s v typeName edgeName cand with
  | .panic p => .panic p
  | .ok ns =>
    match Outcome.collect sub ns with
    | .panic p => .panic p
    | .ok rows => .ok (rows.map (prefixRow ++ ·))

def leaf (v : Vertex) (typeName : String) (outs : List (String × String)) : Outcome (List Row) :=
  match outputs v typeName outs with
  | .panic p => .panic p
  | .ok r => .ok [r]

/-- `{ VertexType { name @output … edgeName { outs… } } }`-shaped query: the vertex type's `name`
plus the outputs of each neighbour along `edgeName`. -/
def perVertexType (s : Schema) (edgeName destType : String) (outs : List (String × String)) :
    Vertex → Outcome (List Row) := fun v =>
  match outputs v "VertexType" [("name", "name")] with
  | .panic p => .panic p
  | .ok r => expand s v "VertexType" edgeName .other r (fun n => leaf n destType outs)

def edgeOuts : List (String × String) :=
  [("edge", "name"), ("to_many", "to_many"), ("at_least_one", "at_least_one")]

def paramOuts : List (String × String) :=
  [("param", "name"), ("type", "type"), ("default", "default")]

/-- Edge vertex ↦ its outputs joined with its target's name. -/
def edgeWithTarget (s : Schema) (outs : List (String × String)) : Vertex → Outcome (List Row) := fun e =>
  match outputs e "Edge" outs with
  | .panic p => .panic p
  | .ok r => expand s e "Edge" "target" .other r (fun t => leaf t "VertexType" [("target", "name")])

/-- Edge vertex ↦ its name joined with each parameter's outputs. -/
def edgeWithParams (s : Schema) (nameOut : String) : Vertex → Outcome (List Row) := fun e =>
  match outputs e "Edge" [(nameOut, "name")] with
  | .panic p => .panic p
  | .ok r => expand s e "Edge" "parameter" .other r (fun p => leaf p "EdgeParameter" paramOuts)

def nameIs (n : Name) (v : Vertex) : Bool :=
  match v with
  | .vertexType t => t.name == n
  | _ => false

def nameIn (ns : List Name) (v : Vertex) : Bool :=
  match v with
  | .vertexType t => ns.contains t.name
  | _ => false

/-- The identifiers of the fixed query set. -/
inductive QueryId where
  /-- `{ VertexType { name @output is_interface @output docs @output } }` -/
  | types
  /-- `{ VertexType { name @output implements { implements: name @output } } }` -/
  | implements
  /-- `{ VertexType { name @output implementer { implementer: name @output } } }` -/
  | implementer
  /-- `{ VertexType { name @output property { property: name @output type @output docs @output } } }` -/
  | properties
  /-- `{ VertexType { name @output edge { edge: name @output to_many @output at_least_one @output
        target { target: name @output } } } }` -/
  | edges
  /-- `{ VertexType { name @output edge { edge: name @output parameter { param: name @output
        type @output default @output } } } }` -/
  | params
  /-- `{ Entrypoint { edge: name @output to_many @output at_least_one @output target { target: name @output } } }` -/
  | entrypoints
  /-- `{ Entrypoint { edge: name @output parameter { param: name @output type @output default @output } } }` -/
  | entryParams
  /-- `{ Schema { vertex_type { name @output is_interface @output } } }` -/
  | schemaTypes
  /-- `{ Schema { entrypoint { edge: name @output } } }` -/
  | schemaEntrypoints
  /-- `{ VertexType { __typename @output name @output property { ptype: __typename @output property: name @output } } }` -/
  | typenames
  /-- `{ VertexType { name @filter(op: "=", value: ["$n"]) @output property { property: name @output type @output } } }` -/
  | byName (n : Name)
  /-- the same with `@filter(op: "one_of", value: ["$ns"])` -/
  | oneOf (ns : List Name)
  /-- `{ VertexType { name @output implements @optional { implements: name @output
        is_interface @output } } }` -/
  | optionalImplements
  deriving Repr, Inhabited

/-- The rows of one fixed query (in the model's iteration order). -/
def introspect (s : Schema) : QueryId → Outcome (List Row)
  | .types =>
    (startingVertices s "VertexType" .other).bind fun vs =>
      Outcome.collect (fun v => leaf v "VertexType"
        [("name", "name"), ("is_interface", "is_interface"), ("docs", "docs")]) vs
  | .implements =>
    (startingVertices s "VertexType" .other).bind fun vs =>
      Outcome.collect (perVertexType s "implements" "VertexType" [("implements", "name")]) vs
  | .implementer =>
    (startingVertices s "VertexType" .other).bind fun vs =>
      Outcome.collect (perVertexType s "implementer" "VertexType" [("implementer", "name")]) vs
  | .properties =>
    (startingVertices s "VertexType" .other).bind fun vs =>
      Outcome.collect (perVertexType s "property" "Property"
        [("property", "name"), ("type", "type"), ("docs", "docs")]) vs
  | .edges =>
    (startingVertices s "VertexType" .other).bind fun vs =>
      Outcome.collect (fun v =>
        match outputs v "VertexType" [("name", "name")] with
        | .panic p => .panic p
        | .ok r => expand s v "VertexType" "edge" .other r (edgeWithTarget s edgeOuts)) vs
  | .params =>
    (startingVertices s "VertexType" .other).bind fun vs =>
      Outcome.collect (fun v =>
        match outputs v "VertexType" [("name", "name")] with
        | .panic p => .panic p
        | .ok r => expand s v "VertexType" "edge" .other r (edgeWithParams s "edge")) vs
  | .entrypoints =>
    (startingVertices s "Entrypoint" .other).bind fun es => Outcome.collect (edgeWithTarget s edgeOuts) es
  | .entryParams =>
    (startingVertices s "Entrypoint" .other).bind fun es => Outcome.collect (edgeWithParams s "edge") es
  | .schemaTypes =>
    (startingVertices s "Schema" .other).bind fun ss =>
      Outcome.collect (fun sv => expand s sv "Schema" "vertex_type" .other []
        (fun v => leaf v "VertexType" [("name", "name"), ("is_interface", "is_interface")])) ss
  | .schemaEntrypoints =>
    (startingVertices s "Schema" .other).bind fun ss =>
      Outcome.collect (fun sv => expand s sv "Schema" "entrypoint" .other []
        (fun e => leaf e "Edge" [("edge", "name")])) ss
  | .typenames =>
    (startingVertices s "VertexType" .other).bind fun vs =>
      Outcome.collect (fun v =>
        match outputs v "VertexType" [("__typename", "__typename"), ("name", "name")] with
        | .panic p => .panic p
        | .ok r => expand s v "VertexType" "property" .other r
            (fun p => leaf p "Property" [("ptype", "__typename"), ("property", "name")])) vs
  | .byName n =>
    -- the adapter uses the `Single` candidate, the engine then applies the filter itself
    (startingVertices s "VertexType" (.single n)).bind fun vs =>
      Outcome.collect (perVertexType s "property" "Property" [("property", "name"), ("type", "type")])
        (vs.filter (nameIs n))
  | .oneOf ns =>
    (startingVertices s "VertexType" (.multiple ns)).bind fun vs =>
      Outcome.collect (perVertexType s "property" "Property" [("property", "name"), ("type", "type")])
        (vs.filter (nameIn ns))
  | .optionalImplements =>
    (startingVertices s "VertexType" .other).bind fun vs =>
      Outcome.collect (fun v =>
        match outputs v "VertexType" [("name", "name")] with
        | .panic p => .panic p
        | .ok r =>
          match resolveNeighbors s v "VertexType" "implements" .other with
          | .panic p => .panic p
          | .ok [] => .ok [r ++ [("implements", Cell.null), ("is_interface", Cell.null)]]
          | .ok ns =>
            match Outcome.collect (fun n => leaf n "VertexType"
                [("implements", "name"), ("is_interface", "is_interface")]) ns with
            | .panic p => .panic p
            | .ok rows => .ok (rows.map (r ++ ·))) vs

end TF.SchemaDoc
