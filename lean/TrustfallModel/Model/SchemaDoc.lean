/-
Model of `trustfall_core/src/schema/mod.rs`: `Schema::new` and every function it calls
(`check_required_transitive_implementations`, `check_field_type_narrowing`,
`check_fields_required_by_interface_implementations`, `check_type_and_property_and_edge_invariants`,
`check_root_query_type_invariants`, `get_field_origins`, `check_ambiguous_field_origins`,
`is_subtype`, `is_named_type_subtype`, `Schema::subtypes`), on an *abstract schema document*: what
`async_graphql_parser::parse_schema` returns, reduced to the parts the code looks at.

Representation choices (DESIGN.md §2 row `SchemaDoc`):
* names are `String`s (the grammar only admits `[A-Za-z_][A-Za-z0-9_]*`); `Arc<str>`/`&str` order is
  byte order, which on such names is `String`'s `<`;
* a field/parameter type is `PTy`, the shape of `async_graphql_parser::types::Type` (named base or
  list, each level with its non-null flag).  `Type::from_type` is `fromType`: it panics past 30 list
  levels (base.rs:270) and is otherwise the identity on the shape (the bit-mask encoding itself is
  `Model/Ty.lean`, group `ty`; the two could be unified through its `GType`/`Shape`);
* a default value is `some (.val v)` with `v : Value` (the result of `FieldValue::try_from(ConstValue)`:
  numbers that fit `i64` are `int64`, those that only fit `u64` are `uint64`, the rest `float64`),
  or `some .bad` when that conversion fails (the constant contains an object literal);
* `HashMap`s: `vertex_types` is a list in insertion (= document) order, used only through look-up by
  name and through `sorted_by_key(name)` iteration — every hash iteration in `Schema::new` is sorted
  first; the section "Hash iteration order (C14)" repeats the iterating functions with an explicit
  iteration-order parameter and `Props/C14Schema.lean` proves it irrelevant; `fields` (keyed by `(type, field)`) is the
  look-up `lookupField` through `vertex_types` (the first loop guarantees both maps hold exactly the
  document's types with their fields, each name once); `directives`/`scalars` are name lists;
* `BTreeSet<&str>` / `BTreeMap` are strictly sorted lists (`Set.insert` / `Map.insert`); collecting
  an iterator of pairs into a `BTreeMap` keeps the *last* value of a repeated key;
* `resolvers` (interface ↦ set of implementers, built by a fold) is the function `implementersOf`;
* errors are the variants of `InvalidSchemaError` with the names and types they carry (types as
  `PTy`, displayed by the driver); the message text and the `{value:?}` payload of
  `InvalidDefaultValueForFieldParameter` are not modelled; `MultipleErrors` is the list itself;
* every `assert!/expect/unwrap/unreachable!/unimplemented!/index` is an explicit `panic site`.

Core Lean only (compiled into the native driver).
-/
import TrustfallModel.Model.Value

namespace TF.SchemaDoc

abbrev Name := String

/-! ## Outcomes -/

/-- Where the Rust code panics. -/
inductive PanicSite where
  -- (history: until the repairs of F-16 … F-21b the first loop of `Schema::new` and the look-ups right
  -- after it had seven more sites: `dupSchemaBlock` (`assert!(schema.is_none())`), `dupDirective` and
  -- `dupScalar` (`insert_or_error(..).unwrap()`), `builtinRedefined`
  -- (`assert!(!get_builtin_scalars().contains(type_name))`), `noSchemaBlock`
  -- (`schema.expect("Schema definition was not present.")`), `queryTypeUndefined`
  -- (`.expect("The query type set in the schema object was never defined.")`) and `queryTypeNotObject`
  -- (`_ => unreachable!()`).  Each is a typed `InvalidSchemaError` now: see `SchemaErr`.)
  /-- `unimplemented!` on `enum` / `union` / `input` definitions (`TypeKind::Enum/Union/InputObject`). -/
  | unsupportedDef
  /-- `panic!("too many nested lists")` in `Type::from_type` (base.rs:270). -/
  | tooManyListLevels
  -- (history: `enumValue`, the `unimplemented!("enum values are not currently supported")` of
  -- `is_valid_value`, base.rs:380, was a site here until the repair of F-C19-1 / F-14)
  /-- index / `unwrap` sites of `get_field_origins` and `check_ambiguous_field_origins`
  (mod.rs:494, 769, 781, 799, 805) and the model's loop fuel (line 0); proved unreachable. -/
  | internal (line : Nat)
  /-- schema adapter: `as_…().expect(..)` / `unwrap_or_else(panic!)` on a vertex of the wrong kind. -/
  | adapterConversion
  /-- schema adapter: `unreachable!` on a type / property / edge name outside the meta-schema, and
  every `resolve_coercion`. -/
  | adapterUnreachable
  /-- schema adapter: `expect("failed to convert ConstValue")` (adapter/mod.rs:357). -/
  | adapterDefault
  /-- schema adapter: `expect("input type was not part of this schema")` (adapter/mod.rs:487). -/
  | adapterSubtypes
  deriving DecidableEq, Repr, Inhabited

/-- Result of running a piece of the implementation: a value, or a Rust panic at a known site. -/
inductive Outcome (α : Type) where
  | ok (a : α)
  | panic (site : PanicSite)
  deriving Repr, DecidableEq

namespace Outcome

def bind {α β : Type} : Outcome α → (α → Outcome β) → Outcome β
  | ok a, f => f a
  | panic s, _ => panic s

instance : Monad Outcome where
  pure := ok
  bind := bind

/-- `for x in l { errors.extend(f(x)) }` where `f` may panic. -/
def collect {α β : Type} (f : α → Outcome (List β)) : List α → Outcome (List β)
  | [] => ok []
  | a :: as =>
    match f a with
    | panic s => panic s
    | ok x =>
      match collect f as with
      | panic s => panic s
      | ok xs => ok (x ++ xs)

end Outcome

/-! ## Sorted sets and maps (`BTreeSet`, `BTreeMap`) -/

namespace Set

/-- `BTreeSet::insert` on a strictly sorted list. -/
def insert {κ : Type} [DecidableEq κ] (lt : κ → κ → Bool) (x : κ) : List κ → List κ
  | [] => [x]
  | y :: ys => if lt x y then x :: y :: ys else if x = y then y :: ys else y :: insert lt x ys

/-- `iter.collect::<BTreeSet<_>>()`. -/
def ofList {κ : Type} [DecidableEq κ] (lt : κ → κ → Bool) (l : List κ) : List κ :=
  l.foldl (fun acc x => insert lt x acc) []

end Set

abbrev Map (κ ν : Type) := List (κ × ν)

namespace Map

/-- `BTreeMap::insert` (replacing) on a list strictly sorted by key. -/
def insert {κ ν : Type} [DecidableEq κ] (lt : κ → κ → Bool) (k : κ) (v : ν) : Map κ ν → Map κ ν
  | [] => [(k, v)]
  | (k', v') :: m =>
    if lt k k' then (k, v) :: (k', v') :: m
    else if k = k' then (k, v) :: m
    else (k', v') :: insert lt k v m

def get? {κ ν : Type} [DecidableEq κ] (k : κ) : Map κ ν → Option ν
  | [] => none
  | (k', v') :: m => if k = k' then some v' else get? k m

def contains {κ ν : Type} [DecidableEq κ] (k : κ) (m : Map κ ν) : Bool := (get? k m).isSome

def keys {κ ν : Type} (m : Map κ ν) : List κ := m.map (·.1)

/-- In-place update of the value stored under `k` (`*map.get_mut(k).unwrap() = f(old)`). -/
def modify {κ ν : Type} [DecidableEq κ] (k : κ) (f : ν → ν) : Map κ ν → Map κ ν
  | [] => []
  | (k', v') :: m => if k = k' then (k', f v') :: m else (k', v') :: modify k f m

end Map

/-- `str` order on names. -/
def nameLt (a b : Name) : Bool := decide (a < b)

/-- Order of `(Arc<str>, Arc<str>)` keys: lexicographic. -/
def pairLt (a b : Name × Name) : Bool := nameLt a.1 b.1 || (a.1 == b.1 && nameLt a.2 b.2)

abbrev nameSet (l : List Name) : List Name := Set.ofList nameLt l

/-! ## Types of fields and parameters -/

/-- `async_graphql_parser::types::Type`: `{ base: Named(name) | List(Box<Type>), nullable }`. -/
inductive PTy where
  | named (n : Name) (nonNull : Bool)
  | list (inner : PTy) (nonNull : Bool)
  deriving DecidableEq, Repr, Inhabited

namespace PTy

/-- `Type::base_type`: the innermost name. -/
def base : PTy → Name
  | named n _ => n
  | list i _ => i.base

/-- Number of list levels. -/
def depth : PTy → Nat
  | named _ _ => 0
  | list i _ => i.depth + 1

def nonNull : PTy → Bool
  | named _ b => b
  | list _ b => b

/-- `Type::nullable`. -/
def nullable (t : PTy) : Bool := !t.nonNull

/-- `Type::is_list`. -/
def isList : PTy → Bool
  | named _ _ => false
  | list _ _ => true

/-- `Type::as_list`. -/
def asList : PTy → Option PTy
  | named _ _ => none
  | list i _ => some i

/-- `Display` of both the parser's `Type` and Trustfall's `Type` (same text for ≤ 30 levels). -/
def display : PTy → String
  | named n b => n ++ (if b then "!" else "")
  | list i b => "[" ++ i.display ++ "]" ++ (if b then "!" else "")

/-- `Type::from_type` (base.rs:256–284): panics when the loop counter `i` exceeds
`MAX_LIST_DEPTH * 2`, i.e. at the 31st list level; otherwise the same shape. -/
def fromType (t : PTy) : Outcome PTy :=
  if t.depth > 30 then .panic .tooManyListLevels else .ok t

/-- `Type::is_scalar_only_subtype(&self, maybe_subtype)` (base.rs:412–432). -/
def isScalarOnlySubtype : PTy → PTy → Bool
  | named p pn, named s sn => !(pn && !sn) && p == s
  | list pi pn, list si sn => !(pn && !sn) && pi.base == si.base && isScalarOnlySubtype pi si
  | _, _ => false

mutual
/-- `Type::is_valid_value` (base.rs:343–384): total; an enum constant is valid for no type. -/
def isValidValue (ty : PTy) : Value → Bool
  | .null => ty.nullable
  | .int64 _ => !ty.isList && ty.base == "Int"
  | .uint64 _ => !ty.isList && ty.base == "Int"
  | .float64 _ => !ty.isList && ty.base == "Float"
  | .string _ => !ty.isList && ty.base == "String"
  | .boolean _ => !ty.isList && ty.base == "Boolean"
  | .list l =>
    match ty with
    | list inner _ => allValid inner l
    | named _ _ => false
  | .enum _ => false
/-- `contents.iter().all(|inner| content_type.is_valid_value(inner))`. -/
def allValid (ty : PTy) : List Value → Bool
  | [] => true
  | v :: vs => isValidValue ty v && allValid ty vs
end

end PTy

/-! ## Documents -/

/-- A parameter's default value after `FieldValue::try_from(ConstValue)`. -/
inductive DefaultVal where
  | val (v : Value)
  /-- the conversion failed (`Object values are not supported`) -/
  | bad
  deriving Repr, Inhabited

structure Arg where
  name : Name
  ty : PTy
  default : Option DefaultVal
  deriving Repr, Inhabited

structure Field where
  name : Name
  ty : PTy
  args : List Arg
  deriving Repr, Inhabited

/-- An object (`type`) or `interface` definition. -/
structure TypeDef where
  name : Name
  isInterface : Bool
  implements : List Name
  fields : List Field
  deriving Repr, Inhabited

inductive Def where
  /-- `schema { query: q }` -/
  | schema (query : Name)
  | directive (name : Name)
  | scalar (name : Name)
  | type (t : TypeDef)
  /-- `enum` / `union` / `input` definition: outside the supported constructs -/
  | unsupported (name : Name)
  deriving Repr, Inhabited

/-- Definitions in document order. -/
abbrev Doc := List Def

def builtinScalars : List Name := ["Int", "Float", "String", "Boolean", "ID"]

def isBuiltin (n : Name) : Bool := builtinScalars.contains n

/-- `name.starts_with("__")`. -/
def reserved (n : Name) : Bool :=
  match n.toList with
  | '_' :: '_' :: _ => true
  | _ => false

/-! ## Errors -/

/-- `InvalidSchemaError` variants with the names / types they carry, in the field order of the Rust
enum (error.rs). -/
inductive SchemaErr where
  | invalidTypeWidening (field type iface : Name) (ty parentTy : PTy)
  | invalidParamNarrowing (field type iface param : Name) (ty parentTy : PTy)
  | inheritedFieldMissingParameters (field type iface : Name) (params : List Name)
  | inheritedFieldUnexpectedParameters (field type iface : Name) (params : List Name)
  | invalidDefaultValue (type field param : Name) (paramTy : PTy)
  | circularImplements (types : List Name)
  | missingTransitive (type iface required : Name)
  | missingRequiredField (type iface field : Name) (ty : PTy)
  | ambiguousFieldOrigin (type field : Name) (ty : PTy) (origins : List Name)
  | propertyFieldWithParameters (type field : Name) (ty : PTy) (params : List Name)
  | invalidEdgeType (type field : Name) (ty : PTy)
  | unknownPropertyOrEdgeType (field : Name) (ty : PTy)
  | propertyFieldOnRoot (type field : Name) (ty : PTy)
  | edgePointsToRoot (type field : Name) (ty : PTy)
  | reservedFieldName (type field : Name)
  | reservedTypeName (type : Name)
  | implementingNonExistentType (type iface : Name)
  | implementingNonInterface (type iface : Name)
  | duplicateFieldDefinition (type field : Name)
  | duplicateTypeDefinition (type : Name)
  /-- `DuplicateDirectiveDefinition` (was the panic of F-21) -/
  | duplicateDirectiveDefinition (name : Name)
  /-- `DuplicateScalarDefinition` (was the panic of F-21b) -/
  | duplicateScalarDefinition (name : Name)
  /-- `DuplicateSchemaDefinition` (was the panic of F-16) -/
  | duplicateSchemaDefinition
  /-- `MissingSchemaDefinition` (was the panic of F-17).  (`MissingQueryType`, the other former
  `expect` at that place, needs a `schema` block without `query:`, which the text parser rejects —
  `MissingQueryRoot` — and the abstract document cannot express: `Def.schema` always carries a name.) -/
  | missingSchemaDefinition
  /-- `UndefinedQueryType` (was the panic of F-18) -/
  | undefinedQueryType (name : Name)
  /-- `QueryTypeNotAnObject` (was the panic of F-19) -/
  | queryTypeNotAnObject (name : Name)
  /-- `BuiltinScalarRedefinition` (was the panic of F-20) -/
  | builtinScalarRedefinition (name : Name)
  /-- `DuplicateFieldParameterDefinition` (F-C10-5: such a field used to be accepted and made the
  frontend panic in `make_edge_parameters`) -/
  | duplicateFieldParameterDefinition (type field param : Name)
  deriving Repr, Inhabited, DecidableEq

/-! ## Look-ups in `vertex_types` / `fields` -/

/-- `vertex_types.get(name)`. -/
def findType (vts : List TypeDef) (n : Name) : Option TypeDef :=
  vts.find? (fun t => t.name == n)

def findField (t : TypeDef) (f : Name) : Option Field :=
  t.fields.find? (fun x => x.name == f)

/-- `fields.get(&(type, field))`. -/
def lookupField (vts : List TypeDef) (t f : Name) : Option Field :=
  match findType vts t with
  | some d => findField d f
  | none => none

def insertByName (t : TypeDef) : List TypeDef → List TypeDef
  | [] => [t]
  | y :: ys => if nameLt t.name y.name then t :: y :: ys else y :: insertByName t ys

/-- `vertex_types.iter().sorted_by_key(|(name, _)| *name)`. -/
def sortByName (vts : List TypeDef) : List TypeDef :=
  vts.foldr insertByName []

/-! ## `is_named_type_subtype`, `is_subtype` (mod.rs:430–483) -/

def isNamedSubtype (vts : List TypeDef) (parent sub : Name) : Bool :=
  match (findType vts parent).isSome, findType vts sub with
  | false, none => parent == sub
  | true, some s => parent == sub || s.implements.contains parent
  | _, _ => false

/-- `is_subtype(vertex_types, parent_type, maybe_subtype)`. -/
def isSubtype (vts : List TypeDef) : PTy → PTy → Bool
  | .named p pn, .named s sn => !(pn && !sn) && isNamedSubtype vts p s
  | .list pi pn, .list si sn => !(pn && !sn) && isSubtype vts pi si
  | _, _ => false

/-! ## `check_required_transitive_implementations` (mod.rs:514–564) -/

def checkTransitiveFor (vts : List TypeDef) (t : TypeDef) : List SchemaErr :=
  let impls := nameSet t.implements
  impls.flatMap fun i =>
    match findType vts i with
    | some d =>
      if !d.isInterface then [.implementingNonInterface t.name i]
      else d.implements.filterMap fun e =>
        if e != t.name && !impls.contains e then some (.missingTransitive t.name i e) else none
    | none => [.implementingNonExistentType t.name i]

def checkTransitive (vts : List TypeDef) : List SchemaErr :=
  (sortByName vts).flatMap (checkTransitiveFor vts)

/-! ## `check_field_type_narrowing` (mod.rs:601–705) -/

/-- `arguments.iter().map(|arg| (name, &ty)).collect::<BTreeMap<_, _>>()`. -/
def paramMap (args : List Arg) : Map Name PTy :=
  args.foldl (fun m a => Map.insert nameLt a.name a.ty m) []

def checkParamType (t : TypeDef) (f : Field) (i : Name) (pp : Map Name PTy)
    (p : Name × PTy) : Outcome (List SchemaErr) :=
  match Map.get? p.1 pp with
  | none => .ok []
  | some pty =>
    match PTy.fromType p.2, PTy.fromType pty with
    | .ok a, .ok b =>
      .ok (if a.isScalarOnlySubtype b then [] else [.invalidParamNarrowing f.name t.name i p.1 p.2 pty])
    | .panic s, _ => .panic s
    | _, .panic s => .panic s

def checkNarrowingImpl (vts : List TypeDef) (t : TypeDef) (f : Field) (i : Name) :
    Outcome (List SchemaErr) :=
  match lookupField vts i f.name with
  | none => .ok []
  | some pf =>
    let fp := paramMap f.args
    let pp := paramMap pf.args
    let e1 := if isSubtype vts pf.ty f.ty then [] else [SchemaErr.invalidTypeWidening f.name t.name i f.ty pf.ty]
    let missing := pp.keys.filter (fun n => !Map.contains n fp)
    let e2 := if missing.isEmpty then [] else [SchemaErr.inheritedFieldMissingParameters f.name t.name i missing]
    let unexpected := fp.keys.filter (fun n => !Map.contains n pp)
    let e3 := if unexpected.isEmpty then [] else [SchemaErr.inheritedFieldUnexpectedParameters f.name t.name i unexpected]
    match Outcome.collect (checkParamType t f i pp) fp with
    | .ok e4 => .ok (e1 ++ e2 ++ e3 ++ e4)
    | .panic s => .panic s

def checkNarrowingField (vts : List TypeDef) (t : TypeDef) (f : Field) : Outcome (List SchemaErr) :=
  Outcome.collect (checkNarrowingImpl vts t f) t.implements

def checkNarrowingType (vts : List TypeDef) (t : TypeDef) : Outcome (List SchemaErr) :=
  Outcome.collect (checkNarrowingField vts t) t.fields

def checkNarrowing (vts : List TypeDef) : Outcome (List SchemaErr) :=
  Outcome.collect (checkNarrowingType vts) (sortByName vts)

/-! ## `check_fields_required_by_interface_implementations` (mod.rs:566–599) -/

def checkRequiredFieldsFor (vts : List TypeDef) (t : TypeDef) : List SchemaErr :=
  t.implements.flatMap fun i =>
    match findType vts i with
    | none => []
    | some d => d.fields.filterMap fun pf =>
      if (lookupField vts t.name pf.name).isNone then
        some (.missingRequiredField t.name i pf.name pf.ty)
      else none

def checkRequiredFields (vts : List TypeDef) : List SchemaErr :=
  (sortByName vts).flatMap (checkRequiredFieldsFor vts)

/-! ## `check_type_and_property_and_edge_invariants` (mod.rs:328–428) -/

def checkDefault (t : TypeDef) (f : Field) (a : Arg) : Outcome (List SchemaErr) :=
  match a.default with
  | none => .ok []
  | some .bad => .ok [.invalidDefaultValue t.name f.name a.name a.ty]
  | some (.val v) =>
    match PTy.fromType a.ty with
    | .panic s => .panic s
    | .ok pty =>
      if pty.isValidValue v then .ok []
      else .ok [.invalidDefaultValue t.name f.name a.name a.ty]

def checkFieldInvariants (vts : List TypeDef) (root : Name) (t : TypeDef) (f : Field) :
    Outcome (List SchemaErr) :=
  let e0 := if reserved f.name then [SchemaErr.reservedFieldName t.name f.name] else []
  match PTy.fromType f.ty with
  | .panic s => .panic s
  | .ok fty =>
    if isBuiltin fty.base then
      .ok (e0 ++ if !f.args.isEmpty then
        [.propertyFieldWithParameters t.name f.name fty (f.args.map (·.name))] else [])
    else if (findType vts fty.base).isSome then
      if fty.base == root then .ok (e0 ++ [.edgePointsToRoot t.name f.name fty])
      else
        match Outcome.collect (checkDefault t f) f.args with
        | .panic s => .panic s
        | .ok e1 =>
          let e2 := match fty.asList with
            | some inner => if inner.isList then [SchemaErr.invalidEdgeType t.name f.name fty] else []
            | none => []
          .ok (e0 ++ e1 ++ e2)
    else .ok (e0 ++ [.unknownPropertyOrEdgeType f.name fty])

def checkTypeInvariants (vts : List TypeDef) (root : Name) (t : TypeDef) : Outcome (List SchemaErr) :=
  let e0 := if reserved t.name then [SchemaErr.reservedTypeName t.name] else []
  match Outcome.collect (checkFieldInvariants vts root t) t.fields with
  | .panic s => .panic s
  | .ok es => .ok (e0 ++ es)

def checkInvariants (vts : List TypeDef) (root : Name) : Outcome (List SchemaErr) :=
  Outcome.collect (checkTypeInvariants vts root) (sortByName vts)

/-! ## `check_root_query_type_invariants` (mod.rs:300–326) -/

def checkRootField (q : TypeDef) (f : Field) : Outcome (List SchemaErr) :=
  match PTy.fromType f.ty with
  | .panic s => .panic s
  | .ok fty => .ok (if isBuiltin fty.base then [.propertyFieldOnRoot q.name f.name fty] else [])

def checkRoot (q : TypeDef) : Outcome (List SchemaErr) :=
  Outcome.collect (checkRootField q) q.fields

/-! ## `get_field_origins` (mod.rs:724–825) -/

/-- `enum FieldOrigin`. -/
inductive Origin where
  | single (n : Name)
  | multiple (s : List Name)
  deriving Repr, Inhabited, DecidableEq

/-- `impl Add for &FieldOrigin`. -/
def Origin.add : Origin → Origin → Origin
  | .single l, .single r => if l = r then .single l else .multiple (nameSet [l, r])
  | .single s, .multiple m => .multiple (Set.insert nameLt s m)
  | .multiple m, .single s => .multiple (Set.insert nameLt s m)
  | .multiple l, .multiple r => .multiple (r.foldl (fun acc x => Set.insert nameLt x acc) l)

abbrev Origins := Map (Name × Name) Origin

/-- `resolvers.get(type_name)`: the (sorted) set of names of the types whose `implements` list
mentions `n`. -/
def implementersOf (vts : List TypeDef) (n : Name) : List Name :=
  nameSet (((sortByName vts).filter (fun t => t.implements.contains n)).map (·.name))

/-- The defined types among `t.implements`, as a set: one entry of `required_resolutions`. -/
def resolutionsOf (vts : List TypeDef) (t : TypeDef) : List Name :=
  nameSet (t.implements.filter (fun i => (findType vts i).isSome))

structure KState where
  origins : Origins
  queue : List Name
  /-- `required_resolutions` -/
  remaining : Map Name (List Name)
  deriving Repr, Inhabited

/-- Initial `required_resolutions` and `queue`. -/
def kInit (vts : List TypeDef) : KState :=
  let sorted := sortByName vts
  { origins := []
    queue := (sorted.filter (fun t => (resolutionsOf vts t).isEmpty)).map (·.name)
    remaining := sorted.map (fun t => (t.name, resolutionsOf vts t)) }

/-- One parent field: `implemented_fields.entry(name).and_modify(+).or_insert(origin)`. -/
def addParentField (origins : Origins) (iface : Name) (acc : Map Name Origin) (pf : Field) :
    Outcome (Map Name Origin) :=
  match Map.get? (iface, pf.name) origins with
  | none => .panic (.internal 781)
  | some o =>
    match Map.get? pf.name acc with
    | some prev => .ok (Map.insert nameLt pf.name (prev.add o) acc)
    | none => .ok (Map.insert nameLt pf.name o acc)

def addParentFields (origins : Origins) (iface : Name) :
    Map Name Origin → List Field → Outcome (Map Name Origin)
  | acc, [] => .ok acc
  | acc, pf :: pfs =>
    match addParentField origins iface acc pf with
    | .panic s => .panic s
    | .ok acc' => addParentFields origins iface acc' pfs

/-- The loop over `implements` building `implemented_fields`. -/
def implementedFields (vts : List TypeDef) (origins : Origins) :
    Map Name Origin → List Name → Outcome (Map Name Origin)
  | acc, [] => .ok acc
  | acc, i :: is =>
    match findType vts i with
    | none => implementedFields vts origins acc is
    | some d =>
      match addParentFields origins i acc d.fields with
      | .panic s => .panic s
      | .ok acc' => implementedFields vts origins acc' is

/-- The loop over the type's own fields inserting into `field_origins`
(`implemented_fields.remove(name)` is a look-up here: field names of a type are distinct). -/
def insertOrigins (tname : Name) (inherited : Map Name Origin) :
    Origins → List Field → Outcome Origins
  | origins, [] => .ok origins
  | origins, f :: fs =>
    let o := (Map.get? f.name inherited).getD (.single tname)
    if Map.contains (tname, f.name) origins then .panic (.internal 799)
    else insertOrigins tname inherited (Map.insert pairLt (tname, f.name) o origins) fs

/-- `remaining.remove(type_name) && remaining.is_empty()` for one implementer. -/
def resolveOne (tname : Name) (st : Map Name (List Name) × List Name) (next : Name) :
    Outcome (Map Name (List Name) × List Name) :=
  match Map.get? next st.1 with
  | none => .panic (.internal 805)
  | some rem =>
    let rem' := rem.filter (fun x => x != tname)
    let st1 := Map.modify next (fun _ => rem') st.1
    if rem.contains tname && rem'.isEmpty then .ok (st1, st.2 ++ [next]) else .ok (st1, st.2)

def resolveAll (tname : Name) :
    Map Name (List Name) × List Name → List Name → Outcome (Map Name (List Name) × List Name)
  | st, [] => .ok st
  | st, n :: ns =>
    match resolveOne tname st n with
    | .panic s => .panic s
    | .ok st' => resolveAll tname st' ns

/-- Body of `while let Some(type_name) = queue.pop_front()`. -/
def kStep (vts : List TypeDef) (st : KState) (tname : Name) (rest : List Name) : Outcome KState :=
  match findType vts tname with
  | none => .panic (.internal 769)
  | some defn =>
    match implementedFields vts st.origins [] defn.implements with
    | .panic s => .panic s
    | .ok inherited =>
      match insertOrigins tname inherited st.origins defn.fields with
      | .panic s => .panic s
      | .ok origins' =>
        match resolveAll tname (st.remaining, rest) (implementersOf vts tname) with
        | .panic s => .panic s
        | .ok (remaining', queue') => .ok { origins := origins', queue := queue', remaining := remaining' }

/-- The `while` loop; `fuel` bounds the number of iterations (each type is dequeued at most once, so
`vts.length` suffices — running out of fuel is the site `internal 0`, proved unreachable). -/
def kLoop (vts : List TypeDef) : Nat → KState → Outcome KState
  | fuel, st =>
    match st.queue with
    | [] => .ok st
    | tname :: rest =>
      match fuel with
      | 0 => .panic (.internal 0)
      | fuel + 1 =>
        match kStep vts st tname rest with
        | .panic s => .panic s
        | .ok st' => kLoop vts fuel st'

/-- The final scan of `required_resolutions`: the first type with unresolved requirements. -/
def firstUnresolved : Map Name (List Name) → Option SchemaErr
  | [] => none
  | (required, remaining) :: m =>
    if !remaining.isEmpty then some (.circularImplements (Set.insert nameLt required remaining))
    else firstUnresolved m

def getFieldOrigins (vts : List TypeDef) : Outcome (Except SchemaErr Origins) :=
  match kLoop vts vts.length (kInit vts) with
  | .panic s => .panic s
  | .ok st =>
    match firstUnresolved st.remaining with
    | some e => .ok (.error e)
    | none => .ok (.ok st.origins)

/-! ## `check_ambiguous_field_origins` (mod.rs:485–505) -/

def checkAmbiguousOne (vts : List TypeDef) (e : (Name × Name) × Origin) : Outcome (List SchemaErr) :=
  match e.2 with
  | .single _ => .ok []
  | .multiple ancestors =>
    match lookupField vts e.1.1 e.1.2 with
    | none => .panic (.internal 494)
    | some f => .ok [.ambiguousFieldOrigin e.1.1 e.1.2 f.ty ancestors]

def checkAmbiguous (vts : List TypeDef) (origins : Origins) : Outcome (List SchemaErr) :=
  Outcome.collect (checkAmbiguousOne vts) origins

/-! ## `Schema::new` (mod.rs:107–254) -/

structure LoopState where
  schema : Option Name := none
  directives : List Name := []
  scalars : List Name := []
  /-- `vertex_types`, in insertion order -/
  vertexTypes : List TypeDef := []
  deriving Repr, Inhabited

/-- The first name of the list that already occurred (`!parameter_names.insert(name)`). -/
def firstDupName : List Name → List Name → Option Name
  | _, [] => none
  | seen, n :: ns => if seen.contains n then some n else firstDupName (n :: seen) ns

/-- `for field in field_defs { … }` of one type definition: per field, first its parameter names are
checked (the first repeated one is `DuplicateFieldParameterDefinition`), then the field is inserted
into `fields` (a name already inserted for this type is `DuplicateFieldDefinition`); the first error is
an early `return Err(..)`. -/
def firstFieldErr (tname : Name) : List Name → List Field → Option SchemaErr
  | _, [] => none
  | seen, f :: fs =>
    match firstDupName [] (f.args.map (·.name)) with
    | some p => some (.duplicateFieldParameterDefinition tname f.name p)
    | none =>
      if seen.contains f.name then some (.duplicateFieldDefinition tname f.name)
      else firstFieldErr tname (f.name :: seen) fs

/-- One iteration of `for definition in doc.definitions`; `Except.error` is the early `return Err`
(every error of the first loop is an early return: a second `schema` block, a repeated directive, a
definition named like a built-in scalar — checked first for every type-system definition, also an
`enum`/`union`/`input` one —, a repeated custom scalar, a repeated type name, a repeated parameter name
of a field, a repeated field name). -/
def loopStep (st : LoopState) : Def → Outcome (Except SchemaErr LoopState)
  | .schema q =>
    if st.schema.isSome then .ok (.error .duplicateSchemaDefinition)
    else .ok (.ok { st with schema := some q })
  | .directive n =>
    if st.directives.contains n then .ok (.error (.duplicateDirectiveDefinition n))
    else .ok (.ok { st with directives := st.directives ++ [n] })
  | .scalar n =>
    if isBuiltin n then .ok (.error (.builtinScalarRedefinition n))
    else if st.scalars.contains n then .ok (.error (.duplicateScalarDefinition n))
    else .ok (.ok { st with scalars := st.scalars ++ [n] })
  | .unsupported n =>
    if isBuiltin n then .ok (.error (.builtinScalarRedefinition n)) else .panic .unsupportedDef
  | .type t =>
    if isBuiltin t.name then .ok (.error (.builtinScalarRedefinition t.name))
    else if (findType st.vertexTypes t.name).isSome then .ok (.error (.duplicateTypeDefinition t.name))
    else
      match firstFieldErr t.name [] t.fields with
      | some e => .ok (.error e)
      | none => .ok (.ok { st with vertexTypes := st.vertexTypes ++ [t] })

def runLoop : LoopState → Doc → Outcome (Except SchemaErr LoopState)
  | st, [] => .ok (.ok st)
  | st, d :: ds =>
    match loopStep st d with
    | .panic s => .panic s
    | .ok (.error e) => .ok (.error e)
    | .ok (.ok st') => runLoop st' ds

/-- The validated schema (`struct Schema`). -/
structure Schema where
  queryType : TypeDef
  directives : List Name
  scalars : List Name
  vertexTypes : List TypeDef
  fieldOrigins : Origins
  deriving Repr, Inhabited

/-- The part of `Schema::new` after the query type has been found: the six checks, their errors
concatenated in source order. -/
def runChecks (vts : List TypeDef) (q : TypeDef) : Outcome (List SchemaErr × Option Origins) :=
  let e1 := checkTransitive vts
  match checkNarrowing vts with
  | .panic s => .panic s
  | .ok e2 =>
    let e3 := checkRequiredFields vts
    match checkInvariants vts q.name with
    | .panic s => .panic s
    | .ok e4 =>
      match checkRoot q with
      | .panic s => .panic s
      | .ok e5 =>
        match getFieldOrigins vts with
        | .panic s => .panic s
        | .ok (.error e) => .ok (e1 ++ e2 ++ e3 ++ e4 ++ e5 ++ [e], none)
        | .ok (.ok origins) =>
          match checkAmbiguous vts origins with
          | .panic s => .panic s
          | .ok e6 => .ok (e1 ++ e2 ++ e3 ++ e4 ++ e5 ++ e6, some origins)

/-- `Schema::new`.  After the first loop: no `schema` block, a query type that is not a defined vertex
type, or one that is an interface, are early `return Err(..)`s (single errors); only then the six checks
run and accumulate. -/
def Schema.new (doc : Doc) : Outcome (Except (List SchemaErr) Schema) :=
  match runLoop {} doc with
  | .panic s => .panic s
  | .ok (.error e) => .ok (.error [e])
  | .ok (.ok st) =>
    match st.schema with
    | none => .ok (.error [.missingSchemaDefinition])
    | some qname =>
      match findType st.vertexTypes qname with
      | none => .ok (.error [.undefinedQueryType qname])
      | some q =>
        if q.isInterface then .ok (.error [.queryTypeNotAnObject qname])
        else
          match runChecks st.vertexTypes q with
          | .panic s => .panic s
          | .ok (errors, origins) =>
            if errors.isEmpty then
              match origins with
              | none => .panic (.internal 249)
              | some o =>
                .ok (.ok { queryType := q, directives := st.directives, scalars := st.scalars,
                           vertexTypes := st.vertexTypes, fieldOrigins := o })
            else .ok (.error errors)

/-- Observers of an outcome (decidable, for witnesses and drivers). -/
def Outcome.panicSite? {α : Type} : Outcome α → Option PanicSite
  | .ok _ => none
  | .panic s => some s

/-- `Schema::new(doc)` returned `Ok(_)`. -/
def accepts (doc : Doc) : Bool :=
  match Schema.new doc with
  | .ok (.ok _) => true
  | _ => false

/-- `Schema::new(doc)` returned `Err(errors)`. -/
def rejectsWith (doc : Doc) : Option (List SchemaErr) :=
  match Schema.new doc with
  | .ok (.error es) => some es
  | _ => none

/-- `Schema::subtypes` (mod.rs:258–277): the named type and every type that lists it in
`implements`, in name order; `none` when the type is not defined. -/
def Schema.subtypes (s : Schema) (n : Name) : Option (List Name) :=
  if (findType s.vertexTypes n).isSome then
    some (((sortByName s.vertexTypes).filter
      (fun t => t.name == n || t.implements.contains n)).map (·.name))
  else none

/-! ## Hash iteration order (C14)

`Schema::new` iterates exactly one `HashMap`, `vertex_types`, at six sites — each time as
`vertex_types.iter().sorted_by_key(|(name, _)| *name)`: mod.rs:334 (type/property/edge invariants),
519 (transitive implementations), 572 (required fields), 607 (field type narrowing), 731 and 749
(`required_resolutions` and `resolvers` in `get_field_origins`).  `fields`, `directives` and
`scalars` are only looked up, never iterated.  The definitions below are the ones above with the
order in which the map hands out its entries made an explicit parameter: at every site an arbitrary
rearrangement of the entries, *then* the sort.  `Props/C14Schema.lean` proves that the parameter
does not matter. -/

/-- The iteration order of `vertex_types` at each site (site = source line): any permutation. -/
structure HashOrder where
  perm : Nat → List TypeDef → List TypeDef
  isPerm : ∀ (site : Nat) (l : List TypeDef), (perm site l).Perm l

/-- The order of insertion. -/
def HashOrder.insertion : HashOrder := ⟨fun _ l => l, fun _ l => List.Perm.refl l⟩

/-- `vertex_types.iter().sorted_by_key(|(name, _)| *name)` at `site`. -/
def sortedTypes (π : HashOrder) (site : Nat) (vts : List TypeDef) : List TypeDef :=
  sortByName (π.perm site vts)

def checkTransitiveW (π : HashOrder) (vts : List TypeDef) : List SchemaErr :=
  (sortedTypes π 519 vts).flatMap (checkTransitiveFor vts)

def checkNarrowingW (π : HashOrder) (vts : List TypeDef) : Outcome (List SchemaErr) :=
  Outcome.collect (checkNarrowingType vts) (sortedTypes π 607 vts)

def checkRequiredFieldsW (π : HashOrder) (vts : List TypeDef) : List SchemaErr :=
  (sortedTypes π 572 vts).flatMap (checkRequiredFieldsFor vts)

def checkInvariantsW (π : HashOrder) (vts : List TypeDef) (root : Name) : Outcome (List SchemaErr) :=
  Outcome.collect (checkTypeInvariants vts root) (sortedTypes π 334 vts)

def implementersOfW (π : HashOrder) (vts : List TypeDef) (n : Name) : List Name :=
  nameSet (((sortedTypes π 749 vts).filter (fun t => t.implements.contains n)).map (·.name))

def kInitW (π : HashOrder) (vts : List TypeDef) : KState :=
  let sorted := sortedTypes π 731 vts
  { origins := []
    queue := (sorted.filter (fun t => (resolutionsOf vts t).isEmpty)).map (·.name)
    remaining := sorted.map (fun t => (t.name, resolutionsOf vts t)) }

def kStepW (π : HashOrder) (vts : List TypeDef) (st : KState) (tname : Name) (rest : List Name) :
    Outcome KState :=
  match findType vts tname with
  | none => .panic (.internal 769)
  | some defn =>
    match implementedFields vts st.origins [] defn.implements with
    | .panic s => .panic s
    | .ok inherited =>
      match insertOrigins tname inherited st.origins defn.fields with
      | .panic s => .panic s
      | .ok origins' =>
        match resolveAll tname (st.remaining, rest) (implementersOfW π vts tname) with
        | .panic s => .panic s
        | .ok (remaining', queue') => .ok { origins := origins', queue := queue', remaining := remaining' }

def kLoopW (π : HashOrder) (vts : List TypeDef) : Nat → KState → Outcome KState
  | fuel, st =>
    match st.queue with
    | [] => .ok st
    | tname :: rest =>
      match fuel with
      | 0 => .panic (.internal 0)
      | fuel + 1 =>
        match kStepW π vts st tname rest with
        | .panic s => .panic s
        | .ok st' => kLoopW π vts fuel st'

def getFieldOriginsW (π : HashOrder) (vts : List TypeDef) : Outcome (Except SchemaErr Origins) :=
  match kLoopW π vts vts.length (kInitW π vts) with
  | .panic s => .panic s
  | .ok st =>
    match firstUnresolved st.remaining with
    | some e => .ok (.error e)
    | none => .ok (.ok st.origins)

def runChecksW (π : HashOrder) (vts : List TypeDef) (q : TypeDef) :
    Outcome (List SchemaErr × Option Origins) :=
  let e1 := checkTransitiveW π vts
  match checkNarrowingW π vts with
  | .panic s => .panic s
  | .ok e2 =>
    let e3 := checkRequiredFieldsW π vts
    match checkInvariantsW π vts q.name with
    | .panic s => .panic s
    | .ok e4 =>
      match checkRoot q with
      | .panic s => .panic s
      | .ok e5 =>
        match getFieldOriginsW π vts with
        | .panic s => .panic s
        | .ok (.error e) => .ok (e1 ++ e2 ++ e3 ++ e4 ++ e5 ++ [e], none)
        | .ok (.ok origins) =>
          match checkAmbiguous vts origins with
          | .panic s => .panic s
          | .ok e6 => .ok (e1 ++ e2 ++ e3 ++ e4 ++ e5 ++ e6, some origins)

/-- `Schema::new` with the hash iteration order `π`; errors in the order the code reports them. -/
def Schema.newW (π : HashOrder) (doc : Doc) : Outcome (Except (List SchemaErr) Schema) :=
  match runLoop {} doc with
  | .panic s => .panic s
  | .ok (.error e) => .ok (.error [e])
  | .ok (.ok st) =>
    match st.schema with
    | none => .ok (.error [.missingSchemaDefinition])
    | some qname =>
      match findType st.vertexTypes qname with
      | none => .ok (.error [.undefinedQueryType qname])
      | some q =>
        if q.isInterface then .ok (.error [.queryTypeNotAnObject qname])
        else
          match runChecksW π st.vertexTypes q with
          | .panic s => .panic s
          | .ok (errors, origins) =>
            if errors.isEmpty then
              match origins with
              | none => .panic (.internal 249)
              | some o =>
                .ok (.ok { queryType := q, directives := st.directives, scalars := st.scalars,
                           vertexTypes := st.vertexTypes, fieldOrigins := o })
            else .ok (.error errors)

/-- `Schema::subtypes` with the hash iteration order `π` (site mod.rs:266). -/
def Schema.subtypesW (π : HashOrder) (s : Schema) (n : Name) : Option (List Name) :=
  if (findType s.vertexTypes n).isSome then
    some (((sortedTypes π 266 s.vertexTypes).filter
      (fun t => t.name == n || t.implements.contains n)).map (·.name))
  else none

/-! ## The declarative rules (independent of the algorithm above) -/

/-- The object/interface definitions of a document. -/
def Doc.types (doc : Doc) : List TypeDef :=
  doc.filterMap fun | .type t => some t | _ => none

def Doc.schemaBlocks (doc : Doc) : List Name :=
  doc.filterMap fun | .schema q => some q | _ => none

def Doc.directiveNames (doc : Doc) : List Name :=
  doc.filterMap fun | .directive n => some n | _ => none

def Doc.scalarNames (doc : Doc) : List Name :=
  doc.filterMap fun | .scalar n => some n | _ => none

def Doc.unsupportedNames (doc : Doc) : List Name :=
  doc.filterMap fun | .unsupported n => some n | _ => none

/-- "`n` is a defined vertex type" among the definitions `ts`. -/
def IsVertex (ts : List TypeDef) (n : Name) : Prop := ∃ d ∈ ts, d.name = n

/-- The subtype relation on type *names*: equal names, or (both vertex types and) the subtype lists
the parent in its `implements`. Scalars and undefined names are only subtypes of themselves. -/
def NamedNarrows (ts : List TypeDef) (parent sub : Name) : Prop :=
  parent = sub ∨ (IsVertex ts parent ∧ ∃ d ∈ ts, d.name = sub ∧ parent ∈ d.implements)

/-- "The inherited field's type may only be narrowed": same list structure; at every level a
non-null parent requires a non-null child; the innermost names are in the subtype relation. -/
inductive Narrows (ts : List TypeDef) : PTy → PTy → Prop where
  | named {p s : Name} {pn sn : Bool} : (pn = true → sn = true) → NamedNarrows ts p s →
      Narrows ts (.named p pn) (.named s sn)
  | list {pi si : PTy} {pn sn : Bool} : (pn = true → sn = true) → Narrows ts pi si →
      Narrows ts (.list pi pn) (.list si sn)

/-- `ScalarNarrows parent sub`: the same named scalar under the same list structure, and at every
level a non-null `parent` requires a non-null `sub` (no vertex-type subtyping is involved). -/
inductive ScalarNarrows : PTy → PTy → Prop where
  | named {n : Name} {pn sn : Bool} : (pn = true → sn = true) → ScalarNarrows (.named n pn) (.named n sn)
  | list {pi si : PTy} {pn sn : Bool} : (pn = true → sn = true) → pi.base = si.base →
      ScalarNarrows pi si → ScalarNarrows (.list pi pn) (.list si sn)

/-- The type of parameter `p` among `args` (the last declaration would win if a name were repeated, as
in the `BTreeMap` the validator builds — since the repair of F-C10-5 a repeated name is rejected by
the first loop, `paramsDistinct`, so on a schema that reaches the inheritance checks there is exactly
one declaration). -/
def argTy : List Arg → Name → Option PTy
  | [], _ => none
  | a :: as, p =>
    match argTy as p with
    | some t => some t
    | none => if a.name = p then some a.ty else none

/-- "A default value fits its parameter type" (`null` needs a nullable level, integers fit `Int`,
floats `Float`, strings `String`, booleans `Boolean`, lists fit list types element-wise; enum
constants fit nothing). -/
def Fits : PTy → Value → Prop
  | ty, .null => ty.nonNull = false
  | .named n _, .int64 _ => n = "Int"
  | .named n _, .uint64 _ => n = "Int"
  | .named n _, .float64 _ => n = "Float"
  | .named n _, .string _ => n = "String"
  | .named n _, .boolean _ => n = "Boolean"
  | .list inner _, .list vs => ∀ v ∈ vs, Fits inner v
  | _, _ => False

/-- One step of the `implements` relation between *defined* types. -/
def ImplStep (ts : List TypeDef) (a b : Name) : Prop :=
  ∃ d ∈ ts, d.name = a ∧ b ∈ d.implements ∧ IsVertex ts b

/-- Transitive closure. -/
inductive TransGen {α : Type} (r : α → α → Prop) : α → α → Prop where
  | single {a b : α} : r a b → TransGen r a b
  | tail {a b c : α} : TransGen r a b → r b c → TransGen r a c

/-- Type `t` is defined and declares a field named `f`. -/
def HasField (ts : List TypeDef) (t f : Name) : Prop := ∃ d ∈ ts, d.name = t ∧ ∃ x ∈ d.fields, x.name = f

/-- `OriginOf ts t f a`: `a` is a type in which field `f` of type `t` originates: `t` itself when
none of the types it implements has a field `f`, otherwise an origin of `f` in one of those. -/
inductive OriginOf (ts : List TypeDef) : Name → Name → Name → Prop where
  | self {t f : Name} : HasField ts t f →
      (∀ d ∈ ts, d.name = t → ∀ i ∈ d.implements, ¬ HasField ts i f) → OriginOf ts t f t
  | inherited {t f i a : Name} : HasField ts t f →
      (∃ d ∈ ts, d.name = t ∧ i ∈ d.implements) → HasField ts i f → OriginOf ts i f a →
      OriginOf ts t f a

/-- The documented schema rules. -/
structure ValidSchema (doc : Doc) : Prop where
  /-- exactly one `schema` block, naming a defined object type -/
  queryType : ∃ q, doc.schemaBlocks = [q] ∧ ∃ d ∈ doc.types, d.name = q ∧ d.isInterface = false
  /-- every type / interface name is defined once -/
  typesDistinct : (doc.types.map (·.name)).Nodup
  /-- every field name is defined once per type -/
  fieldsDistinct : ∀ t ∈ doc.types, (t.fields.map (·.name)).Nodup
  /-- implemented types exist and are interfaces -/
  implementsInterfaces : ∀ t ∈ doc.types, ∀ i ∈ t.implements,
    ∃ d ∈ doc.types, d.name = i ∧ d.isInterface = true
  /-- interfaces are implemented transitively -/
  implementsTransitive : ∀ t ∈ doc.types, ∀ i ∈ t.implements, ∀ d ∈ doc.types, d.name = i →
    ∀ j ∈ d.implements, j ∈ t.implements
  /-- inherited fields are present -/
  inheritedPresent : ∀ t ∈ doc.types, ∀ i ∈ t.implements, ∀ d ∈ doc.types, d.name = i →
    ∀ pf ∈ d.fields, ∃ f ∈ t.fields, f.name = pf.name
  /-- inherited fields are only narrowed; same parameter names; parameter types only widened
  (contravariant: the parent's parameter type narrows the child's) -/
  inheritedNarrowed : ∀ t ∈ doc.types, ∀ f ∈ t.fields, ∀ i ∈ t.implements, ∀ d ∈ doc.types, d.name = i →
    ∀ pf ∈ d.fields, pf.name = f.name →
      Narrows doc.types pf.ty f.ty ∧
      (∀ p, (∃ a ∈ pf.args, a.name = p) ↔ (∃ a ∈ f.args, a.name = p)) ∧
      (∀ p cty pty, argTy f.args p = some cty → argTy pf.args p = some pty → ScalarNarrows cty pty)
  /-- every field type is a built-in scalar or a defined vertex type -/
  fieldTypesKnown : ∀ t ∈ doc.types, ∀ f ∈ t.fields,
    isBuiltin f.ty.base = true ∨ IsVertex doc.types f.ty.base
  /-- no reserved names -/
  noReservedNames : ∀ t ∈ doc.types, reserved t.name = false ∧ ∀ f ∈ t.fields, reserved f.name = false
  /-- no edges into the root type -/
  noEdgeIntoRoot : ∀ t ∈ doc.types, ∀ f ∈ t.fields, ∀ q ∈ doc.schemaBlocks, f.ty.base ≠ q
  /-- properties take no parameters -/
  propertiesNoParams : ∀ t ∈ doc.types, ∀ f ∈ t.fields, isBuiltin f.ty.base = true → f.args = []
  /-- default values (of edge parameters) fit -/
  defaultsFit : ∀ t ∈ doc.types, ∀ f ∈ t.fields, isBuiltin f.ty.base = false → ∀ a ∈ f.args,
    ∀ dv, a.default = some dv → ∃ v, dv = .val v ∧ Fits a.ty v
  /-- edge types are a vertex type or a list of one, not a list of lists -/
  edgesNotNested : ∀ t ∈ doc.types, ∀ f ∈ t.fields, isBuiltin f.ty.base = false → f.ty.depth ≤ 1
  /-- the root type only has edges -/
  rootFieldsAreEdges : ∀ t ∈ doc.types, t.name ∈ doc.schemaBlocks → ∀ f ∈ t.fields,
    isBuiltin f.ty.base = false
  /-- no implementation cycles -/
  acyclic : ∀ t, ¬ TransGen (ImplStep doc.types) t t
  /-- no ambiguous field origins -/
  unambiguousOrigins : ∀ t ∈ doc.types, ∀ f ∈ t.fields, ∀ a b,
    OriginOf doc.types t.name f.name a → OriginOf doc.types t.name f.name b → a = b
  /-- no (object, interface or scalar) definition re-uses the name of a built-in scalar -/
  builtinsNotRedefined : (∀ t ∈ doc.types, isBuiltin t.name = false) ∧
    (∀ n ∈ doc.scalarNames, isBuiltin n = false)
  /-- every directive is defined once -/
  directivesDistinct : doc.directiveNames.Nodup
  /-- every custom scalar is defined once -/
  scalarsDistinct : doc.scalarNames.Nodup
  /-- every parameter name is declared once per field -/
  paramsDistinct : ∀ t ∈ doc.types, ∀ f ∈ t.fields, (f.args.map (·.name)).Nodup

/-! ## The known panic triggers -/

def PTy.shallow (t : PTy) : Bool := t.depth ≤ 30

/-- (History: until the repair of F-C19-1 this also required the default value to contain no enum
constant — `is_valid_value` hit `unimplemented!` on it.) -/
def Arg.clean (a : Arg) : Bool := a.ty.shallow

def Field.clean (f : Field) : Bool := f.ty.shallow && f.args.all Arg.clean

def nodupNames : List Name → Bool
  | [] => true
  | n :: ns => !ns.contains n && nodupNames ns

/-- Sufficient (syntactic, decidable) condition excluding every known panic trigger of `Schema::new`:
no `enum`/`union`/`input` definitions (unsupported constructs: `unimplemented!`); no field or parameter
type has more than 30 list levels (F-22).  (History: until the repairs of F-16 … F-21b the guard also
required exactly one `schema` block whose query type is a defined object type, no definition named like
a built-in scalar, distinct directive names and distinct custom scalar names — each of these is a typed
error now and such documents are covered by the theorems; an enum constant in a default value was a
trigger until the repair of F-C19-1.) -/
def NoKnownSchemaTrigger (doc : Doc) : Bool :=
  doc.unsupportedNames.isEmpty &&
  doc.types.all (fun t => t.fields.all Field.clean)

end TF.SchemaDoc
