/-
Model of the hand-written serialisation pieces of `trustfall_core/src/ir/value.rs` (C16):
`TransparentValue` (`#[serde(untagged)]`), `From<FieldValue> for TransparentValue` and back, and the
untagged JSON form at the level of a small JSON AST.

What is modelled and what is not:
* `Json` is the *data model* serde_json hands to serde (`null`, integer, float, string, bool, array),
  not JSON text: number/string printing and parsing by serde_json itself are outside the model (they
  are explored by the harness — which is how F-28 was found: serde_json without `float_roundtrip` does
  not parse back every float it prints; fixed by enabling that feature).  An integer literal travels as `int z` when it fits `i64`
  (negative) or `u64` (non-negative) — serde_json's `N::NegInt` / `N::PosInt`; anything else is a
  float already at the text level, so `int z` outside `[-2^63, 2^64)` is not a value of this AST
  (`untaggedParse` answers `none` there).
* `float k` carries the key of a finite f64 as in `Value.float64`.
* Deserialisation of an untagged enum buffers the input and tries the variants in declaration
  order, taking the first that succeeds: `Null, Int64, Uint64, Float64, String, Boolean, Enum, List`
  (serde `Content` / `ContentRefDeserializer`: a unit variant accepts only `null`; an `i64` accepts
  any integer content that fits, never a float content; `u64` likewise; `f64` accepts float and
  integer content; `Arc<str>` accepts strings; `bool` booleans; a slice accepts arrays whose elements
  all deserialise).  Checked against serde 1.0.228 / serde_json 1.0.151 by the harness:
  `Uint64(5) ↦ 5 ↦ Int64(5)`, `Float64(1.0) ↦ 1.0 ↦ Float64(1.0)`, `Enum("x") ↦ "x" ↦ String("x")`.

Core Lean only (compiled into the native driver).
-/
import TrustfallModel.Model.Ty

namespace TF.Serial
open TF

/-- `TransparentValue`. -/
inductive TV where
  | null
  | int64 (i : Int64)
  | uint64 (u : UInt64)
  | float64 (k : Int)
  | string (s : Bytes)
  | boolean (b : Bool)
  | enum (s : Bytes)
  | list (l : List TV)
  deriving Repr, Inhabited

mutual
/-- `impl From<FieldValue> for TransparentValue`. -/
def toT : Value → TV
  | .null => .null
  | .int64 x => .int64 x
  | .uint64 x => .uint64 x
  | .float64 x => .float64 x
  | .string x => .string x
  | .boolean x => .boolean x
  | .enum x => .enum x
  | .list x => .list (toTList x)
def toTList : List Value → List TV
  | [] => []
  | v :: vs => toT v :: toTList vs
end

mutual
/-- `impl From<TransparentValue> for FieldValue`. -/
def fromT : TV → Value
  | .null => .null
  | .int64 x => .int64 x
  | .uint64 x => .uint64 x
  | .float64 x => .float64 x
  | .string x => .string x
  | .boolean x => .boolean x
  | .enum x => .enum x
  | .list x => .list (fromTList x)
def fromTList : List TV → List Value
  | [] => []
  | v :: vs => fromT v :: fromTList vs
end

/-- The serde data model of a JSON document as far as `TransparentValue` produces it. -/
inductive Json where
  | null
  | int (z : Int)
  | float (k : Int)
  | str (s : Bytes)
  | bool (b : Bool)
  | arr (l : List Json)
  deriving Repr, Inhabited

mutual
/-- `Serialize` of the untagged enum: every variant serialises its payload directly. -/
def untaggedPrint : TV → Json
  | .null => .null
  | .int64 i => .int i.toInt
  | .uint64 u => .int (u.toNat : Int)
  | .float64 k => .float k
  | .string s => .str s
  | .boolean b => .bool b
  | .enum s => .str s
  | .list l => .arr (untaggedPrintList l)
def untaggedPrintList : List TV → List Json
  | [] => []
  | v :: vs => untaggedPrint v :: untaggedPrintList vs
end

/-! The per-variant attempts of the untagged `Deserialize`. -/

/-- `Null`: a unit variant accepts only `null`. -/
def asNull : Json → Option TV
  | .null => some .null
  | _ => none

/-- `Int64(i64)`: integer content that fits `i64`. -/
def asInt64 : Json → Option TV
  | .int z => if -(2 ^ 63 : Int) ≤ z ∧ z < 2 ^ 63 then some (.int64 (Int64.ofInt z)) else none
  | _ => none

/-- `Uint64(u64)`: integer content that fits `u64`. -/
def asUint64 : Json → Option TV
  | .int z => if 0 ≤ z ∧ z < 2 ^ 64 then some (.uint64 (UInt64.ofNat z.toNat)) else none
  | _ => none

/-- `Float64(f64)`: float content.  (Integer content would be accepted too, converted lossily, but an
in-range integer has already been taken by `Int64`/`Uint64`, and an out-of-range integer literal is
float content; so that branch is not a value of this AST: `none`.) -/
def asFloat64 : Json → Option TV
  | .float k => some (.float64 k)
  | _ => none

/-- `String(Arc<str>)`. -/
def asString : Json → Option TV
  | .str s => some (.string s)
  | _ => none

/-- `Boolean(bool)`. -/
def asBoolean : Json → Option TV
  | .bool b => some (.boolean b)
  | _ => none

/-- `Enum(Arc<str>)`: accepts the same inputs as `String`, which is declared before it. -/
def asEnum : Json → Option TV
  | .str s => some (.enum s)
  | _ => none

mutual
/-- `Deserialize` of the untagged enum: first variant, in declaration order, that accepts. -/
def untaggedParse : Json → Option TV
  | .arr l =>
    asNull (.arr l) <|> asInt64 (.arr l) <|> asUint64 (.arr l) <|> asFloat64 (.arr l) <|>
      asString (.arr l) <|> asBoolean (.arr l) <|> asEnum (.arr l) <|>
      (match untaggedParseList l with
       | some vs => some (.list vs)
       | none => none)
  | j =>
    -- `List` accepts only arrays
    asNull j <|> asInt64 j <|> asUint64 j <|> asFloat64 j <|> asString j <|> asBoolean j <|> asEnum j
/-- `Arc<[TransparentValue]>`: every element must deserialise. -/
def untaggedParseList : List Json → Option (List TV)
  | [] => some []
  | j :: js =>
    match untaggedParse j with
    | none => none
    | some v =>
      match untaggedParseList js with
      | none => none
      | some vs => some (v :: vs)
end

/-- `FieldValue → TransparentValue → untagged JSON → TransparentValue → FieldValue`. -/
def transparentRoundtrip (v : Value) : Option Value :=
  (untaggedParse (untaggedPrint (toT v))).map fromT

mutual
/-- What the round trip does to a value: small unsigned integers come back signed, enums come back
as strings, everything else is unchanged. -/
def normalize : Value → Value
  | .uint64 u => if u.toNat < 2 ^ 63 then .int64 (Int64.ofInt (u.toNat : Int)) else .uint64 u
  | .enum s => .string s
  | .list l => .list (normalizeList l)
  | v => v
def normalizeList : List Value → List Value
  | [] => []
  | v :: vs => normalize v :: normalizeList vs
end

/-- Base names for which `Display` is unambiguous: not starting with `[`, not ending with `!`
(every GraphQL name qualifies). -/
def validName (b : Bytes) : Bool := (Ty.stripPrefix b Ty.LBRACKET).isNone && (Ty.stripSuffix b Ty.BANG).isNone

end TF.Serial
