/-
Line protocol between the Rust harness and the Lean driver: prefix-token s-expressions.
Atoms are runs of non-space, non-paren characters. No quoting: strings travel as lowercase hex
of their UTF-8 bytes (atom `-` is the empty string).
-/
import TrustfallModel.Model.Value

namespace TF

inductive Sexp where
  | atom (s : String)
  | list (l : List Sexp)
  deriving Repr, Inhabited

namespace Sexp

/-- Tokeniser: `(`, `)`, atoms. -/
def tokens (s : String) : List String := Id.run do
  let mut out : Array String := #[]
  let mut cur : String := ""
  for c in s.toList do
    if c == '(' || c == ')' then
      if !cur.isEmpty then out := out.push cur; cur := ""
      out := out.push (String.singleton c)
    else if c == ' ' || c == '\n' || c == '\t' || c == '\r' then
      if !cur.isEmpty then out := out.push cur; cur := ""
    else
      cur := cur.push c
  if !cur.isEmpty then out := out.push cur
  return out.toList

/-- Parse a token list with an explicit stack (no recursion on the input structure). -/
def parseTokens (ts : List String) : Option Sexp := Id.run do
  -- stack of partially built lists (reversed children)
  let mut stack : List (List Sexp) := []
  let mut top : List Sexp := []
  for t in ts do
    if t == "(" then
      stack := top :: stack
      top := []
    else if t == ")" then
      match stack with
      | [] => return none
      | parent :: rest =>
        top := Sexp.list top.reverse :: parent
        stack := rest
    else
      top := Sexp.atom t :: top
  match stack, top with
  | [], [x] => return some x
  | _, _ => return none

def parse (s : String) : Option Sexp := parseTokens (tokens s)

def hexDigit (c : Char) : Option Nat :=
  if '0' ≤ c && c ≤ '9' then some (c.toNat - '0'.toNat)
  else if 'a' ≤ c && c ≤ 'f' then some (c.toNat - 'a'.toNat + 10)
  else none

def hexToBytes : List Char → Option Bytes
  | [] => some []
  | a :: b :: rest => do
    let x ← hexDigit a
    let y ← hexDigit b
    let tl ← hexToBytes rest
    pure (UInt8.ofNat (x * 16 + y) :: tl)
  | _ => none

def atomBytes (s : String) : Option Bytes :=
  if s == "-" then some [] else hexToBytes s.toList

def nibble (n : Nat) : Char :=
  if n < 10 then Char.ofNat ('0'.toNat + n) else Char.ofNat ('a'.toNat + n - 10)

def bytesToHex (b : Bytes) : String :=
  if b.isEmpty then "-" else
  String.ofList (b.flatMap fun x => [nibble (x.toNat / 16), nibble (x.toNat % 16)])

mutual
def toValue : Sexp → Option Value
  | atom "n" => some .null
  | list [atom "i", atom x] => (fun (i : Int) => Value.int64 (Int64.ofInt i)) <$> x.toInt?
  | list [atom "u", atom x] => (fun (n : Nat) => Value.uint64 (UInt64.ofNat n)) <$> x.toNat?
  | list [atom "f", atom x] => Value.float64 <$> x.toInt?
  | list [atom "s", atom x] => Value.string <$> atomBytes x
  | list [atom "e", atom x] => Value.enum <$> atomBytes x
  | list [atom "b", atom x] => some (Value.boolean (x == "1"))
  | list (atom "l" :: xs) => Value.list <$> toValues xs
  | _ => none
def toValues : List Sexp → Option (List Value)
  | [] => some []
  | x :: xs => do
    let v ← toValue x
    let vs ← toValues xs
    pure (v :: vs)
end

end Sexp

namespace Value
mutual
/-- Canonical text of a value (same syntax as the protocol input). -/
def render : Value → String
  | null => "n"
  | int64 i => s!"(i {i.toInt})"
  | uint64 u => s!"(u {u.toNat})"
  | float64 k => s!"(f {k})"
  | string s => s!"(s {Sexp.bytesToHex s})"
  | enum s => s!"(e {Sexp.bytesToHex s})"
  | boolean b => if b then "(b 1)" else "(b 0)"
  | list l => "(l" ++ renderList l ++ ")"
def renderList : List Value → String
  | [] => ""
  | x :: xs => " " ++ render x ++ renderList xs
end
end Value

def renderOrdering : Ordering → String
  | .lt => "lt"
  | .eq => "eq"
  | .gt => "gt"

end TF
