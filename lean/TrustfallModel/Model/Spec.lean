/-
The declarative semantics of Trustfall queries (`spec.md`, `docs/…/language_reference`), as a
denotation by structural recursion over the *query tree* (the generator's own AST — it knows nothing
about Vids, Eids, stages, piggy-backs, fold limits or imported-tag plumbing):

* an edge expands to all neighbours;
* `@optional`: when there is no neighbour the subtree is evaluated once in a *missing scope*
  (no vertex): filters, coercions and tag comparisons pass, properties/outputs are null, tags
  defined there are "nonexistent" (a filter whose tag operand is nonexistent passes);
* `@fold`: one element per row of the sub-query; every output inside becomes the list of the
  elements' values (nested folds: lists of lists); the count is the number of elements; inside a
  missing scope the fold does not exist: outputs and count are null, count filters pass;
* `@recurse(depth: d)`: the pre-order list of vertices reachable in `0..d` hops (a vertex whose
  type lacks the edge has no neighbours); the subtree's coercion/filters apply to each of them;
* coercion keeps vertices of the requested subtype;
* edge parameters not written in the query take the schema's default, or null.

Rows come out in nested pre-order (the order in which a depth-first evaluation meets them).
Filter operators are those of `Model/Filter.lean` (C07 proves them equal to their mathematical
definitions).
-/
import TrustfallModel.Model.IR

namespace TF.Spec
open TF TF.Engine

inductive QArg where
  | var (n : Name)
  | tag (n : Name)
  | none
  deriving Repr, Inhabited

inductive Dir where
  | filter (op : FOp) (arg : QArg)
  | tag (n : Name)
  | output (n : Name)
  deriving Repr, Inhabited

inductive FDir where
  | countOutput (n : Name)
  | countTag (n : Name)
  | countFilter (op : FOp) (arg : QArg)
  deriving Repr, Inhabited

inductive Kind where
  | plain
  | optional
  | recurse (depth : Nat)
  | fold (dirs : List FDir)
  deriving Repr, Inhabited

mutual
inductive QNode where
  | mk (coerceTo : Option Name) (fields : List QField)
inductive QField where
  | prop (name : Name) (dirs : List Dir)
  | edge (name : Name) (params : Params) (kind : Kind) (child : QNode)
end

instance : Inhabited QNode := ⟨.mk none []⟩

structure Query where
  rootEdge : Name
  rootParams : Params
  root : QNode
  deriving Inhabited

/-- Schema information the semantics refers to: declared edge parameters with their defaults. -/
structure EdgeDecl where
  owner : Name          -- type name, or "" for the root query type
  edge : Name
  params : List (Name × Option Value)   -- declared parameters, default if any
  deriving Repr, Inhabited

structure SpecEnv where
  data : Data
  args : List (Name × Value)
  edges : List EdgeDecl

/-- A partial row: tag bindings and outputs collected so far. -/
structure Asg where
  tags : List (Name × Tagged)
  outs : List (Name × Value)
  deriving Repr, Inhabited

def Asg.tag? (a : Asg) (n : Name) : Option Tagged := (a.tags.find? (·.1 == n)).map (·.2)

/-- Complete explicit parameters with the schema's defaults (else null), sorted by name as the
dataset tables are keyed. -/
def completeParams (decl : List (Name × Option Value)) (explicit : Params) : Params :=
  let all := decl.map fun (n, dflt) =>
    match explicit.find? (·.1 == n) with
    | some (_, v) => (n, v)
    | none => (n, dflt.getD Value.null)
  all.foldr (fun kv acc => insertSorted kv acc) []

def declParams (env : SpecEnv) (owners : List Name) (edge : Name) : List (Name × Option Value) :=
  match env.edges.find? (fun d => owners.contains d.owner && d.edge == edge) with
  | some d => d.params
  | none => []

/-- Does one filter hold at vertex `v` (`none`: missing scope) under assignment `a`? -/
def filterHolds (env : SpecEnv) (a : Asg) (v : Option VertexId) (left : Value) (op : FOp)
    (arg : QArg) : R Bool :=
  match v with
  | none => .ok true                       -- inside a missing optional scope every filter passes
  | some _ =>
    match op, arg with
    | .un o, _ => .ok (Filter.applyUnary o left)
    | .bin o, .var n =>
      match env.args.find? (·.1 == n) with
      | some (_, right) => R.ofOutcome "spec: operator undefined on these operands"
          (Filter.applyStatic env.data.regex o left right)
      | none => .panic "spec: unbound variable"
    | .bin o, .tag n =>
      match a.tag? n with
      | some .nonexistent => .ok true      -- the tag comes from a missing optional scope
      | some (.some right) => R.ofOutcome "spec: operator undefined on these operands"
          (Filter.applyTagged env.data.regex o left right)
      | none => .panic "spec: unbound tag"
    | .bin _, .none => .panic "spec: binary filter without argument"

def filtersHold (env : SpecEnv) (a : Asg) (v : Option VertexId) (left : Value) :
    List (FOp × QArg) → R Bool
  | [] => .ok true
  | (op, arg) :: rest =>
    match filterHolds env a v left op arg with
    | .ok true => filtersHold env a v left rest
    | .ok false => .ok false
    | .panic s => .panic s
    | .fuel => .fuel

/-- Pre-order list of the vertices reachable from `v` in `0..d` hops along `edge`. -/
def reach (d : Data) (edge : Name) (ps : Params) : Nat → VertexId → List VertexId
  | 0, v => [v]
  | k + 1, v => v :: (d.nbrs v edge ps).flatMap (reach d edge ps k)

mutual
/-- every `@output` name occurring in a subtree (in order), incl. fold-count outputs -/
def outNames : QNode → List Name
  | .mk _ fields => outNamesFields fields
def outNamesFields : List QField → List Name
  | [] => []
  | .prop _ dirs :: rest =>
    (dirs.filterMap fun d => match d with | .output n => some n | _ => none) ++ outNamesFields rest
  | .edge _ _ kind child :: rest =>
    (match kind with
      | .fold fds => fds.filterMap fun d => match d with | .countOutput n => some n | _ => none
      | _ => []) ++ outNames child ++ outNamesFields rest
end

/-- Bind the tags and outputs of the properties of one vertex. -/
def bindProps (env : SpecEnv) (v : Option VertexId) : List QField → Asg → Asg
  | [], a => a
  | .prop name dirs :: rest, a =>
    let value := env.data.propOpt v name
    let a' := dirs.foldl (fun (acc : Asg) d =>
      match d with
      | .tag n => { acc with tags := acc.tags ++ [(n, match v with
          | some _ => Tagged.some value
          | none => Tagged.nonexistent)] }
      | .output n => { acc with outs := acc.outs ++ [(n, value)] }
      | .filter _ _ => acc) a
    bindProps env v rest a'
  | .edge .. :: rest, a => bindProps env v rest a

/-- Do all property filters of one vertex hold? -/
def propFiltersHold (env : SpecEnv) (a : Asg) (v : Option VertexId) : List QField → R Bool
  | [] => .ok true
  | .prop name dirs :: rest =>
    let fs := dirs.filterMap fun d => match d with | .filter op arg => some (op, arg) | _ => none
    match filtersHold env a v (env.data.propOpt v name) fs with
    | .ok true => propFiltersHold env a v rest
    | .ok false => .ok false
    | .panic s => .panic s
    | .fuel => .fuel
  | .edge .. :: rest => propFiltersHold env a v rest

def sizeBound : Nat := 64

mutual
/-- Denotation of a node at vertex `v` (`none` = missing scope), extending assignment `a`. -/
def evalNode (env : SpecEnv) : Nat → QNode → Option VertexId → Asg → R (List Asg)
  | 0, _, _, _ => .fuel
  | fuel + 1, .mk coerceTo fields, v, a =>
    let coercionOk := match coerceTo, v with
      | some t, some x => env.data.isA x t
      | _, _ => true
    if !coercionOk then .ok []
    else
      let a1 := bindProps env v fields a
      match propFiltersHold env a1 v fields with
      | .ok true => evalFields env fuel (match v with
          | some x => env.data.supers (env.data.typeOf x)
          | none => []) fields v [a1]
      | .ok false => .ok []
      | .panic s => .panic s
      | .fuel => .fuel
/-- The edges of a node, in selection order, threading the assignments. -/
def evalFields (env : SpecEnv) : Nat → List Name → List QField → Option VertexId → List Asg →
    R (List Asg)
  | _, _, [], _, as => .ok as
  | fuel, owners, .prop .. :: rest, v, as => evalFields env fuel owners rest v as
  | fuel, owners, .edge name params kind child :: rest, v, as =>
    match flatMapR (fun a => evalEdge env fuel owners name params kind child v a) as with
    | .ok as' => evalFields env fuel owners rest v as'
    | .panic s => .panic s
    | .fuel => .fuel
def evalEdge (env : SpecEnv) : Nat → List Name → Name → Params → Kind → QNode → Option VertexId →
    Asg → R (List Asg)
  | fuel, owners, name, params, kind, child, v, a =>
    let ps := completeParams (declParams env owners name) params
    let nbrs := env.data.nbrsOpt v name ps
    match kind with
    | .plain =>
      match v with
      | none => evalNode env fuel child none a
      | some _ => flatMapR (fun n => evalNode env fuel child (some n) a) nbrs
    | .optional =>
      if nbrs.isEmpty then evalNode env fuel child none a
      else flatMapR (fun n => evalNode env fuel child (some n) a) nbrs
    | .recurse d =>
      match v with
      | none => evalNode env fuel child none a
      | some x =>
        -- at depth ≥ 1 the edge is looked up on the reached vertex's own type
        flatMapR (fun n => evalNode env fuel child (some n) a) (reachDecl env name params d x)
    | .fold fds =>
      match v with
      | none =>
        -- the fold does not exist: every output inside is null, the count is null/nonexistent
        let names := outNames child
        let a1 : Asg := { a with outs := a.outs ++ names.map fun n => (n, Value.null) }
        let a2 := fds.foldl (fun (acc : Asg) d =>
          match d with
          | .countOutput n => { acc with outs := acc.outs ++ [(n, Value.null)] }
          | .countTag n => { acc with tags := acc.tags ++ [(n, Tagged.nonexistent)] }
          | .countFilter _ _ => acc) a1
        .ok [a2]
      | some _ =>
        -- elements: rows of the sub-query, started from an assignment that sees the outer tags
        match flatMapR (fun n => evalNode env fuel child (some n) { tags := a.tags, outs := [] }) nbrs with
        | .ok elems =>
          let count := Value.uint64 (UInt64.ofNat elems.length)
          let fs := fds.filterMap fun d => match d with | .countFilter op arg => some (op, arg) | _ => none
          let aTags := fds.foldl (fun (acc : Asg) d =>
            match d with
            | .countTag n => { acc with tags := acc.tags ++ [(n, Tagged.some count)] }
            | _ => acc) a
          match filtersHold env aTags v count fs with
          | .ok true =>
            let names := outNames child
            let lists := names.map fun n =>
              (n, Value.list (elems.map fun (e : Asg) =>
                match e.outs.find? (·.1 == n) with
                | some (_, x) => x
                | none => Value.null))
            let countOuts := fds.filterMap fun d =>
              match d with | .countOutput n => some (n, count) | _ => none
            .ok [{ aTags with outs := aTags.outs ++ countOuts ++ lists }]
          | .ok false => .ok []
          | .panic s => .panic s
          | .fuel => .fuel
        | .panic s => .panic s
        | .fuel => .fuel
/-- `reach` with the parameters completed per visited vertex's own type declaration. -/
def reachDecl (env : SpecEnv) (edge : Name) (explicit : Params) : Nat → VertexId → List VertexId
  | d, x =>
    let ps := completeParams (declParams env (env.data.supers (env.data.typeOf x)) edge) explicit
    reach env.data edge ps d x
end

/-- The rows of a query: evaluate from every starting vertex, render assignments as sorted rows. -/
def rows (env : SpecEnv) (q : Query) : R (List Row) :=
  let ps := completeParams (declParams env [""] q.rootEdge) q.rootParams
  match flatMapR (fun v => evalNode env sizeBound q.root (some v) { tags := [], outs := [] })
      (env.data.start q.rootEdge ps) with
  | .ok as => .ok (as.map fun a => a.outs.foldr insertSorted [])
  | .panic s => .panic s
  | .fuel => .fuel

/-! ### parsers -/

open Sexp

def parseQArg : Sexp → Option QArg
  | .atom "-" => some .none
  | .list [.atom "var", .atom n] => some (.var n)
  | .list [.atom "tag", .atom n] => some (.tag n)
  | _ => none

def parseDir : Sexp → Option Dir
  | .list [.atom "filter", .atom op, a] => do pure (.filter (← parseOp op) (← parseQArg a))
  | .list [.atom "tag", .atom n] => some (.tag n)
  | .list [.atom "output", .atom n] => some (.output n)
  | _ => none

def parseFDir : Sexp → Option FDir
  | .list [.atom "count-output", .atom n] => some (.countOutput n)
  | .list [.atom "count-tag", .atom n] => some (.countTag n)
  | .list [.atom "count-filter", .atom op, a] => do pure (.countFilter (← parseOp op) (← parseQArg a))
  | _ => none

def parseKind : Sexp → Option Kind
  | .atom "plain" => some .plain
  | .atom "optional" => some .optional
  | .list [.atom "recurse", d] => do pure (.recurse (← atomNat? d))
  | .list (.atom "fold" :: fds) => do pure (.fold (← listMapM parseFDir fds))
  | _ => none

mutual
def parseNode : Sexp → Option QNode
  | .list (.atom "node" :: ct :: fields) => do pure (.mk (← optName? ct) (← parseFields fields))
  | _ => none
def parseFields : List Sexp → Option (List QField)
  | [] => some []
  | f :: fs => do
    let x ← parseField f
    let xs ← parseFields fs
    pure (x :: xs)
def parseField : Sexp → Option QField
  | .list (.atom "prop" :: .atom n :: dirs) => do pure (.prop n (← listMapM parseDir dirs))
  | .list [.atom "edge", .atom n, ps, k, child] => do
    pure (.edge n (← parseParams ps) (← parseKind k) (← parseNode child))
  | _ => none
end

def parseQuery : Sexp → Option Query
  | .list [.atom "q", .atom e, ps, node] => do pure ⟨e, ← parseParams ps, ← parseNode node⟩
  | _ => none

def parseDeclParam : Sexp → Option (Name × Option Value)
  | .list [.atom n, _, .atom "-"] => some (n, none)
  | .list [.atom n, _, v] => do pure (n, some (← toValue v))
  | _ => none

def parseEdgeDecl (owner : Name) : Sexp → Option EdgeDecl
  | .list [.atom e, _, _, .list (.atom "params" :: ps)] => do
    pure ⟨owner, e, ← listMapM parseDeclParam ps⟩
  | _ => none

def parseTypeEdges : Sexp → Option (List EdgeDecl)
  | .list (.atom t :: es) => listMapM (parseEdgeDecl t) es
  | _ => none

/-- The edge declarations (`edges` and `roots` sections) of a `(schema …)`. -/
def schemaEdges : Sexp → Option (List EdgeDecl)
  | .list (.atom "schema" :: secs) => do
    let mut out : List EdgeDecl := []
    for s in secs do
      match s with
      | .list (.atom "edges" :: ts) =>
        let ds ← listMapM parseTypeEdges ts
        out := out ++ ds.flatten
      | .list (.atom "roots" :: rs) =>
        let ds ← listMapM (parseEdgeDecl "") rs
        out := out ++ ds
      | _ => pure ()
    pure out
  | _ => none

end TF.Spec
