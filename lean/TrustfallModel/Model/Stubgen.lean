/-
Model of the naming logic of `trustfall_stubgen` (`src/util.rs`, `src/root.rs`, and the item names
built in `edges_creator.rs`, `properties_creator.rs`, `entrypoints_creator.rs`, `adapter_creator.rs`),
as of the four repairs R1–R4 (/verif/hooks/fix-R1..R4.diff): parameter names are escaped and the
keyword table is complete (R1), the conversion method is named by `variant_conversion_fn_name` (R2),
entry points are conflict-checked (R3), the vertex check covers variant and conversion names (R4).

Names are `List Char`.  GraphQL names are ASCII (`[_A-Za-z][_0-9A-Za-z]*`), and on ASCII
`char::is_uppercase`, `char::to_lowercase`, `char::to_ascii_uppercase` are the ASCII operations defined
below; the model says nothing about non-ASCII names (they cannot occur in a schema).

Mirrored, branch by branch:
* `to_lower_snake_case`, `upper_case_variant_name` (panics on the empty string), `escaped_rust_name`
  (keyword table copied verbatim, in source order), `variant_conversion_fn_name`;
* the derive macro's `to_lower_snake_case` (trustfall_derive/src/lib.rs), which names the
  `as_<variant>()` methods that the generated edge resolvers call;
* every generated item name per type / property / edge / parameter / entry point;
* `ensure_no_vertex_name_conflicts` (three keys per vertex type in one `HashMap` keyed by
  `(kind, name)`: module, variant, conversion), `ensure_no_field_name_conflicts_on_vertex_type`,
  `ensure_no_entrypoint_name_conflicts` (rows sorted by name, panic on the first repeated key);
* the order in which `generate_rust_stub` can fail: vertex conflict, field conflict, entry point
  conflict, then `trustfall_type_to_rust_type`'s `unimplemented!` on a parameter whose base type is not
  Int/String/Float/Boolean, then — when the files are written —
  `syn::parse_str(..).expect("not valid Rust")` on any item whose name `syn` refuses as an identifier
  (`Props/C26` proves this last one unreachable for valid names).

NOT modelled: the `quote!` templates themselves and rustc.  `compileCauses` lists the *name-level*
reasons for which the generated code still cannot compile (a parameter colliding with a binding of the
template or with another parameter after escaping, an item shadowing an import); that the stub
compiles when there is none is sampled by the harness' compile oracle.

Imports nothing outside core.
-/

namespace TF.Stubgen

abbrev Name := List Char

/-! ### Characters (ASCII) -/

def isUpper (c : Char) : Bool := 65 ≤ c.toNat && c.toNat ≤ 90
def isLower (c : Char) : Bool := 97 ≤ c.toNat && c.toNat ≤ 122
def isDigit (c : Char) : Bool := 48 ≤ c.toNat && c.toNat ≤ 57
/-- `char::to_lowercase` on ASCII (a single char). -/
def toLower (c : Char) : Char := if isUpper c then Char.ofNat (c.toNat + 32) else c
/-- `char::to_ascii_uppercase`. -/
def toAsciiUpper (c : Char) : Char := if isLower c then Char.ofNat (c.toNat - 32) else c

def isIdentStart (c : Char) : Bool := c == '_' || isUpper c || isLower c
def isIdentContinue (c : Char) : Bool := isIdentStart c || isDigit c

/-- GraphQL `Name`: `[_A-Za-z][_0-9A-Za-z]*`.  This is also the shape of an ASCII Rust identifier. -/
def identShape : Name → Bool
  | [] => false
  | c :: cs => isIdentStart c && cs.all isIdentContinue

def validGraphQLName (n : Name) : Bool := identShape n

/-! ### `util.rs` -/

/-- The loop of `to_lower_snake_case`; `last` is the previously read character. -/
def snakeGo : Char → Name → Name
  | _, [] => []
  | last, c :: cs =>
    if isUpper c then
      (if last != '_' && !isUpper last then ['_'] else []) ++ toLower c :: snakeGo c cs
    else c :: snakeGo c cs

/-- `to_lower_snake_case` (`let mut last = '_'`). -/
def toLowerSnakeCase (n : Name) : Name := snakeGo '_' n

/-- `upper_case_variant_name`; `none` = `expect("unexpectedly got an empty string")`. -/
def upperCaseVariantName : Name → Option Name
  | [] => none
  | c :: cs => some (toAsciiUpper c :: cs)

/-- The keyword table of `escaped_rust_name` (util.rs), verbatim and in source order. -/
def escapeTable : List Name := [
  "as".toList,
  "break".toList,
  "const".toList,
  "continue".toList,
  "crate".toList,
  "else".toList,
  "enum".toList,
  "extern".toList,
  "false".toList,
  "fn".toList,
  "for".toList,
  "if".toList,
  "impl".toList,
  "in".toList,
  "let".toList,
  "loop".toList,
  "match".toList,
  "mod".toList,
  "move".toList,
  "mut".toList,
  "pub".toList,
  "ref".toList,
  "return".toList,
  "self".toList,
  "Self".toList,
  "static".toList,
  "struct".toList,
  "super".toList,
  "trait".toList,
  "true".toList,
  "type".toList,
  ['u', 'n', 's', 'a', 'f', 'e'],
  "use".toList,
  "where".toList,
  "while".toList,
  "async".toList,
  "await".toList,
  "dyn".toList,
  "try".toList,
  "macro_rules".toList,
  "union".toList,
  "'static".toList,
  -- reserved for future use, and `gen` (a keyword from the 2024 edition on)
  "abstract".toList,
  "become".toList,
  "box".toList,
  "do".toList,
  "final".toList,
  "macro".toList,
  "override".toList,
  "priv".toList,
  "typeof".toList,
  "unsized".toList,
  "virtual".toList,
  "yield".toList,
  "gen".toList,
  -- not an identifier at all
  ['_']]

/-- Identifiers `syn` refuses to parse as an identifier (`syn::ident::accept_as_ident`, syn 2.0.x): `_` and
the strict and reserved keywords of the Rust reference (1.65). -/
def synReject : List Name := [
  ['_'],
  "abstract".toList,
  "as".toList,
  "async".toList,
  "await".toList,
  "become".toList,
  "box".toList,
  "break".toList,
  "const".toList,
  "continue".toList,
  "crate".toList,
  "do".toList,
  "dyn".toList,
  "else".toList,
  "enum".toList,
  "extern".toList,
  "false".toList,
  "final".toList,
  "fn".toList,
  "for".toList,
  "if".toList,
  "impl".toList,
  "in".toList,
  "let".toList,
  "loop".toList,
  "macro".toList,
  "match".toList,
  "mod".toList,
  "move".toList,
  "mut".toList,
  "override".toList,
  "priv".toList,
  "pub".toList,
  "ref".toList,
  "return".toList,
  "Self".toList,
  "self".toList,
  "static".toList,
  "struct".toList,
  "super".toList,
  "trait".toList,
  "true".toList,
  "try".toList,
  "type".toList,
  "typeof".toList,
  ['u', 'n', 's', 'a', 'f', 'e'],
  "unsized".toList,
  "use".toList,
  "virtual".toList,
  "where".toList,
  "while".toList,
  "yield".toList]

/-- `escaped_rust_name`. -/
def escapedRustName (n : Name) : Name := if escapeTable.contains n then n ++ ['_'] else n

/-- trustfall_derive's `to_lower_snake_case` (an underscore before *every* capital not preceded by `_`). -/
def deriveSnakeGo : Char → Name → Name
  | _, [] => []
  | last, c :: cs =>
    if isUpper c then
      (if last != '_' then ['_'] else []) ++ toLower c :: deriveSnakeGo c cs
    else c :: deriveSnakeGo c cs

def deriveSnake (n : Name) : Name := deriveSnakeGo '_' n

def pfxAs : Name := "as_".toList

/-- the loop of stubgen's `variant_conversion_fn_name` (util.rs) -/
def conversionGo : Char → Name → Name
  | _, [] => []
  | last, c :: cs =>
    if isUpper c then
      (if last != '_' then ['_'] else []) ++ toLower c :: conversionGo c cs
    else c :: conversionGo c cs

/-- `variant_conversion_fn_name`: `"as_"` followed by the variant name with an underscore before every
capital that does not follow an underscore. -/
def variantConversionFnName (v : Name) : Name := pfxAs ++ conversionGo '_' v

/-- What `syn` accepts where the templates need an identifier. -/
def usableIdent (n : Name) : Bool := identShape n && !synReject.contains n

/-! ### Schema as the generator's queries see it -/

structure Param where
  name : Name
  /-- the type as text, e.g. `[Int!]!` -/
  ty : Name

structure EdgeDef where
  name : Name
  params : List Param

structure VType where
  name : Name
  /-- declared properties, in declaration order -/
  props : List Name
  /-- edges, in declaration order -/
  edges : List EdgeDef

structure Schema where
  /-- fields of the root query type -/
  entrypoints : List EdgeDef
  /-- vertex types other than the root query type -/
  types : List VType

/-! ### Generated item names -/

def pfxResolve : Name := "resolve_".toList
def sfxProperty : Name := "_property".toList
def sfxEdge : Name := "_edge".toList

/-- the `Vertex` enum variant for a type (`escaped_rust_name(upper_case_variant_name(name))`). -/
def variantName (t : Name) : Name :=
  match upperCaseVariantName t with
  | some v => escapedRustName v
  | none => []
/-- `property_resolver_fn_name`: `resolve_<snake>_property` (properties.rs and adapter_impl.rs). -/
def propertyFnName (t : Name) : Name := pfxResolve ++ toLowerSnakeCase t ++ sfxProperty
/-- `type_edge_resolver_fn_name` as adapter_impl.rs calls it: `resolve_<snake>_edge`. -/
def typeEdgeFnName (t : Name) : Name := pfxResolve ++ toLowerSnakeCase t ++ sfxEdge
/-- … and as edges.rs defines it: `type_edge_resolver_fn_name(&to_lower_snake_case(type_name))`. -/
def typeEdgeFnNameDef (t : Name) : Name := pfxResolve ++ toLowerSnakeCase (toLowerSnakeCase t) ++ sfxEdge
/-- the per-type module in edges.rs. -/
def edgeModName (t : Name) : Name := escapedRustName (toLowerSnakeCase t)
/-- an edge resolver inside the type's module; also an entry point function in entrypoints.rs. -/
def itemFnName (e : Name) : Name := escapedRustName (toLowerSnakeCase e)
/-- the conversion method the edge resolvers call: `variant_conversion_fn_name(&variant_name)`. -/
def conversionCallName (t : Name) : Name := variantConversionFnName (variantName t)
/-- the conversion method the derive macro defines: `as_<derive snake of the variant>`. -/
def conversionDefName (t : Name) : Name := pfxAs ++ deriveSnake (variantName t)
/-- the identifier a parameter is bound to: `escaped_rust_name(parameter_name)`. -/
def paramIdent (p : Name) : Name := escapedRustName p

/-! ### The three conflict checks of `root.rs` -/

/-- the lower-snake-case key of all three checks. -/
def conflictKey (n : Name) : Name := escapedRustName (toLowerSnakeCase n)

/-- A `HashMap` key: the kind tag (`0` = module / function, `1` = variant, `2` = conversion method; the
Rust code uses the strings `"module"`, `"variant"`, `"conversion"`) and the generated name. -/
abbrev Key := Nat × Name

/-- `for (key, owner) in … { if let Some(v) = uniq.insert(key, owner) { panic!(v, owner) } }`:
the first owner whose key was already present, with the owner stored under that key. -/
def findDup : List (Key × Name) → List (Key × Name) → Option (Name × Name)
  | _, [] => none
  | seen, (k, n) :: rest =>
    match seen.lookup k with
    | some v => some (v, n)
    | none => findDup ((k, n) :: seen) rest

/-- the three names generated for a vertex type, in the order the check inserts them -/
def vertexKeys (n : Name) : List Key :=
  [(0, conflictKey n), (1, variantName n), (2, conversionCallName n)]

/-- the single name generated for a field / an entry point -/
def fieldKeys (n : Name) : List Key := [(0, conflictKey n)]

def keyed (keys : Name → List Key) (names : List Name) : List (Key × Name) :=
  names.flatMap fun n => (keys n).map fun k => (k, n)

/-- `String`'s `Ord` on ASCII names: lexicographic by character. -/
def nameLe : Name → Name → Bool
  | [], _ => true
  | _ :: _, [] => false
  | a :: as, b :: bs => a.toNat < b.toNat || (a == b && nameLe as bs)

def insertSorted {α : Type} (key : α → Name) (x : α) : List α → List α
  | [] => [x]
  | y :: ys => if nameLe (key x) (key y) then x :: y :: ys else y :: insertSorted key x ys

/-- `rows.sort_unstable()` (row names are distinct in a valid schema, so stability is irrelevant). -/
def sortBy {α : Type} (key : α → Name) : List α → List α
  | [] => []
  | x :: xs => insertSorted key x (sortBy key xs)

/-- `ensure_no_vertex_name_conflicts`: `some (a, b)` = panics naming `a` and `b`. -/
def vertexConflict (S : Schema) : Option (Name × Name) :=
  findDup [] (keyed vertexKeys (sortBy id (S.types.map (·.name))))

/-- field names in the order the check visits them: edges, then properties. -/
def fieldNames (t : VType) : List Name := t.edges.map (·.name) ++ t.props

/-- `ensure_no_field_name_conflicts_on_vertex_type`: `some (T, a, b)`. -/
def fieldConflict (S : Schema) : Option (Name × Name × Name) :=
  (sortBy (·.name) S.types).findSome? fun t =>
    match findDup [] (keyed fieldKeys (fieldNames t)) with
    | some (a, b) => some (t.name, a, b)
    | none => none

/-- `ensure_no_entrypoint_name_conflicts`: `some (a, b)`. -/
def entrypointConflict (S : Schema) : Option (Name × Name) :=
  findDup [] (keyed fieldKeys (sortBy id (S.entrypoints.map (·.name))))

def checksPass (S : Schema) : Bool :=
  (vertexConflict S).isNone && (fieldConflict S).isNone && (entrypointConflict S).isNone

/-! ### The generator's outcome -/

/-- the base type of a type text: everything but the list brackets and the `!` marks. -/
def baseType (ty : Name) : Name := ty.filter fun c => c != '[' && c != ']' && c != '!'

/-- `trustfall_type_to_rust_type` does not hit its `unimplemented!`. -/
def supportedParamType (ty : Name) : Bool :=
  ["Int".toList, "String".toList, "Float".toList, "Boolean".toList].contains (baseType ty)

def allParams (S : Schema) : List Param :=
  S.entrypoints.flatMap (·.params) ++ S.types.flatMap fun t => t.edges.flatMap (·.params)

/-- every identifier the templates splice in and `syn` later has to parse: one variant per type; per
entry point its function and its parameters; per type with properties its property resolver; per type
*with edges* its edge resolver, its module, the conversion method, and per edge its function and its
parameters. -/
def splicedIdents (S : Schema) : List Name :=
  S.types.map (variantName ·.name)
  ++ S.entrypoints.flatMap (fun e => itemFnName e.name :: e.params.map (paramIdent ·.name))
  ++ S.types.flatMap (fun t =>
      (if t.props.isEmpty then [] else [propertyFnName t.name])
      ++ (if t.edges.isEmpty then [] else
            typeEdgeFnNameDef t.name :: edgeModName t.name :: conversionCallName t.name ::
              t.edges.flatMap fun e => itemFnName e.name :: e.params.map (paramIdent ·.name)))

inductive Outcome where
  | ok
  | conflictVertex (a b : Name)
  | conflictField (t a b : Name)
  | conflictEntrypoint (a b : Name)
  /-- `unimplemented!("type {processed_type} is not yet supported when autogenerating stubs")` -/
  | panicUnsupportedType
  /-- a panic inside `RustFile::pretty_print_item` while the files are written
  (`syn::parse_str(&item.to_string()).expect("not valid Rust")` / `prettyplease::unparse`) -/
  | panicPrettyPrint
  deriving DecidableEq, Repr

/-- `generate_rust_stub` on a valid schema. -/
def stubCheck (S : Schema) : Outcome :=
  match vertexConflict S with
  | some (a, b) => .conflictVertex a b
  | none =>
    match fieldConflict S with
    | some (t, a, b) => .conflictField t a b
    | none =>
      match entrypointConflict S with
      | some (a, b) => .conflictEntrypoint a b
      | none =>
        if !(allParams S).all (fun p => supportedParamType p.ty) then .panicUnsupportedType
        else if !(splicedIdents S).all usableIdent then .panicPrettyPrint
        else .ok

/-! ### Name-level reasons for which a generated stub cannot compile -/

def nodupB : List Name → Bool
  | [] => true
  | x :: xs => !xs.contains x && nodupB xs

/-- `parameters` is bound while another parameter still has to be read from the `EdgeParameters` of
the same name. -/
def parametersNotLast : List Name → Bool
  | [] => false
  | p :: rest => (p == "parameters".toList && !rest.isEmpty) || parametersNotLast rest

/-- The parameter identifiers of one edge / entry point collide with a binding the templates introduce
themselves, or with each other: `contexts` (edges only) and `_resolve_info` (second binding of the same
name in the parameter list), `resolve_info` (shadows the argument the call passes on), `parameters` when
another parameter follows (its `let` shadows the `EdgeParameters` being read), and two parameters with
one identifier after escaping (`type` and `type_`). -/
def paramBindingClash (forEdge : Bool) (params : List Param) : Bool :=
  let ids := params.map (paramIdent ·.name)
  (forEdge && ids.contains "contexts".toList) || ids.contains "_resolve_info".toList
    || ids.contains "resolve_info".toList || parametersNotLast ids || !nodupB ids

inductive Cause where
  /-- a parameter collides with a binding of the template or with another parameter
  (E0415 / E0308 / E0599) -/
  | paramBinding
  /-- a generated item shadows something the generated file imports: module `trustfall` (E0432),
  function `resolve_neighbors_with` (E0255) -/
  | importCollision
  deriving DecidableEq, Repr

def typesWithEdges (S : Schema) : List VType := S.types.filter fun t => !t.edges.isEmpty

def compileCauses (S : Schema) : List Cause :=
  (if S.entrypoints.any (fun e => paramBindingClash false e.params)
        || S.types.any (fun t => t.edges.any fun e => paramBindingClash true e.params)
      then [.paramBinding] else [])
  ++ (if (typesWithEdges S).any (fun t => edgeModName t.name == "trustfall".toList)
        || S.types.any (fun t => t.edges.any fun e => itemFnName e.name == "resolve_neighbors_with".toList)
      then [.importCollision] else [])

/-- The model's prediction for the compile oracle: the generator succeeds and no name-level cause
of a compile error is present. -/
def predictCompiles (S : Schema) : Bool :=
  (match stubCheck S with | .ok => true | _ => false) && (compileCauses S).isEmpty

/-! ### Emitted parameter bindings (`prepare_call_parameters`, `trustfall_type_to_rust_type`,
`field_value_to_rust_type`)

The text of the `let <ident>: <type> = parameters.get("<name>").expect("<msg>").<conversion>;` statement
emitted per parameter, as a token sequence without layout (the driver and the harness both drop all
whitespace, the braces prettyplease puts around multi-line closure bodies and its trailing commas).
Correspondence only: nothing is proved about these texts. -/

inductive Ty where
  | named (base : Name) (nonNull : Bool)
  | list (inner : Ty) (nonNull : Bool)

def stripBang (s : Name) : Name × Bool :=
  match s.getLast? with
  | some '!' => (s.dropLast, true)
  | _ => (s, false)

/-- the recursion of both type functions: strip a trailing `!`, then `[`…`]`; `none` = their
`panic!("invalid Trustfall type started with `[` without matching `]`")`. -/
def parseTy : Nat → Name → Option Ty
  | 0, _ => none
  | fuel + 1, s =>
    let (t, nn) := stripBang s
    match t with
    | '[' :: rest =>
      match rest.getLast? with
      | some ']' => (parseTy fuel rest.dropLast).map fun i => Ty.list i nn
      | _ => none
    | _ => some (.named t nn)

def renderTy : Ty → Name
  | .named b nn => b ++ (if nn then ['!'] else [])
  | .list i nn => '[' :: renderTy i ++ [']'] ++ (if nn then ['!'] else [])

/-- (Rust type, accessor) of a built-in scalar the generator supports -/
def scalarInfo (b : Name) : Option (Name × Name) :=
  if b == "Int".toList then some ("i64".toList, "as_i64".toList)
  else if b == "String".toList then some ("&str".toList, "as_str".toList)
  else if b == "Float".toList then some ("f64".toList, "as_f64".toList)
  else if b == "Boolean".toList then some ("bool".toList, "as_bool".toList)
  else none

def optionOf (nn : Bool) (t : Name) : Name := if nn then t else "Option<".toList ++ t ++ ['>']

/-- `trustfall_type_to_rust_type`; `none` = `unimplemented!`. -/
def rustType : Ty → Option Name
  | .named b nn => (scalarInfo b).map fun i => optionOf nn i.1
  | .list i nn => (rustType i).map fun t => optionOf nn ("Vec<".toList ++ t ++ ['>'])

/-- the part of `field_value_to_rust_type` after `#base.`; `none` = `unimplemented!`. -/
def conversionSuffix : Ty → Option Name
  | .named b nn =>
    (scalarInfo b).map fun i =>
      i.2 ++ "()".toList ++
        (if nn then
          ".expect(\"unexpected null or other incorrect datatype for Trustfall type '".toList
            ++ renderTy (.named b nn) ++ "'\")".toList
         else [])
  | .list i nn =>
    (conversionSuffix i).map fun inner =>
      let innerTokens := "|value| value.".toList ++ inner
      if nn then
        "as_slice().expect(\"expected a list-typed value but did not get a list\").iter().map(".toList
          ++ innerTokens ++ ").collect()".toList
      else
        "as_slice().map(|slice| slice.iter().map(".toList ++ innerTokens ++ ").collect())".toList

/-- one emitted binding; `expectMsg` is the message built by the caller's `expect_msg_fn`. -/
def paramStatement (expectMsg : Name) (p : Param) : Option Name := do
  let ty ← parseTy (p.ty.length + 1) p.ty
  let rt ← rustType ty
  let conv ← conversionSuffix ty
  pure ("let ".toList ++ paramIdent p.name ++ ": ".toList ++ rt ++ " = parameters.get(\"".toList ++ p.name
    ++ "\").expect(\"".toList ++ expectMsg ++ "\").".toList ++ conv)

def edgeExpectMsg (typeName edgeName paramName : Name) : Name :=
  "failed to find parameter '".toList ++ paramName ++ "' for edge '".toList ++ edgeName
    ++ "' on type '".toList ++ typeName ++ "'".toList

def entryExpectMsg (entry paramName : Name) : Name :=
  "failed to find parameter '".toList ++ paramName ++ "' when resolving '".toList ++ entry
    ++ "' starting vertices".toList

/-- every binding the generator emits for a schema (edges of vertex types, then entry points), in no
particular order; `none` entries = the generator would have panicked there. -/
def emittedParamStatements (S : Schema) : List (Option Name) :=
  (S.types.flatMap fun t => t.edges.flatMap fun e =>
      e.params.map fun p => paramStatement (edgeExpectMsg t.name e.name p.name) p)
  ++ S.entrypoints.flatMap fun e => e.params.map fun p => paramStatement (entryExpectMsg e.name p.name) p

end TF.Stubgen
