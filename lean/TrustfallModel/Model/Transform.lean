/-
C23 — syntactic query transformations on the *query tree* of `Model/Spec.lean`, each with the
predicate saying where it is applicable.

A position in a query is a `Path`: the list of field indices to follow from the root node, every
index selecting an *edge* field of the node reached so far (index `i` = the `i`-th field of the
node's selection, properties and edges counted together, from 0).  A field of the node at the end
of the path is then addressed by one more index `j`, and a directive of a property field by its
position `k` among the field's directives.

All transformations are total functions: where the addressed thing is not of the expected shape
(no such field, a property where an edge is expected, …) they leave the query unchanged; the
`…At` / `descend` functions below say what is found at an address, and the theorems of
`Props/C23.lean` carry the applicability condition as an explicit hypothesis wherever it matters.

Core Lean only.
-/
import TrustfallModel.Model.Spec

namespace TF.Transform
open TF TF.Engine TF.Spec

abbrev Path := List Nat

/-! ### addressing -/

def Kind.isFold : Kind → Bool
  | .fold _ => true
  | _ => false

def Kind.isOptional : Kind → Bool
  | .optional => true
  | _ => false

/-- Edge kinds a path may cross when rows must stay rows: anything but `@fold` (below a fold a
change of the sub-query changes the *contents* of the folded lists and the count, not the set of
rows). -/
def notFold (k : Kind) : Bool := !Kind.isFold k

/-- Edge kinds a path may cross when, in addition, the vertex at the end of the path must exist in
every row: neither `@fold` nor `@optional`. -/
def notFoldOpt (k : Kind) : Bool := !Kind.isFold k && !Kind.isOptional k

def anyKind (_ : Kind) : Bool := true

def fieldsOf : QNode → List QField
  | .mk _ fields => fields

def coerceOf : QNode → Option Name
  | .mk ct _ => ct

/-- The node at the end of `p`, provided every step selects an edge field whose kind satisfies
`ok`. -/
def descend (ok : Kind → Bool) : Path → QNode → Option QNode
  | [], n => some n
  | i :: p, .mk _ fields =>
    match fields[i]? with
    | some (.edge _ _ k c) => if ok k then descend ok p c else none
    | _ => none

/-- `p` is a path of the node that crosses no `@fold`. -/
def NoFoldPath (p : Path) (n : QNode) : Prop := (descend notFold p n).isSome = true

/-- `p` is a path of the node that crosses neither `@fold` nor `@optional`: the vertex it leads to
exists in every row ("outside missing optional scopes and folds"). -/
def StrictPath (p : Path) (n : QNode) : Prop := (descend notFoldOpt p n).isSome = true

instance (p : Path) (n : QNode) : Decidable (NoFoldPath p n) := by unfold NoFoldPath; infer_instance
instance (p : Path) (n : QNode) : Decidable (StrictPath p n) := by unfold StrictPath; infer_instance

/-- The `j`-th field of the node at the end of `p` (any path). -/
def fieldAt (p : Path) (j : Nat) (n : QNode) : Option QField :=
  match descend anyKind p n with
  | some t => (fieldsOf t)[j]?
  | none => none

/-- The `k`-th directive of the property field `j` of the node at `p`. -/
def dirAt (p : Path) (j k : Nat) (n : QNode) : Option Dir :=
  match fieldAt p j n with
  | some (.prop _ dirs) => dirs[k]?
  | _ => none

/-- The kind of the edge field `j` of the node at `p`. -/
def kindAt (p : Path) (j : Nat) (n : QNode) : Option Kind :=
  match fieldAt p j n with
  | some (.edge _ _ k _) => some k
  | _ => none

/-! ### generic rewriting at an address -/

/-- Rewrite the child node of an edge field; properties are left alone. -/
def onChild (g : QNode → QNode) : QField → QField
  | .edge nm ps k c => .edge nm ps k (g c)
  | fld => fld

/-- Rewrite the node at the end of `p` with `f`. -/
def modNode (f : QNode → QNode) : Path → QNode → QNode
  | [], n => f n
  | i :: p, .mk ct fields => .mk ct (fields.modify i (onChild (modNode f p)))

/-- Rewrite the `j`-th field of a node. -/
def modField (j : Nat) (g : QField → QField) : QNode → QNode
  | .mk ct fields => .mk ct (fields.modify j g)

def onQuery (f : QNode → QNode) (q : Query) : Query := { q with root := f q.root }

/-! ### the transformations -/

/-- Insert `@filter(op, arg)` as the `k`-th directive of a property (at the end when `k` is at least
the number of directives). -/
def addFilterF (k : Nat) (op : FOp) (arg : QArg) : QField → QField
  | .prop nm dirs => .prop nm (dirs.take k ++ [Dir.filter op arg] ++ dirs.drop k)
  | fld => fld

/-- **add a filter**: property field `j` of the node at `p` gets the extra directive
`@filter(op, arg)` at position `k`. -/
def addFilter (p : Path) (j k : Nat) (op : FOp) (arg : QArg) : Query → Query :=
  onQuery (modNode (modField j (addFilterF k op arg)) p)

/-- Insert a count filter `@filter(op, arg)` as the `k`-th directive of a `@fold` edge (at the end
when `k` is at least the number of fold directives); every other field is left unchanged. -/
def addCountFilterF (k : Nat) (op : FOp) (arg : QArg) : QField → QField
  | .edge nm ps (.fold fds) c => .edge nm ps (.fold (fds.take k ++ [FDir.countFilter op arg] ++ fds.drop k)) c
  | fld => fld

/-- **add a filter on a fold's count**: the `@fold` edge `j` of the node at `p` gets the extra
directive `@transform(op: "count") @filter(op, arg)` at position `k` of its fold directives. -/
def addCountFilter (p : Path) (j k : Nat) (op : FOp) (arg : QArg) : Query → Query :=
  onQuery (modNode (modField j (addCountFilterF k op arg)) p)

def setDepthF (d : Nat) : QField → QField
  | .edge nm ps (.recurse _) c => .edge nm ps (.recurse d) c
  | fld => fld

/-- **change a recursion depth**: the `@recurse` edge `j` of the node at `p` gets depth `d`. -/
def setRecurseDepth (p : Path) (j : Nat) (d : Nat) : Query → Query :=
  onQuery (modNode (modField j (setDepthF d)) p)

def makeOptionalF : QField → QField
  | .edge nm ps .plain c => .edge nm ps .optional c
  | fld => fld

/-- **make an edge `@optional`**: the plain edge `j` of the node at `p` becomes optional. -/
def makeOptional (p : Path) (j : Nat) : Query → Query :=
  onQuery (modNode (modField j makeOptionalF) p)

/-- Rewrite the `k`-th directive of a property. -/
def modDirF (k : Nat) (g : Dir → Dir) : QField → QField
  | .prop nm dirs => .prop nm (dirs.modify k g)
  | fld => fld

def eqToOneOfD (w : Name) : Dir → Dir
  | .filter (.bin .equals) (.var _) => .filter (.bin .oneOf) (.var w)
  | d => d

/-- **`=` to `one_of`**: directive `k` of property `j` of the node at `p`, a filter `= $v`, becomes
`one_of $w`. -/
def replaceEqByOneOf (p : Path) (j k : Nat) (w : Name) : Query → Query :=
  onQuery (modNode (modField j (modDirF k (eqToOneOfD w))) p)

/-- The complement of an operator, where the language has one: the `not_…` forms, `!=`, and
`is_null`/`is_not_null`.  The ordering operators have none: `<` and `>=` are both false on null. -/
def negOp : FOp → Option FOp
  | .un .isNull => some (.un .isNotNull)
  | .un .isNotNull => some (.un .isNull)
  | .bin .equals => some (.bin .notEquals)
  | .bin .notEquals => some (.bin .equals)
  | .bin .contains => some (.bin .notContains)
  | .bin .notContains => some (.bin .contains)
  | .bin .oneOf => some (.bin .notOneOf)
  | .bin .notOneOf => some (.bin .oneOf)
  | .bin .hasPrefix => some (.bin .notHasPrefix)
  | .bin .notHasPrefix => some (.bin .hasPrefix)
  | .bin .hasSuffix => some (.bin .notHasSuffix)
  | .bin .notHasSuffix => some (.bin .hasSuffix)
  | .bin .hasSubstring => some (.bin .notHasSubstring)
  | .bin .notHasSubstring => some (.bin .hasSubstring)
  | .bin .regexMatches => some (.bin .notRegexMatches)
  | .bin .notRegexMatches => some (.bin .regexMatches)
  | _ => none

def negDirD : Dir → Dir
  | .filter op arg =>
    match negOp op with
    | some nop => .filter nop arg
    | none => .filter op arg
  | d => d

/-- **negate a filter**: directive `k` of property `j` of the node at `p` is replaced by its
complement (unchanged when the operator has none). -/
def negateFilter (p : Path) (j k : Nat) : Query → Query :=
  onQuery (modNode (modField j (modDirF k negDirD)) p)

/-- Where a binary filter takes its operand from. A filter "has an existing operand" when it is
unary or compares with a query variable; a tag operand may come from a missing optional scope. -/
def QArg.isTag : QArg → Bool
  | .tag _ => true
  | _ => false

/-! #### renaming -/

def renArg (σt : Name → Name) : QArg → QArg
  | .tag n => .tag (σt n)
  | a => a

def renDir (σo σt : Name → Name) : Dir → Dir
  | .filter op arg => .filter op (renArg σt arg)
  | .tag n => .tag (σt n)
  | .output n => .output (σo n)

def renFDir (σo σt : Name → Name) : FDir → FDir
  | .countOutput n => .countOutput (σo n)
  | .countTag n => .countTag (σt n)
  | .countFilter op arg => .countFilter op (renArg σt arg)

def renKind (σo σt : Name → Name) : Kind → Kind
  | .fold fds => .fold (fds.map (renFDir σo σt))
  | k => k

mutual
/-- Rename every output name with `σo` and every tag name (definitions and uses) with `σt`. -/
def renNode (σo σt : Name → Name) : QNode → QNode
  | .mk ct fields => .mk ct (renFields σo σt fields)
def renFields (σo σt : Name → Name) : List QField → List QField
  | [] => []
  | .prop nm dirs :: rest => .prop nm (dirs.map (renDir σo σt)) :: renFields σo σt rest
  | .edge nm ps k c :: rest => .edge nm ps (renKind σo σt k) (renNode σo σt c) :: renFields σo σt rest
end

/-- **rename outputs** -/
def renameOutputs (σ : Name → Name) : Query → Query := onQuery (renNode σ id)

/-- **rename tags** -/
def renameTags (σ : Name → Name) : Query → Query := onQuery (renNode id σ)

/-- A row with its keys renamed (not re-sorted). -/
def renameRowKeys (σ : Name → Name) (r : Row) : Row := r.map fun kv => (σ kv.1, kv.2)

/-- Sort a row by key, as `Spec.rows` does. -/
def sortRow (r : Row) : Row := r.foldr insertSorted []

/-! #### reordering sibling selections -/

/-- Exchange elements `j` and `j+1` of a list. -/
def swapAdj {α : Type} : Nat → List α → List α
  | 0, a :: b :: rest => b :: a :: rest
  | j + 1, a :: rest => a :: swapAdj j rest
  | _, l => l

def swapAtF (j : Nat) : QNode → QNode
  | .mk ct fields => .mk ct (swapAdj j fields)

/-- **reorder siblings**: fields `j` and `j+1` of the node at `p` change places. -/
def swapSiblings (p : Path) (j : Nat) : Query → Query := onQuery (modNode (swapAtF j) p)

def isProp : QField → Bool
  | .prop .. => true
  | .edge .. => false

def dirTagUses : Dir → List Name
  | .filter _ (.tag n) => [n]
  | _ => []

def dirTagDefs : Dir → List Name
  | .tag n => [n]
  | _ => []

def fdirTagUses : FDir → List Name
  | .countFilter _ (.tag n) => [n]
  | _ => []

def fdirTagDefs : FDir → List Name
  | .countTag n => [n]
  | _ => []

def kindTagUses : Kind → List Name
  | .fold fds => fds.flatMap fdirTagUses
  | _ => []

def kindTagDefs : Kind → List Name
  | .fold fds => fds.flatMap fdirTagDefs
  | _ => []

mutual
/-- Tag names a subtree reads (operands of its filters, count filters included). -/
def tagUses : QNode → List Name
  | .mk _ fields => tagUsesFields fields
def tagUsesFields : List QField → List Name
  | [] => []
  | .prop _ dirs :: rest => dirs.flatMap dirTagUses ++ tagUsesFields rest
  | .edge _ _ k c :: rest => kindTagUses k ++ tagUses c ++ tagUsesFields rest
end

mutual
/-- Tag names a subtree can add to the assignment it extends: `@tag`s of its properties and the
count tags of its folds, *not* the tags defined inside a fold (those stay inside). -/
def tagDefs : QNode → List Name
  | .mk _ fields => tagDefsFields fields
def tagDefsFields : List QField → List Name
  | [] => []
  | .prop _ dirs :: rest => dirs.flatMap dirTagDefs ++ tagDefsFields rest
  | .edge _ _ k c :: rest =>
    (match k with
      | .fold _ => kindTagDefs k
      | _ => tagDefs c) ++ tagDefsFields rest
end

def fieldTagUses (f : QField) : List Name := tagUsesFields [f]
def fieldTagDefs (f : QField) : List Name := tagDefsFields [f]

def disjoint (a b : List Name) : Bool := a.all fun x => !b.contains x

/-- Fields `f` (first) and `g` (second) have no tag dependency: `g` reads no tag that `f` defines
(`f` cannot read one of `g` — tags are defined before use — but a hand-written tree might, so both
directions are required), and they define different names. -/
def independent (f g : QField) : Bool :=
  disjoint (fieldTagDefs f) (fieldTagUses g) && disjoint (fieldTagDefs g) (fieldTagUses f) &&
    disjoint (fieldTagDefs f) (fieldTagDefs g)

def dirOutNames : Dir → List Name
  | .output n => [n]
  | _ => []

/-- Two adjacent selections, at least one of which is a property, may change places when — if both
are properties — they define different tag names and different output names (in a valid query all
names are distinct). -/
def swapPropsOK : QField → QField → Bool
  | .prop _ d1, .prop _ d2 =>
    disjoint (d1.flatMap dirTagDefs) (d2.flatMap dirTagDefs) &&
      disjoint (d1.flatMap dirOutNames) (d2.flatMap dirOutNames)
  | .prop .., .edge .. => true
  | .edge .., .prop .. => true
  | .edge .., .edge .. => false

/-- Two adjacent edges may change places when neither reads a tag the other defines and they define
different tag names and different output names. -/
def swapEdgesOK (f g : QField) : Bool :=
  !isProp f && !isProp g && independent f g && disjoint (outNamesFields [f]) (outNamesFields [g])

/-! #### a parameterised edge as a filter -/

/-- Put the selection `prop @filter(op, arg)` in front of the fields of a node. -/
def prependFilterProp (prop : Name) (op : FOp) (arg : QArg) : QNode → QNode
  | .mk ct fields => .mk ct (.prop prop [Dir.filter op arg] :: fields)

def paramToFilterF (name' : Name) (params' : Params) (prop : Name) (op : FOp) (arg : QArg) :
    QField → QField
  | .edge _ _ .plain c => .edge name' params' .plain (prependFilterProp prop op arg c)
  | .edge _ _ (.fold fds) c => .edge name' params' (.fold fds) (prependFilterProp prop op arg c)
  | fld => fld

/-- **parameterised edge → filter**: the plain (or folded) edge `j` of the node at `p` is replaced
by the edge `name'(params')` whose sub-selection starts with `prop @filter(op, arg)`. -/
def paramEdgeToFilter (p : Path) (j : Nat) (name' : Name) (params' : Params) (prop : Name) (op : FOp)
    (arg : QArg) : Query → Query :=
  onQuery (modNode (modField j (paramToFilterF name' params' prop op arg)) p)

end TF.Transform
