/-
Model of `trustfall_core/src/ir/types/base.rs`: `Modifiers` (the bit mask), `Type` and its operations,
`Display`, and `Type::parse` = `async_graphql_parser::types::Type::new` followed by `Type::from_type`.

Representation choices (DESIGN.md §2 row `Ty`):
* the `u64` mask is a `Nat` manipulated with `<<<`, `>>>`, `&&&`, `|||` exactly where the Rust code
  uses `<<`, `>>`, `&`, `|`; the only places where 64-bit truncation could matter are written with an
  explicit `% 2^64` / `&&& (2^64-2)` (`mask << 2` in `new_list_type`, `!NON_NULLABLE_MASK` in
  `with_nullability`);
* the base name (`Arc<str>`) is its UTF-8 bytes, `Bytes = List UInt8` (same choice as `Value.string`);
  interning of the built-in names in `from_name_and_modifiers` is invisible to `PartialEq` and is not
  modelled; text (`Display` output, `parse` input) is `Bytes` as well: the three characters the grammar
  looks at (`[`, `]`, `!`) are ASCII, so `str::strip_prefix/strip_suffix(char)` on valid UTF-8 is the
  byte-level operation;
* every `panic!`/`unimplemented!` the input can reach is the outcome `panic`:
  `new_list_type` at max depth (base.rs:160), `from_type` past 30 levels (base.rs:270).
  The `unreachable!` of `from_type` (base.rs:279) cannot be reached: the loop only exits on a
  `Named` base.  `is_valid_value` has no panic site: its `FieldValue::Enum` arm is `false`
  (history: it was `unimplemented!("enum values are not currently supported")`, base.rs:380 —
  findings F-14 / F-C10-2 / F-C19-1, repaired; `isValidValue` was `Outcome Bool` then).

The second half of the file is the structural view `Shape` with `encode`/`decode`; the refinement
lemmas (mask operation = structural operation for depth ≤ 30) are in `Proofs/Ty.lean`.

Core Lean only (compiled into the native driver).
-/
import TrustfallModel.Model.Value

namespace TF

mutual
/-- A value none of whose leaves is a `FieldValue::Enum`. -/
def Value.enumFree : Value → Bool
  | .enum _ => false
  | .list l => Value.enumFreeList l
  | _ => true
def Value.enumFreeList : List Value → Bool
  | [] => true
  | x :: xs => Value.enumFree x && Value.enumFreeList xs
end

/-- `struct Type { base: Arc<str>, modifiers: Modifiers { mask: u64 } }`. -/
structure Ty where
  base : Bytes
  mask : Nat
  deriving DecidableEq, Repr, Inhabited

namespace Ty

/-- Result of an operation that may panic. -/
inductive Outcome (α : Type) where
  | ok (a : α)
  | panic
  deriving Repr, DecidableEq

namespace Outcome
/-- Chain two partial, possibly panicking steps (`ok none` = "no such type" propagates). -/
def bindOpt {α β : Type} : Outcome (Option α) → (α → Outcome (Option β)) → Outcome (Option β)
  | ok (some a), f => f a
  | ok none, _ => ok none
  | panic, _ => panic
end Outcome

/-! ### `impl Modifiers` -/

/-- `Modifiers::NON_NULLABLE_MASK`. -/
abbrev NON_NULLABLE_MASK : Nat := 1
/-- `Modifiers::LIST_MASK`. -/
abbrev LIST_MASK : Nat := 2
/-- `Modifiers::MAX_LIST_DEPTH`. -/
abbrev MAX_LIST_DEPTH : Nat := 30
/-- `Modifiers::MAX_LIST_DEPTH_MASK = LIST_MASK << ((MAX_LIST_DEPTH - 1) * 2)` (= 2^59). -/
abbrev MAX_LIST_DEPTH_MASK : Nat := LIST_MASK <<< ((MAX_LIST_DEPTH - 1) * 2)
/-- `u64` modulus. -/
abbrev U64_MOD : Nat := 2 ^ 64
/-- `!Modifiers::NON_NULLABLE_MASK` as a `u64`. -/
abbrev NOT_NON_NULLABLE_MASK : Nat := U64_MOD - 1 - NON_NULLABLE_MASK

namespace Mask

/-- `Modifiers::new(nullable)`. -/
def new (nullable : Bool) : Nat := if nullable then 0 else NON_NULLABLE_MASK

/-- `Modifiers::nullable`: `(mask & NON_NULLABLE_MASK) == 0`. -/
def nullable (m : Nat) : Bool := (m &&& NON_NULLABLE_MASK) == 0

/-- `Modifiers::is_list`: `(mask & LIST_MASK) != 0`. -/
def isList (m : Nat) : Bool := (m &&& LIST_MASK) != 0

/-- `Modifiers::as_list`: `self.is_list().then_some(Modifiers { mask: self.mask >> 2 })`. -/
def asList (m : Nat) : Option Nat := if isList m then some (m >>> 2) else none

/-- `Modifiers::at_max_list_depth`. -/
def atMaxListDepth (m : Nat) : Bool := (m &&& MAX_LIST_DEPTH_MASK) == MAX_LIST_DEPTH_MASK

/-- Termination of every loop/recursion over `as_list`: the mask strictly decreases. -/
theorem asList_lt {m m' : Nat} (h : asList m = some m') : m' < m := by
  unfold asList at h
  split at h
  · rename_i hl
    have hm : m ≠ 0 := by
      intro h0
      subst h0
      simp [isList] at hl
    cases h
    rw [Nat.shiftRight_eq_div_pow]
    exact Nat.div_lt_self (Nat.pos_of_ne_zero hm) (by decide)
  · cases h

end Mask

/-! ### `impl Type` -/

/-- `Type::new_named_type` (through `from_name_and_modifiers`, whose match only interns names). -/
def newNamedType (base : Bytes) (nullable : Bool) : Ty := ⟨base, Mask.new nullable⟩

/-- `Type::new_list_type`: panics when the inner type is at max list depth; otherwise
`(mask << 2) | LIST_MASK`, `| NON_NULLABLE_MASK` when not nullable. -/
def newListType (inner : Ty) (nullable : Bool) : Outcome Ty :=
  if Mask.atMaxListDepth inner.mask then .panic
  else
    let newMask := ((inner.mask <<< 2) % U64_MOD) ||| LIST_MASK
    let newMask := if !nullable then newMask ||| NON_NULLABLE_MASK else newMask
    .ok ⟨inner.base, newMask⟩

/-- `Type::with_nullability`. -/
def withNullability (t : Ty) (nullable : Bool) : Ty :=
  if nullable then ⟨t.base, t.mask &&& NOT_NON_NULLABLE_MASK⟩
  else ⟨t.base, t.mask ||| NON_NULLABLE_MASK⟩

/-- `Type::nullable`. -/
def nullable (t : Ty) : Bool := Mask.nullable t.mask

/-- `Type::is_list`. -/
def isList (t : Ty) : Bool := Mask.isList t.mask

/-- `Type::as_list`. -/
def asList (t : Ty) : Option Ty :=
  match Mask.asList t.mask with
  | some m => some ⟨t.base, m⟩
  | none => none

theorem asList_lt {t t' : Ty} (h : asList t = some t') : t'.mask < t.mask := by
  unfold asList at h
  split at h
  · rename_i m hm
    cases h
    exact Mask.asList_lt hm
  · cases h

/-- `Type::intersect_impl`: `nullable = self.nullable() && other.nullable()`, recursion through
`as_list` on both sides, rebuilt with `new_named_type` / `new_list_type` (which may panic). -/
def intersectImpl (a b : Ty) : Outcome (Option Ty) :=
  let nullable := a.nullable && b.nullable
  match _ha : a.asList, b.asList with
  | none, none => .ok (some (newNamedType a.base nullable))
  | some left, some right =>
    match intersectImpl left right with
    | .ok (some inner) =>
      match newListType inner nullable with
      | .ok t => .ok (some t)
      | .panic => .panic
    | .ok none => .ok none
    | .panic => .panic
  | _, _ => .ok none
termination_by a.mask
decreasing_by exact asList_lt _ha

/-- `Type::intersect`. -/
def intersect (a b : Ty) : Outcome (Option Ty) :=
  if a.base != b.base then .ok none else intersectImpl a b

/-- `Type::equal_ignoring_nullability`. -/
def equalIgnoringNullability (a b : Ty) : Bool :=
  if a.base != b.base then false
  else
    match _ha : a.asList, b.asList with
    | none, none => true
    | some left, some right => equalIgnoringNullability left right
    | _, _ => false
termination_by a.mask
decreasing_by exact asList_lt _ha

/-- `Type::is_scalar_only_subtype`: `self` is the parent, the argument the candidate subtype. -/
def isScalarOnlySubtype (self maybeSubtype : Ty) : Bool :=
  if !self.nullable && maybeSubtype.nullable then false
  else if self.base != maybeSubtype.base then false
  else
    match _ha : self.asList, maybeSubtype.asList with
    | none, none => true
    | some parent, some sub => isScalarOnlySubtype parent sub
    | _, _ => false
termination_by self.mask
decreasing_by exact asList_lt _ha

/-- `"Int"`, `"Float"`, `"String"`, `"Boolean"` as UTF-8 bytes. -/
abbrev INT : Bytes := [73, 110, 116]
abbrev FLOAT : Bytes := [70, 108, 111, 97, 116]
abbrev STRING : Bytes := [83, 116, 114, 105, 110, 103]
abbrev BOOLEAN : Bytes := [66, 111, 111, 108, 101, 97, 110]

mutual
/-- `Type::is_valid_value`: a total `bool` function.  `FieldValue::Enum` is valid for no type
(schemas cannot define enum types); a list value against a non-list type is `false` without looking
at the elements. -/
def isValidValue (t : Ty) : Value → Bool
  | .null => t.nullable
  | .int64 _ => !t.isList && t.base == INT
  | .uint64 _ => !t.isList && t.base == INT
  | .float64 _ => !t.isList && t.base == FLOAT
  | .string _ => !t.isList && t.base == STRING
  | .boolean _ => !t.isList && t.base == BOOLEAN
  | .list contents =>
    match t.asList with
    | some contentType => allValid contentType contents
    | none => false
  | .enum _ => false
/-- `contents.iter().all(|inner| content_type.is_valid_value(inner))`. -/
def allValid (contentType : Ty) : List Value → Bool
  | [] => true
  | x :: xs => isValidValue contentType x && allValid contentType xs
end

/-- `Type::is_orderable`: looks at the base name only. -/
def isOrderable (t : Ty) : Bool := t.base == INT || t.base == FLOAT || t.base == STRING

/-! ### `impl Display for Type` -/

abbrev LBRACKET : UInt8 := 91
abbrev RBRACKET : UInt8 := 93
abbrev BANG : UInt8 := 33

/-- First loop of `fmt`: one `[` per list level. -/
def displayLeft (m : Nat) : Bytes :=
  (if Mask.isList m then [LBRACKET] else []) ++
    (match _h : Mask.asList m with
     | some m' => displayLeft m'
     | none => [])
termination_by m
decreasing_by exact Mask.asList_lt _h

/-- Second loop of `fmt`: the `builder` string (`!` if non-null, then `]` if list, per level from
the outside), before it is reversed. -/
def displayBuilder (m : Nat) : Bytes :=
  (if !Mask.nullable m then [BANG] else []) ++ (if Mask.isList m then [RBRACKET] else []) ++
    (match _h : Mask.asList m with
     | some m' => displayBuilder m'
     | none => [])
termination_by m
decreasing_by exact Mask.asList_lt _h

/-- `Display::fmt`: brackets, base, reversed builder. -/
def display (t : Ty) : Bytes := displayLeft t.mask ++ t.base ++ (displayBuilder t.mask).reverse

/-! ### `async_graphql_parser::types::Type::new` and `Type::from_type`

Transcribed from `async-graphql-parser-7.2.1/src/types/mod.rs` (`impl Type { pub fn new }`) and
`async-graphql-value-7.2.1/src/lib.rs` (`Name::new`, which accepts *any* string):
```
let (nullable, ty) = if let Some(rest) = ty.strip_suffix('!') { (false, rest) } else { (true, ty) };
Some(Self { base: if let Some(ty) = ty.strip_prefix('[') {
                BaseType::List(Box::new(Self::new(ty.strip_suffix(']')?)?))
            } else { BaseType::Named(Name::new(ty)) }, nullable })
```
There is no validation of the name: `""`, `"]"`, `" Int"`, `"Int!"` (from the text `Int!!`) are all
accepted as names; the only rejected texts are those where a `[` is not matched by a final `]`. -/

/-- `async_graphql_parser::types::Type` with its `BaseType` inlined:
`named n null` = `Type { base: Named(n), nullable: null }`,
`list t null` = `Type { base: List(Box t), nullable: null }`. -/
inductive GType where
  | named (name : Bytes) (nullable : Bool)
  | list (inner : GType) (nullable : Bool)
  deriving Repr, DecidableEq, Inhabited

namespace GType
def nullable : GType → Bool
  | named _ n => n
  | list _ n => n
end GType

/-- `str::strip_suffix(c)` for an ASCII `c`. -/
def stripSuffix (s : Bytes) (c : UInt8) : Option Bytes :=
  match s.getLast? with
  | some x => if x == c then some s.dropLast else none
  | none => none

/-- `str::strip_prefix(c)` for an ASCII `c`. -/
def stripPrefix (s : Bytes) (c : UInt8) : Option Bytes :=
  match s with
  | x :: rest => if x == c then some rest else none
  | [] => none

theorem stripSuffix_length {s r : Bytes} {c : UInt8} (h : stripSuffix s c = some r) :
    r.length ≤ s.length := by
  unfold stripSuffix at h
  split at h
  · split at h
    · cases h; simp
    · cases h
  · cases h

theorem stripPrefix_length {s r : Bytes} {c : UInt8} (h : stripPrefix s c = some r) :
    r.length < s.length := by
  unfold stripPrefix at h
  split at h
  · split at h
    · cases h; simp
    · cases h
  · cases h

/-- The `(nullable, ty)` split at the head of `Type::new`. -/
def splitBang (s : Bytes) : Bool × Bytes :=
  match stripSuffix s BANG with
  | some rest => (false, rest)
  | none => (true, s)

theorem splitBang_length (s : Bytes) : (splitBang s).2.length ≤ s.length := by
  unfold splitBang
  split
  · rename_i rest h; exact stripSuffix_length h
  · exact Nat.le_refl _

/-- `async_graphql_parser::types::Type::new`. -/
def gparse (s : Bytes) : Option GType :=
  match _h1 : stripPrefix (splitBang s).2 LBRACKET with
  | some ty =>
    match _h2 : stripSuffix ty RBRACKET with
    | none => none
    | some inner =>
      match gparse inner with
      | none => none
      | some g => some (.list g (splitBang s).1)
  | none => some (.named (splitBang s).2 (splitBang s).1)
termination_by s.length
decreasing_by
  have a := splitBang_length s
  have b := stripPrefix_length _h1
  have c := stripSuffix_length _h2
  omega

/-- The `while let BaseType::List(..)` loop of `Type::from_type`, with its loop variables `mask`
and `i`; `g` is the type whose `base` the loop is looking at. -/
def fromTypeLoop : GType → Nat → Nat → Outcome Ty
  | .named name _, mask, _ => .ok ⟨name, mask⟩
  | .list inside _, mask, i =>
    let mask := mask ||| (LIST_MASK <<< i)
    let i := i + 2
    if i > MAX_LIST_DEPTH * 2 then .panic
    else
      let mask := if !inside.nullable then mask ||| (NON_NULLABLE_MASK <<< i) else mask
      fromTypeLoop inside mask i

/-- `Type::from_type`. -/
def fromType (g : GType) : Outcome Ty :=
  fromTypeLoop g (if g.nullable then 0 else NON_NULLABLE_MASK) 0

/-- `Type::parse`: `ok none` is `Err(TypeParseError)`. -/
def parse (s : Bytes) : Outcome (Option Ty) :=
  match gparse s with
  | none => .ok none
  | some g =>
    match fromType g with
    | .ok t => .ok (some t)
    | .panic => .panic

/-! ## Structural view -/

/-- A type's modifiers as a tree: nullability of this level, and the element level for lists. -/
inductive Shape where
  | named (nullable : Bool)
  | list (nullable : Bool) (inner : Shape)
  deriving DecidableEq, Repr, Inhabited

namespace Shape

def depth : Shape → Nat
  | named _ => 0
  | list _ s => depth s + 1

def nullable : Shape → Bool
  | named n => n
  | list n _ => n

/-- The non-null bit of a level. -/
def nnBit (nullable : Bool) : Nat := if nullable then 0 else 1

/-- The mask of a shape: two bits per level, outermost level in the lowest bits. -/
def encode : Shape → Nat
  | named n => nnBit n
  | list n s => encode s * 4 + 2 + nnBit n

/-- The shape read off a mask by the `is_list`/`as_list`/`nullable` accessors. -/
def decode (m : Nat) : Shape :=
  match _h : Mask.asList m with
  | some m' => list (Mask.nullable m) (decode m')
  | none => named (Mask.nullable m)
termination_by m
decreasing_by exact Mask.asList_lt _h

def withNullability : Shape → Bool → Shape
  | named _, n => named n
  | list _ s, n => list n s

def asList : Shape → Option Shape
  | named _ => none
  | list _ s => some s

/-- Level-wise AND of nullability; defined only for equal list depth. -/
def inter : Shape → Shape → Option Shape
  | named n, named n' => some (named (n && n'))
  | list n s, list n' s' => (inter s s').map (list (n && n'))
  | _, _ => none

/-- Same list depth. -/
def sameDepth : Shape → Shape → Bool
  | named _, named _ => true
  | list _ s, list _ s' => sameDepth s s'
  | _, _ => false

/-- `sub parent child`: same depth and, level by level, a non-null parent level forces a non-null
child level. -/
def sub : Shape → Shape → Bool
  | named n, named n' => !(!n && n')
  | list n s, list n' s' => !(!n && n') && sub s s'
  | _, _ => false

mutual
/-- Structural `is_valid_value` for base name `b`. -/
def valid (b : Bytes) : Shape → Value → Bool
  | s, .null => s.nullable
  | s, .int64 _ => s.depth == 0 && b == INT
  | s, .uint64 _ => s.depth == 0 && b == INT
  | s, .float64 _ => s.depth == 0 && b == FLOAT
  | s, .string _ => s.depth == 0 && b == STRING
  | s, .boolean _ => s.depth == 0 && b == BOOLEAN
  | list _ s, .list contents => validAll b s contents
  | named _, .list _ => false
  | _, .enum _ => false
def validAll (b : Bytes) (s : Shape) : List Value → Bool
  | [] => true
  | x :: xs => valid b s x && validAll b s xs
end

/-- The `!` suffix of a level. -/
def bang (nullable : Bool) : Bytes := if nullable then [] else [BANG]

/-- GraphQL text of a type with base name `b`. -/
def display (b : Bytes) : Shape → Bytes
  | named n => b ++ bang n
  | list n s => [LBRACKET] ++ display b s ++ [RBRACKET] ++ bang n

end Shape

/-- The type with base name `b` and modifiers `s`. -/
def ofShape (b : Bytes) (s : Shape) : Ty := ⟨b, s.encode⟩

/-- The shape of a type's mask. -/
def shape (t : Ty) : Shape := Shape.decode t.mask

/-- Number of list levels. -/
def listDepth (t : Ty) : Nat := t.shape.depth

/-- Well-formed masks: the encoding of a shape of at most 30 list levels.  Every constructor of
`Type` (`new_named_type`, `new_list_type`, `from_type`, `with_nullability`, `as_list`, `intersect`)
produces such a mask (proved in `Proofs/Ty.lean`), so every `Type` value is well-formed. -/
def WFMask (m : Nat) : Prop := ∃ s : Shape, s.depth ≤ MAX_LIST_DEPTH ∧ s.encode = m

/-- Well-formed type. -/
def WF (t : Ty) : Prop := WFMask t.mask

namespace GType
/-- Base name of a parsed type. -/
def name : GType → Bytes
  | named b _ => b
  | list g _ => name g
/-- Shape of a parsed type. -/
def shape : GType → Shape
  | named _ n => .named n
  | list g n => .list n (shape g)
end GType

end Ty
end TF
