/-
Model of `trustfall_core/src/ir/value.rs`: `FieldValue`, its `PartialEq` and `PartialOrd`.

Representation choices (DESIGN.md §2):
* integers are real `Int64` / `UInt64`, so `try_into` / `try_from` are modelled, not idealised;
* strings and enums are their UTF-8 bytes (`List UInt8`): Rust's `str` order is byte order;
* `float64 k`: `k` is the order-preserving integer key of a *finite* f64 with `-0.0` and `+0.0`
  identified (the Rust code asserts finiteness; the key map lives in the harness);
* lists are `List Value` (nested inductive).

This file imports nothing outside core so that it can be compiled into the native driver.
-/

namespace TF

abbrev Bytes := List UInt8

inductive Value where
  | null
  | int64 (i : Int64)
  | uint64 (u : UInt64)
  | float64 (k : Int)
  | string (s : Bytes)
  | boolean (b : Bool)
  | enum (s : Bytes)
  | list (l : List Value)
  deriving Repr, Inhabited

namespace Value

/-- `FieldValue::discriminant`. -/
def disc : Value → Nat
  | null => 0
  | int64 _ => 1
  | uint64 _ => 2
  | float64 _ => 3
  | string _ => 4
  | boolean _ => 5
  | enum _ => 6
  | list _ => 7

/-- `FieldValue::compare_i64_to_u64`, branch by branch:
`unsigned.try_into::<i64>()` succeeds iff `unsigned < 2^63`;
`u64::try_from(signed)` succeeds iff `0 ≤ signed`; a successful conversion preserves the numeric
value, and `i64::cmp` / `u64::cmp` are numeric comparison. -/
def cmpI64U64 (signed : Int64) (unsigned : UInt64) : Ordering :=
  if unsigned.toNat < 2 ^ 63 then
    -- `conv : i64` has the numeric value of `unsigned`; `signed.cmp(&conv)`
    compare signed.toInt (unsigned.toNat : Int)
  else if 0 ≤ signed.toInt then
    -- `conv : u64` has the numeric value of `signed`; `conv.cmp(&unsigned)`
    compare signed.toInt.toNat unsigned.toNat
  else
    Ordering.lt

/-- Lexicographic byte comparison: `str::cmp` / `[u8]::cmp`. -/
def cmpBytes : Bytes → Bytes → Ordering
  | [], [] => .eq
  | [], _ :: _ => .lt
  | _ :: _, [] => .gt
  | a :: as, b :: bs =>
    match compare a.toNat b.toNat with
    | .eq => cmpBytes as bs
    | o => o

/-- `bool::cmp`: `false < true`. -/
def cmpBool : Bool → Bool → Ordering
  | false, true => .lt
  | true, false => .gt
  | _, _ => .eq

mutual
/-- `impl PartialOrd for FieldValue` (`partial_cmp`), on finite floats always `Some`. -/
def cmp : Value → Value → Ordering
  | int64 l, uint64 r => cmpI64U64 l r
  | uint64 l, int64 r => (cmpI64U64 r l).swap
  | uint64 l, uint64 r => compare l.toNat r.toNat
  | int64 l, int64 r => compare l.toInt r.toInt
  | float64 l, float64 r => compare l r
  | string l, string r => cmpBytes l r
  | boolean l, boolean r => cmpBool l r
  | list l, list r => cmpList l r
  | enum l, enum r => cmpBytes l r
  | a, b => compare a.disc b.disc
/-- slice `partial_cmp`: lexicographic over element `partial_cmp`. -/
def cmpList : List Value → List Value → Ordering
  | [], [] => .eq
  | [], _ :: _ => .lt
  | _ :: _, [] => .gt
  | a :: as, b :: bs =>
    match cmp a b with
    | .eq => cmpList as bs
    | o => o
end

mutual
/-- `impl PartialEq for FieldValue`: mixed integers through `compare_i64_to_u64(..).is_eq()`,
everything else through `structural_eq` (lists: slice `==`, i.e. same length and element-wise
`PartialEq`). -/
def beq : Value → Value → Bool
  | int64 l, uint64 r => (cmpI64U64 l r) == .eq
  | uint64 l, int64 r => (cmpI64U64 r l) == .eq
  | uint64 l, uint64 r => l == r
  | int64 l, int64 r => l == r
  | float64 l, float64 r => l == r
  | string l, string r => l == r
  | boolean l, boolean r => l == r
  | list l, list r => beqList l r
  | enum l, enum r => l == r
  | a, b => a.disc == b.disc
def beqList : List Value → List Value → Bool
  | [], [] => true
  | a :: as, b :: bs => beq a b && beqList as bs
  | _, _ => false
end

instance : BEq Value := ⟨beq⟩

def lt (a b : Value) : Bool := cmp a b == .lt
def le (a b : Value) : Bool := cmp a b != .gt

/-- The mathematical value of an integer-kinded `Value`. -/
def numVal : Value → Option Int
  | int64 i => some i.toInt
  | uint64 u => some (u.toNat : Int)
  | _ => none

end Value
end TF
