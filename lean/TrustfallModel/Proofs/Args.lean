/-
Helper lemmas for C12: declarative well-typedness (`Conforms`) and "the traversal reaches an enum"
(`Reaches`: the exact condition under which `is_valid_value` panicked before the repair of F-14;
such values are now simply not valid) versus the executable `is_valid_value`; the complete
specification of
`from_query_and_arguments` (`validate_spec`, `validate_ok_iff`); the inferred variable type as the
greatest lower bound of the use types (`inferLoop_spec`).
-/
import TrustfallModel.Props.C17
import TrustfallModel.Model.ArgCheck
namespace TF.Args
open TF Ty Shape

/-- Declarative well-typedness of a value for base name `b` and modifiers `s`: the specification
`is_valid_value` is meant to decide.  Enum values conform to nothing. -/
inductive Conforms (b : Bytes) : Shape → Value → Prop where
  | null {s : Shape} : s.nullable = true → Conforms b s .null
  | int64 {n : Bool} {i : Int64} : b = INT → Conforms b (.named n) (.int64 i)
  | uint64 {n : Bool} {u : UInt64} : b = INT → Conforms b (.named n) (.uint64 u)
  | float64 {n : Bool} {k : Int} : b = FLOAT → Conforms b (.named n) (.float64 k)
  | string {n : Bool} {x : Bytes} : b = STRING → Conforms b (.named n) (.string x)
  | boolean {n : Bool} {x : Bool} : b = BOOLEAN → Conforms b (.named n) (.boolean x)
  | list {n : Bool} {s : Shape} {l : List Value} :
      (∀ x, x ∈ l → Conforms b s x) → Conforms b (.list n s) (.list l)

/-- The traversal of `is_valid_value` reaches an enum leaf: the value is an enum, or it is a list
checked against a list type and its first element that is not well-typed reaches one.  (Before the
repair of F-14 this was exactly the condition for the `unimplemented!` panic — the former
`valid_panic_iff`; now `reaches_not_valid`: such a value is refused.) -/
inductive Reaches (b : Bytes) : Shape → Value → Prop where
  | enum {s : Shape} {e : Bytes} : Reaches b s (.enum e)
  | list {n : Bool} {s : Shape} {pre post : List Value} {x : Value} :
      (∀ p, p ∈ pre → Conforms b s p) → Reaches b s x →
      Reaches b (.list n s) (.list (pre ++ x :: post))

theorem depth_eq_zero_iff (s : Shape) : s.depth = 0 ↔ ∃ n, s = .named n := by
  cases s <;> simp [depth]

mutual
theorem valid_iff_conforms (b : Bytes) (s : Shape) :
    (v : Value) → (Shape.valid b s v = true ↔ Conforms b s v)
  | .null => by
    simp only [Shape.valid]
    constructor
    · exact Conforms.null
    · intro h; cases h; assumption
  | .int64 i => by
    simp only [Shape.valid, Bool.and_eq_true, depth_eq_zero_iff, beq_iff_eq]
    constructor
    · intro ⟨⟨n, hn⟩, hb⟩; subst hn; exact Conforms.int64 hb
    · intro h; cases h; exact ⟨⟨_, rfl⟩, by assumption⟩
  | .uint64 i => by
    simp only [Shape.valid, Bool.and_eq_true, depth_eq_zero_iff, beq_iff_eq]
    constructor
    · intro ⟨⟨n, hn⟩, hb⟩; subst hn; exact Conforms.uint64 hb
    · intro h; cases h; exact ⟨⟨_, rfl⟩, by assumption⟩
  | .float64 i => by
    simp only [Shape.valid, Bool.and_eq_true, depth_eq_zero_iff, beq_iff_eq]
    constructor
    · intro ⟨⟨n, hn⟩, hb⟩; subst hn; exact Conforms.float64 hb
    · intro h; cases h; exact ⟨⟨_, rfl⟩, by assumption⟩
  | .string i => by
    simp only [Shape.valid, Bool.and_eq_true, depth_eq_zero_iff, beq_iff_eq]
    constructor
    · intro ⟨⟨n, hn⟩, hb⟩; subst hn; exact Conforms.string hb
    · intro h; cases h; exact ⟨⟨_, rfl⟩, by assumption⟩
  | .boolean i => by
    simp only [Shape.valid, Bool.and_eq_true, depth_eq_zero_iff, beq_iff_eq]
    constructor
    · intro ⟨⟨n, hn⟩, hb⟩; subst hn; exact Conforms.boolean hb
    · intro h; cases h; exact ⟨⟨_, rfl⟩, by assumption⟩
  | .enum e => by
    rw [Shape.valid_enum]
    constructor <;> intro h <;> cases h
  | .list l => by
    cases s with
    | named n =>
      simp only [Shape.valid]
      constructor <;> intro h <;> cases h
    | list n s' =>
      simp only [Shape.valid]
      rw [validAll_iff_conforms b s' l]
      constructor
      · exact Conforms.list
      · intro h; cases h; assumption
theorem validAll_iff_conforms (b : Bytes) (s : Shape) :
    (l : List Value) → (validAll b s l = true ↔ ∀ x, x ∈ l → Conforms b s x)
  | [] => by simp [validAll]
  | x :: xs => by
    have h1 := valid_iff_conforms b s x
    have h2 := validAll_iff_conforms b s xs
    simp only [validAll, List.mem_cons, forall_eq_or_imp, Bool.and_eq_true]
    rw [← h1, ← h2]
end


theorem reaches_list_iff (b : Bytes) (n : Bool) (s : Shape) (l : List Value) :
    Reaches b (.list n s) (.list l) ↔
      ∃ pre x post, l = pre ++ x :: post ∧ (∀ p, p ∈ pre → Conforms b s p) ∧ Reaches b s x := by
  constructor
  · intro h
    cases h with
    | list hp hx => exact ⟨_, _, _, rfl, hp, hx⟩
  · intro ⟨pre, x, post, hl, hp, hx⟩
    subst hl
    exact Reaches.list hp hx

/-- A value whose traversal reaches an enum leaf is not well-typed. -/
theorem reaches_not_conforms {b : Bytes} {s : Shape} {v : Value} (h : Reaches b s v) :
    ¬ Conforms b s v := by
  induction h with
  | enum => intro hc; cases hc
  | list _ _ ih =>
    intro hc
    cases hc with
    | list hall => exact ih (hall _ (by simp))

/-- … so `is_valid_value` answers `false` on it (it answered with a panic before the repair of F-14:
the former `valid_panic_iff : Shape.valid b s v = .panic ↔ Reaches b s v`). -/
theorem reaches_not_valid {b : Bytes} {s : Shape} {v : Value} (h : Reaches b s v) :
    Shape.valid b s v = false := by
  cases hv : Shape.valid b s v with
  | false => rfl
  | true => exact absurd ((valid_iff_conforms b s v).mp hv) (reaches_not_conforms h)


/-! ### `from_query_and_arguments` -/

section
variable {N : Type} [DecidableEq N]

/-- The variables whose supplied value is not valid for their type, in variable order. -/
def illTyped (vars : List (N × Ty)) (args : List (N × Value)) : List (ArgErr N) :=
  vars.filterMap fun nt =>
    match getArg args nt.1 with
    | some v => if isValidValue nt.2 v = false then some (.argumentTypeError nt.1 nt.2 v) else none
    | none => none

/-- The variables without a value, in variable order. -/
def missing (vars : List (N × Ty)) (args : List (N × Value)) : List N :=
  (vars.filter fun nt => (getArg args nt.1).isNone).map (·.1)

theorem checkVariables_eq (args : List (N × Value)) (vars : List (N × Ty)) :
    checkVariables args vars = (illTyped vars args, missing vars args) := by
  induction vars with
  | nil => simp [checkVariables, illTyped, missing]
  | cons nt rest ih =>
    obtain ⟨n, t⟩ := nt
    simp only [checkVariables, ih]
    cases hg : getArg args n with
    | none => simp [illTyped, missing, hg]
    | some v =>
      cases hv : isValidValue t v <;>
        simp [illTyped, missing, hg, hv, validateArgumentType]

/-- The `errors` vector of a run. -/
def errorsOf (vars : List (N × Ty)) (args : List (N × Value)) : List (ArgErr N) :=
  illTyped vars args ++
    (if (missing vars args).isEmpty then [] else [.missingArguments (missing vars args)]) ++
    (if (unusedArguments vars args).isEmpty then [] else [.unusedArguments (unusedArguments vars args)])

omit [DecidableEq N] in
theorem ofVec_ok {es : List (ArgErr N)} (h : es ≠ []) :
    ∃ e, ArgsError.ofVec es = .ok e ∧ e.errors = es := by
  match es, h with
  | [e], _ => exact ⟨_, rfl, rfl⟩
  | e1 :: e2 :: rest, _ => exact ⟨_, rfl, rfl⟩

/-- `validate`, completely (no side condition — before the repair of F-14 this was stated under
`¬ SomePanics vars args`, "no supplied value makes `is_valid_value` panic", and the first clause
was `SomePanics vars args → validate vars args = .panic`): accepted exactly when the `errors`
vector is empty, and refused with exactly it otherwise. -/
theorem validate_spec (vars : List (N × Ty)) (args : List (N × Value)) :
    (errorsOf vars args = [] → validate vars args = .ok (.ok ())) ∧
    (errorsOf vars args ≠ [] →
      ∃ e, validate vars args = .ok (.error e) ∧ e.errors = errorsOf vars args) := by
  have hE : (let errors := if (missing vars args).isEmpty then illTyped vars args
        else illTyped vars args ++ [.missingArguments (missing vars args)]
      if (unusedArguments vars args).isEmpty then errors
      else errors ++ [.unusedArguments (unusedArguments vars args)]) = errorsOf vars args := by
    unfold errorsOf
    cases (missing vars args).isEmpty <;> cases (unusedArguments vars args).isEmpty <;> simp
  simp only [] at hE
  constructor
  · intro h0
    simp only [validate, checkVariables_eq]
    rw [hE, h0]; rfl
  · intro hne
    obtain ⟨e, he, hee⟩ := ofVec_ok hne
    refine ⟨e, ?_, hee⟩
    simp only [validate, checkVariables_eq]
    rw [hE]
    have : (errorsOf vars args).isEmpty = false := by
      cases h' : errorsOf vars args with
      | nil => exact absurd h' hne
      | cons _ _ => rfl
    simp [this, he]


theorem mem_illTyped {vars : List (N × Ty)} {args : List (N × Value)} {e : ArgErr N} :
    e ∈ illTyped vars args ↔ ∃ nt, nt ∈ vars ∧ ∃ v, getArg args nt.1 = some v ∧
      isValidValue nt.2 v = false ∧ e = .argumentTypeError nt.1 nt.2 v := by
  simp only [illTyped, List.mem_filterMap]
  constructor
  · intro ⟨nt, hm, h⟩
    refine ⟨nt, hm, ?_⟩
    cases hg : getArg args nt.1 with
    | none => simp [hg] at h
    | some v =>
      simp only [hg] at h
      split at h
      · rename_i hv; cases h; exact ⟨v, rfl, hv, rfl⟩
      · cases h
  · intro ⟨nt, hm, v, hg, hv, he⟩
    exact ⟨nt, hm, by simp [hg, hv, he]⟩

theorem mem_missing {vars : List (N × Ty)} {args : List (N × Value)} {n : N} :
    n ∈ missing vars args ↔ (∃ t, (n, t) ∈ vars) ∧ getArg args n = none := by
  simp only [missing, List.mem_map, List.mem_filter, Option.isNone_iff_eq_none]
  constructor
  · intro ⟨nt, ⟨hm, hg⟩, hn⟩; subst hn; exact ⟨⟨nt.2, hm⟩, hg⟩
  · intro ⟨⟨t, hm⟩, hg⟩; exact ⟨(n, t), ⟨hm, hg⟩, rfl⟩

theorem mem_unused {vars : List (N × Ty)} {args : List (N × Value)} {k : N} :
    k ∈ unusedArguments vars args ↔ (∃ v, (k, v) ∈ args) ∧ ¬ ∃ t, (k, t) ∈ vars := by
  simp only [unusedArguments, List.mem_filter, List.mem_map, Bool.not_eq_true', List.any_eq_false,
    beq_iff_eq]
  constructor
  · intro ⟨⟨kv, hm, hk⟩, hno⟩
    subst hk
    exact ⟨⟨kv.2, hm⟩, fun ⟨t, ht⟩ => hno (kv.1, t) ht rfl⟩
  · intro ⟨⟨v, hm⟩, hno⟩
    exact ⟨⟨(k, v), hm, rfl⟩, fun nt hnt hk => hno ⟨nt.2, by rw [← hk]; exact hnt⟩⟩

theorem errorsOf_eq_nil_iff (vars : List (N × Ty)) (args : List (N × Value)) :
    errorsOf vars args = [] ↔
      illTyped vars args = [] ∧ missing vars args = [] ∧ unusedArguments vars args = [] := by
  unfold errorsOf
  cases h1 : missing vars args <;> cases h2 : unusedArguments vars args <;> simp

/-- Acceptance, exactly. -/
theorem validate_ok_iff (vars : List (N × Ty)) (args : List (N × Value)) :
    validate vars args = .ok (.ok ()) ↔
      (∀ nt, nt ∈ vars → ∃ x, getArg args nt.1 = some x ∧ isValidValue nt.2 x = true) ∧
      (∀ kv, kv ∈ args → ∃ t, (kv.1, t) ∈ vars) := by
  have spec := validate_spec vars args
  constructor
  · intro h
    have hnil : errorsOf vars args = [] := by
      apply Classical.byContradiction
      intro hne
      obtain ⟨e, he, _⟩ := spec.2 hne
      rw [he] at h; cases h
    obtain ⟨h1, h2, h3⟩ := (errorsOf_eq_nil_iff vars args).mp hnil
    constructor
    · intro nt hm
      cases hg : getArg args nt.1 with
      | none =>
        have : nt.1 ∈ missing vars args := mem_missing.mpr ⟨⟨nt.2, hm⟩, hg⟩
        rw [h2] at this; cases this
      | some x =>
        refine ⟨x, rfl, ?_⟩
        cases hv : isValidValue nt.2 x with
        | true => rfl
        | false =>
          have : ArgErr.argumentTypeError nt.1 nt.2 x ∈ illTyped vars args :=
            mem_illTyped.mpr ⟨nt, hm, x, hg, hv, rfl⟩
          rw [h1] at this; cases this
    · intro kv hm
      apply Classical.byContradiction
      intro hno
      have : kv.1 ∈ unusedArguments vars args := mem_unused.mpr ⟨⟨kv.2, hm⟩, hno⟩
      rw [h3] at this; cases this
  · intro ⟨hv, hk⟩
    apply spec.1
    rw [errorsOf_eq_nil_iff]
    refine ⟨?_, ?_, ?_⟩
    · apply List.eq_nil_iff_forall_not_mem.mpr
      intro e he
      obtain ⟨nt, hm, v, hg, hf, _⟩ := mem_illTyped.mp he
      obtain ⟨x, hx, hxv⟩ := hv nt hm
      rw [hg] at hx; cases hx
      rw [hf] at hxv; cases hxv
    · apply List.eq_nil_iff_forall_not_mem.mpr
      intro n hn
      obtain ⟨⟨t, hm⟩, hg⟩ := mem_missing.mp hn
      obtain ⟨x, hx, _⟩ := hv (n, t) hm
      rw [hg] at hx; cases hx
    · apply List.eq_nil_iff_forall_not_mem.mpr
      intro k hkm
      obtain ⟨⟨v, hm⟩, hno⟩ := mem_unused.mp hkm
      exact hno (hk (k, v) hm)

end

/-! ### The inferred type is the greatest lower bound of the use types -/

theorem inferLoop_spec {e : Ty} (he : WF e) (uses : List Ty) (hu : ∀ u, u ∈ uses → WF u) :
    ∃ t bad, inferLoop e uses = .ok (t, bad) ∧ WF t ∧
      (bad = false → ∀ x, isValidValue t x = true ↔
        (isValidValue e x = true ∧ ∀ u, u ∈ uses → isValidValue u x = true)) ∧
      (bad = true ↔ ∃ u, u ∈ uses ∧ equalIgnoringNullability e u = false) := by
  induction uses generalizing e with
  | nil => exact ⟨e, false, rfl, he, by simp, by simp⟩
  | cons u rest ih =>
    have hwu := hu u (by simp)
    have hrest : ∀ w, w ∈ rest → WF w := fun w hw => hu w (by simp [hw])
    obtain ⟨r, hr, hrw⟩ := C17.intersect_total he hwu
    have hiff := C17.intersect_some_iff_eqIgnNull he hwu
    simp only [inferLoop, hr]
    cases r with
    | none =>
      have hne : equalIgnoringNullability e u = false := by
        cases h : equalIgnoringNullability e u with
        | false => rfl
        | true => obtain ⟨c, hc⟩ := hiff.mpr h; rw [hr] at hc; cases hc
      obtain ⟨t, bad, hl, hwt, _, _⟩ := ih he hrest
      refine ⟨t, true, by simp [hl], hwt, by simp, ?_⟩
      simp only [true_iff]
      exact ⟨u, by simp, hne⟩
    | some c =>
      have hwc := hrw c rfl
      have heq : equalIgnoringNullability e u = true := hiff.mp ⟨c, hr⟩
      obtain ⟨t, bad, hl, hwt, hgood, hbad⟩ := ih hwc hrest
      refine ⟨t, bad, hl, hwt, ?_, ?_⟩
      · intro hb x
        rw [hgood hb x, C17.valid_intersect he hwu hr x]
        simp only [List.mem_cons, forall_eq_or_imp]
        exact ⟨fun ⟨⟨a, b⟩, c⟩ => ⟨a, b, c⟩, fun ⟨a, b, c⟩ => ⟨⟨a, b⟩, c⟩⟩
      · rw [hbad]
        have hce : ∀ w, WF w → (equalIgnoringNullability c w = equalIgnoringNullability e w) := by
          intro w hw
          have h1 := C17.eqIgnNull_iff hwc hw
          have h2 := C17.eqIgnNull_iff he hw
          obtain ⟨hb1, hb2, hsh⟩ := C17.intersect_some_spec he hwu hr
          have hd : c.listDepth = e.listDepth := by
            unfold listDepth
            exact Shape.inter_depth hsh
          rw [hb1, hd] at h1
          cases ha : equalIgnoringNullability c w <;> cases hb : equalIgnoringNullability e w <;> simp_all
        constructor
        · intro ⟨w, hw, hf⟩
          exact ⟨w, by simp [hw], by rw [← hce w (hrest w hw)]; exact hf⟩
        · intro ⟨w, hw, hf⟩
          cases List.mem_cons.mp hw with
          | inl h => subst h; rw [heq] at hf; cases hf
          | inr h => exact ⟨w, h, by rw [hce w (hrest w h)]; exact hf⟩

end TF.Args
